"""C07 — parallel_pipeline: every item passes every filter exactly once; serial_in_order filters share one order;
serial filters run one invocation at a time; never more than max_number_of_live_tokens items in flight; the call
returns only after end of input and after every emitted item has left the last filter.

Tie between lean/TbbVerif/{Model,Props}/C07.lean and the current tree of REPO (src/tbb/parallel_pipeline.cpp):
  E-GEN   input_buffer::initial_buffer_size, sizeof(Token)                              -> Generated/C07.lean
  E-PURE  the real input_buffer (try_put_token / try_to_spawn_task_for_next_token / get_ordered_token / grow), white
          box, line by line against `TokenBuf` (driver c07buf); independent python mirror (token -> parked item) as the
          implementation-side monitor
  E-REAL  the real tbb::parallel_pipeline (libtbb built from the current tree) with logging filter bodies on real
          threads; the observed per-filter event log must be a trace of the Lean `Pipeline` model (driver c07pipe);
          python monitors of the property itself + atomic counters inside the bodies (MON lines)
  E-SHIM  the real tbb::parallel_pipeline on the WHOLE instrumented runtime (src/tbb/*.cpp compiled with the atomic shim,
          worker threads created under the controlled scheduler): every atomic access of parallel_pipeline.cpp
          (input_tokens, end_of_input, the buffers' spin_mutex, wait_ctx) is a scheduling point; seeded random schedules,
          bit-for-bit replay from (config, schedule); same log format, same monitors, same model validation
"""
import hashlib
import json
import os
import time
from concurrent.futures import ThreadPoolExecutor

import c07_life
import c07_wrap
import common
from common import (BuildError, REPO, ROOT, cxx_build, drv, ensure_repo_built, find_tbb_lib, first_diff, gen_write, log, sh)

H = "harness/c07/"
INC = ["-I" + os.path.join(REPO, "src"), "-I" + os.path.join(REPO, "src", "tbb"), "-D__TBB_BUILD", "-fno-access-control"]
PURE_FLAGS = ["-O1", "-g"] + INC + ["-fsanitize=address,undefined", "-fno-sanitize-recover=all"]
REAL_FLAGS = ["-O1", "-g", "-pthread"]
WATCHDOG_S = 60


def tbb_libs():
    d = ensure_repo_built(targets=("tbb",)) or find_tbb_lib()
    if not d:
        raise BuildError("no libtbb.so under %s/_build" % REPO)
    return ["-L" + d, "-ltbb", "-Wl,-rpath," + d]


def build_pure(libs):
    return cxx_build("C07", "pure", [H + "pure.cpp"], flags=PURE_FLAGS, libs=libs)


def build_real(libs):
    return cxx_build("C07", "real", [H + "real.cpp"], flags=REAL_FLAGS, libs=libs)


# ---------------------------------------------------------------------------------------------
# E-GEN
# ---------------------------------------------------------------------------------------------
def gen(ck, libs):
    exe = cxx_build("C07", "consts", [H + "consts.cpp"], flags=["-O0"] + INC, libs=libs)
    rc, out, err = sh([exe], timeout=60)
    if rc != 0:
        raise BuildError("consts harness failed rc=%d %s" % (rc, err[-400:]))
    c = json.loads(out)
    ck.extra["generated_constants"] = c
    c["bufferCleanup"] = c07_life.gen_flags(ck)
    gen_write("C07", "def initialBufferSize : Nat := %d\ndef tokenBits : Nat := %d\ndef bufferCleanup : Bool := %s\n" % (
        c["initialBufferSize"], c["tokenBits"], "true" if c["bufferCleanup"] else "false"))
    n = c["initialBufferSize"]
    ck.oblige("gen:initial_buffer_size is a power of two", "generated", n >= 1 and n & (n - 1) == 0, c)
    ck.oblige("gen:tokenBits=64", "generated", c["tokenBits"] == 64, c)
    return c


# ---------------------------------------------------------------------------------------------
# E-PURE: input_buffer ring
# ---------------------------------------------------------------------------------------------
class Mirror:
    """What input_buffer stands for: a map token -> parked task_info, the lowest token allowed to run (low) and the
    next token to hand out (high).  Independent of the Lean model and of the ring representation."""

    def __init__(self, ordered, init_size=4):
        self.ordered, self.low, self.high = ordered, 0, 0
        self.parked = {}          # token -> "item:token:ready"
        self.used = set()         # tokens ever put
        self.size = init_size     # only a generation heuristic (when does the ring grow)

    def put_token(self, ready, token):
        """token under which a put would be handled (None: violates the protocol = must not be generated)."""
        t = token if (self.ordered and ready) else self.high
        if t < self.low or t in self.used:
            return None
        return t

    def put(self, item, ready, token):
        t = self.put_token(ready, token)
        assert t is not None
        if not (self.ordered and ready):
            self.high += 1
        if self.ordered:
            info = "%d:%d:1" % (item, t)
        else:
            info = "%d:%d:%d" % (item, token, ready)
        self.used.add(t)
        parked = t != self.low
        if parked:
            self.parked[t] = info
            while t - self.low >= self.size:
                self.size *= 2
        return parked, info, t

    def done(self):
        self.low += 1
        return self.parked.pop(self.low, None)

    def tok(self):
        self.high += 1
        return self.high - 1

    def running(self):
        return self.low in self.used


def seq_valid(ops):
    """does the op list respect the protocol the generator promises (distinct tokens, never below low)?"""
    if not ops or ops[0][0] != "new":
        return False
    m = None
    for op in ops:
        if op[0] == "new":
            m = Mirror(op[1] != 0)
        elif op[0] == "put":
            if m.put_token(op[2], op[3]) is None:
                return False
            m.put(op[1], op[2], op[3])
        elif op[0] == "done":
            m.done()
        elif op[0] == "tok":
            m.tok()
    return True


def op_text(op):
    return " ".join(str(x) for x in op)


def gen_buf_seq(rng, init_size, style, nops, item0, big=False):
    """one operation sequence on a fresh buffer; returns list of ops (tuples).  `big`: let the ring grow to thousands
    of slots (otherwise far-ahead tokens are only generated while array_size <= 64)."""
    ordered = style != "unordered"
    cap1, cap2 = (256, 1024) if big else (32, 64)
    m = Mirror(ordered, init_size)
    ops = [("new", 1 if ordered else 0)]
    item = [item0]
    reserved = []      # tokens obtained with `tok` and not yet put (ordered)

    def put(ready, token):
        if m.put_token(ready, token) is None:
            return False
        ops.append(("put", item[0], ready, token))
        m.put(item[0], ready, token)
        item[0] += 1
        return True

    def explicit_token():
        lo, sz = m.low, m.size
        r = rng.random()
        if reserved and r < 0.25:
            t = reserved.pop(rng.randrange(len(reserved)))
            return t
        if style == "growth" and r < 0.55:
            cand = [lo + sz, lo + sz + 1, lo + 2 * sz + 3, lo + sz - 1, lo + 4 * sz + 1, lo + 8 * sz, lo + 3 * sz, lo + 2 * sz]
            if sz > cap1:
                cand = [lo + sz - 1, lo + sz, lo + sz + 1, lo + 2 * sz + 3]
            if sz > cap2:
                cand = [lo + rng.randrange(1, min(sz, 64))]
            return rng.choice(cand)
        if r < 0.35:
            return lo
        if r < 0.6:
            return lo + rng.randrange(1, 4)
        if r < 0.75:
            return lo + rng.randrange(0, min(sz, 4 * cap2))
        if r < 0.85 and sz <= cap2:
            return lo + sz - 1
        if r < 0.93 and sz <= cap2:
            return lo + sz + rng.randrange(0, 2)
        return lo + rng.randrange(0, 2 * sz) if sz <= cap2 else lo + rng.randrange(0, min(sz, 64))

    while len(ops) < nops:
        r = rng.random()
        if not ordered:
            # token/ready arguments are ignored by an unordered buffer (kept in the info, though)
            if m.running() and r < (0.45 if style != "wrap" else 0.5):
                ops.append(("done",))
                m.done()
            else:
                put(rng.randrange(2), rng.randrange(0, 50))
            continue
        if style == "wrap":
            # keep 1..size-1 tokens parked just above low and let low travel round the ring
            if m.running() and (len(m.parked) >= rng.randrange(1, m.size) or r < 0.3):
                ops.append(("done",))
                m.done()
            elif not m.running() and r < 0.6:
                put(1, m.low)
            else:
                put(1, m.low + rng.randrange(1, m.size + (1 if r < 0.05 else 0)))
            continue
        if style == "assign":
            if m.running() and r < 0.4:
                ops.append(("done",))
                m.done()
            elif r < 0.5:
                ops.append(("tok",))
                reserved.append(m.tok())
            elif r < 0.8 or not reserved:
                if not put(0, rng.randrange(0, 9)):
                    ops.append(("tok",))
                    reserved.append(m.tok())
            else:
                put(1, reserved.pop(rng.randrange(len(reserved))))
            continue
        # mixed / growth
        if r < 0.33 and (m.running() or rng.random() < 0.04):
            ops.append(("done",))      # (rarely a `done` although the low token never arrived: low skips a token)
            m.done()
        elif r < 0.38:
            ops.append(("tok",))
            reserved.append(m.tok())
        elif r < 0.45:
            put(0, rng.randrange(0, 9))
        else:
            put(1, explicit_token())
        reserved[:] = [t for t in reserved if t >= m.low and t not in m.used]
    # drain: every parked token gets its turn
    guard = 0
    while m.parked and guard < 20000:
        guard += 1
        if not m.running() and m.put_token(1, m.low) is not None and ordered and rng.random() < 0.7:
            put(1, m.low)
        ops.append(("done",))
        m.done()
    return ops


def ring_monitor(ops, outs):
    """Implementation-side property monitor for one sequence: returns None or (index, clause, detail)."""
    m = None
    for i, (op, o) in enumerate(zip(ops, outs)):
        w = o.split()
        try:
            if op[0] == "new":
                m = Mirror(op[1] != 0)
                st = w
            elif op[0] == "put":
                parked, info, t = m.put(op[1], op[2], op[3])
                if w[0] != "P" or w[4] != "|":
                    return (i, "output", "unparsable %r" % o)
                if int(w[3]) != t or w[2] != info:
                    return (i, "token", "put handled as %s under token %s, expected %s under token %d" % (w[2], w[3], info, t))
                if (w[1] == "1") != parked:
                    return (i, "parked-flag", "try_put_token returned %s for token %d with low_token %d (run-now iff token==low_token)" % (w[1], t, m.low))
                st = w[5:]
            elif op[0] == "done":
                exp = m.done()
                if w[0] != "D" or w[2] != "|":
                    return (i, "output", "unparsable %r" % o)
                got = None if w[1] == "-" else w[1]
                if got != exp:
                    return (i, "wakee", "note-done that makes low_token=%d woke %s, expected %s" % (m.low, got, exp))
                st = w[3:]
            elif op[0] == "tok":
                t = m.tok()
                if w[0] != "T" or w[2] != "|" or int(w[1]) != t:
                    return (i, "token", "get_ordered_token gave %r, expected %d" % (o, t))
                st = w[3:]
            else:
                continue
            # the ring as a whole: exactly the parked items, nothing lost, nothing duplicated
            size, low, high = int(st[0]), int(st[1]), int(st[2])
            slots = st[3:]
            if len(slots) != size or low != m.low or high != m.high:
                return (i, "state", "array_size/low/high = %s, expected low=%d high=%d" % (st[:3], m.low, m.high))
            have = sorted(s for s in slots if s != "-")
            want = sorted(m.parked.values())
            if have != want:
                return (i, "parked-set", "buffer holds %s, parked items are %s" % (have, want))
        except (IndexError, ValueError):
            return (i, "output", "unparsable %r" % o)
    if len(outs) != len(ops):
        return (min(len(outs), len(ops)), "output", "harness printed %d lines for %d operations" % (len(outs), len(ops)))
    return None


def run_pure_seq(exe, ops):
    text = "".join(op_text(o) + "\n" for o in ops)
    rc, out, err = sh([exe], input=text, timeout=20)
    outs = out.split("\n")[:-1] if out.endswith("\n") else out.split("\n")
    if rc != 0:
        return outs, (len(outs), "crash", "harness rc=%d: %s" % (rc, err.strip()[-600:]))
    return outs, ring_monitor(ops, outs)


def ddmin(ops, fails):
    """delta debugging on ops[1:] (ops[0] = new); `fails(candidate)` -> bool."""
    body = list(ops[1:])
    n = 2
    budget = 400
    t_end = time.time() + 150
    while len(body) >= 2 and budget > 0 and time.time() < t_end:
        chunk = max(1, len(body) // n)
        reduced = False
        for start in range(0, len(body), chunk):
            cand = body[:start] + body[start + chunk:]
            budget -= 1
            if cand and seq_valid([ops[0]] + cand) and fails([ops[0]] + cand):
                body, n, reduced = cand, max(n - 1, 2), True
                break
            if budget <= 0:
                break
        if not reduced:
            if chunk == 1:
                break
            n = min(len(body), n * 2)
    return [ops[0]] + body


def ring_shape(ops, clause):
    m = None
    s = []
    for op in ops:
        if op[0] == "new":
            m = Mirror(op[1] != 0)
            s.append("o" if op[1] else "u")
        elif op[0] == "put":
            t = m.put_token(op[2], op[3])
            s.append("P%d%s" % (t - m.low, "" if op[2] else "n"))
            m.put(op[1], op[2], op[3])
        elif op[0] == "done":
            s.append("D")
            m.done()
        elif op[0] == "tok":
            s.append("T")
            m.tok()
    sh_ = "".join(s)
    if len(sh_) > 48:
        sh_ = sh_[:48] + "+%d" % (len(sh_) - 48)
    return "ring:%s:%s" % (sh_, clause)


def run_buf(ck, consts, libs):
    exe = build_pure(libs)
    quick = ck.tier == "quick"
    nseq = 500 if quick else 8000
    init = consts["initialBufferSize"]
    styles = ["mixed", "growth", "wrap", "unordered", "assign"]
    seqs = []
    for i in range(nseq):
        style = styles[i % len(styles)] if i < 5 * len(styles) else ck.rng.choice(["mixed", "mixed", "growth", "growth", "wrap", "wrap", "unordered", "assign"])
        nops = ck.rng.choice([6, 12, 25, 40, 80, 160]) if i % 17 else 400
        seqs.append((style, gen_buf_seq(ck.rng, init, style, nops, ck.rng.randrange(0, 1000), big=(i % 40 == 7))))
    # a few fixed boundary sequences: growth by several doublings with parked tokens, wrap with a full ring
    fixed = [
        [("new", 1), ("put", 1, 1, 1), ("put", 2, 1, 3), ("put", 3, 1, init), ("put", 4, 1, init + 1), ("put", 5, 1, 2 * init + 3),
         ("put", 6, 1, 16 * init + 1), ("put", 0, 1, 0)] + [("done",)] * (16 * init + 2),
        [("new", 1)] + sum([[("put", 10 + 3 * r, 1, r * 3), ("put", 11 + 3 * r, 1, r * 3 + 1), ("put", 12 + 3 * r, 1, r * 3 + 2), ("done",), ("done",), ("done",)] for r in range(3 * init)], []),
        [("new", 1)] + [("put", t, 1, t) for t in range(init - 1, 0, -1)] + [("put", 0, 1, 0)] + [("done",)] * init
        + [("put", 100 + t, 1, init + t) for t in range(init - 1, 0, -1)] + [("put", 100, 1, init)] + [("done",)] * init,
        [("new", 0)] + [("put", t, 0, 0) for t in range(3 * init)] + [("done",)] * (3 * init),
        [("new", 1)] + [("put", t, 0, 0) for t in range(2 * init + 1)] + [("done",)] * (2 * init + 1),
        [("new", 1), ("put", 1, 1, init), ("put", 2, 1, init - 1), ("put", 3, 1, 2 * init), ("put", 4, 1, 2 * init - 1), ("put", 5, 1, 4 * init)] + [("done",)] * (4 * init + 1),
    ]
    for f in fixed:
        assert seq_valid(f), f
        seqs.append(("fixed", f))
    lines, owner = [], []
    for si, (_, ops) in enumerate(seqs):
        for oi, op in enumerate(ops):
            lines.append(op_text(op))
            owner.append((si, oi))
    text = "\n".join(lines) + "\n"
    rc, out, err = sh([exe], input=text, timeout=120 if quick else 1200)
    impl = out.split("\n")[:-1]
    crashed = rc != 0

    model = drv("c07buf", text)
    d = first_diff(impl, model)
    kinds, grows, maxsize = {}, 0, 0
    for l in lines:
        kinds[l.split()[0]] = kinds.get(l.split()[0], 0) + 1
    prev = None
    for (si, oi), o in zip(owner, impl):
        w = o.split()
        try:
            size = int(w[w.index("|") + 1]) if "|" in w else int(w[0])
        except (ValueError, IndexError):
            size = 0
        if oi > 0 and prev is not None and size > prev:
            grows += 1
        prev = size
        maxsize = max(maxsize, size)
    ck.extra["ring_input_distribution"] = {"sequences": len(seqs), "ops": kinds, "grow_events": grows, "max_array_size": maxsize,
                                           "styles": {s: sum(1 for st, _ in seqs if st == s) for s in styles + ["fixed"]}}
    ck.count(len(lines))
    for l, o in zip(lines, impl):
        w = o.split()
        ck.distinct.add(("ring", l.split()[0], w[0] if w else "", w[1] if len(w) > 1 and w[0] in ("P",) else "", (w[1] != "-") if len(w) > 1 and w[0] == "D" else ""))
    k = len(lines) // 3
    if k < len(impl):
        ck.sample({"ring_op": lines[k], "impl": impl[k][:200], "model": model[k][:200] if k < len(model) else None})
    ok = d is None and not crashed
    det = ""
    if not ok:
        if d is not None:
            si, oi = owner[d] if d < len(owner) else (None, None)
            det = "sequence %s op #%s %r: implementation %r, model %r" % (si, oi, lines[d] if d < len(lines) else None,
                                                                          impl[d][:300] if d < len(impl) else None, model[d][:300] if d < len(model) else None)
            if si is not None:
                det += "; sequence so far: " + "; ".join(op_text(o) for o in seqs[si][1][:oi + 1])[-900:]
        else:
            det = "harness rc=%d: %s" % (rc, err.strip()[-500:])
    ck.oblige("corr:input_buffer ring vs TokenBuf", "correspondence", ok, det)
    if not crashed:
        c07_wrap.run_wrap(ck, exe, seqs, impl, init)

    # implementation-side monitor (python mirror), per sequence
    bad = None
    pos = 0
    for si, (_, ops) in enumerate(seqs):
        outs = impl[pos:pos + len(ops)]
        pos += len(ops)
        r = ring_monitor(ops, outs)
        if r is None and len(outs) < len(ops):
            r = (len(outs), "crash", "harness rc=%d (crash, sanitizer abort or no answer in time) after %d lines: %s" % (rc, len(impl), err.strip()[-400:]))
            # the output is flushed at every `new`: the culprit is this sequence or the next one
            for sj in (si, si + 1):
                if sj < len(seqs):
                    _, rj = run_pure_seq(exe, seqs[sj][1])
                    if rj is not None:
                        si, ops, r = sj, seqs[sj][1], rj
                        break
        if r is not None:
            bad = (si, ops, r)
            break
    ck.oblige("monitor:ring hands every parked item out exactly once, at the note-done that reaches its token; run-now iff token==low_token",
              "correspondence", bad is None, "" if bad is None else "sequence %d op #%d (%s): %s: %s" % (bad[0], bad[2][0], op_text(bad[1][min(bad[2][0], len(bad[1]) - 1)]), bad[2][1], bad[2][2]))
    if bad is not None:
        si, ops, r = bad
        ops = ops[:min(r[0], len(ops) - 1) + 1] if r[1] != "crash" else ops
        clause = r[1]

        def fails(cand):
            _, rr = run_pure_seq(exe, cand)
            return rr is not None and rr[1] == clause
        if fails(ops):
            small = ddmin(ops, fails)
        else:
            small = bad[1]
        outs, rr = run_pure_seq(exe, small)
        rr = rr or r
        stdin = "".join(op_text(o) + "\n" for o in small)
        ck.counterexample(ring_shape(small, clause), "input_buffer: %s (op #%d of: %s)" % (rr[2], rr[0], "; ".join(op_text(o) for o in small)),
                          {"engine": "E-PURE", "harness": H + "pure.cpp", "stdin": stdin, "monitor": "ring", "clause": clause, "observed": outs[-3:]})


# ---------------------------------------------------------------------------------------------
# E-REAL: event logs of real runs
# ---------------------------------------------------------------------------------------------
CLAUSES = {
    "once": "every emitted item passes every filter exactly once, in stage order",
    "serial-overlap": "a serial filter never runs two invocations at once",
    "order": "all serial_in_order filters process items in one common order",
    "live>limit": "never more than max_number_of_live_tokens items in flight",
    "return": "parallel_pipeline returns only after end of input and after every emitted item left the last filter",
    "hb": "the hand-over of an item from filter to filter, and successive invocations of a serial filter, are ordered by happens-before "
          "computed from the memory orders the code passes (E-SHIM runs, harness/shim/verif_hb.h)",
    "harness": "atomic counters inside the filter bodies (MON lines), crash or hang of the harness",
}


def all_modes(maxlen):
    res = []
    for n in range(1, maxlen + 1):
        cur = [""]
        for _ in range(n):
            cur = [c + x for c in cur for x in "pio"]
        res += cur
    return res


def cfg_line(c):
    return "run %s %d %d %d %d %d" % tuple(c)


def parse_real(out):
    """[(cfg tuple, [event lines], terminator 'ret'|'hang'|None, [MON lines])]"""
    res, cur = [], None
    for l in out.split("\n"):
        if l.startswith("begin "):
            w = l.split()
            cur = [(w[1], int(w[2]), int(w[3]), int(w[4]), int(w[5]), int(w[6])), [], None, []]
        elif cur is None:
            continue
        elif l == "end":
            res.append(tuple(cur))
            cur = None
        elif l.startswith("MON "):
            cur[3].append(l)
        elif l in ("ret", "hang"):
            cur[2] = l
            cur[1].append(l)
        elif l:
            cur[1].append(l)
    return res


def run_batch(exe, cfgs, watchdog=WATCHDOG_S):
    """run configs in one harness process (restarting after a crash/hang); returns list aligned with cfgs of
    (events, term, mons) — a crashed config gets term='crash'."""
    res = []
    i = 0
    while i < len(cfgs):
        text = "".join(cfg_line(c) + "\n" for c in cfgs[i:])
        rc, out, err = sh([exe, str(watchdog)], input=text, timeout=watchdog * 4 + 60 * len(cfgs[i:]))
        got = parse_real(out)
        for (c, ev, term, mons) in got:
            res.append((ev, term, mons))
        i += len(got)
        if rc == 0 and len(res) >= len(cfgs):
            break
        if rc == 7 and got:
            continue              # watchdog: the hanging config was reported, go on with the rest
        if i < len(cfgs):
            res.append(([], "crash", ["MON crash harness rc=%d on this config: %s" % (rc, err.strip()[-300:])]))
            i += 1
    return res[:len(cfgs)]


def monitor_log(cfg, events, term, mons):
    """Independent monitors of the property on one observed log.  Returns list of (clause, detail)."""
    modes, limit, items = cfg[0], cfg[1], cfg[2]
    nf = len(modes)
    bad = []

    def flag(clause, det):
        if not any(b[0] == clause for b in bad):
            bad.append((clause, det))
    for m in mons:
        w = m.split(None, 2)
        what = w[1] if len(w) > 1 else "?"
        clause = {"serial-overlap": "serial-overlap", "live>limit": "live>limit", "event-after-return": "return",
                  "return-before-end-of-input": "return", "return-before-drain": "return", "hb-race": "hb"}.get(what, "harness")
        flag(clause, m)
    if term != "ret":
        flag("harness" if term == "crash" else "return", "run ended with %r instead of returning" % term)
    open_inv = {}
    emitted = []                      # ids in ie order
    stage = {}                        # item -> (k, 'b'|'e') last event
    inside = [0] * nf
    seqs = [[] for _ in range(nf)]    # b order per filter (k=0: ie order)
    ordered = [k for k in range(nf) if modes[k] == "i"]
    first_ord = ordered[0] if ordered else None
    live = 0
    stopped = False
    seen_ret = False
    for pos, l in enumerate(events):
        w = l.split()
        if seen_ret:
            flag("return", "event %r logged after the return" % l)
            continue
        if w[0] == "ib":
            if modes[0] != "p" and inside[0] > 0:
                flag("serial-overlap", "input filter (%s) invocation %s began at log position %d while another is running" % (modes[0], w[1], pos))
            inside[0] += 1
            open_inv[w[1]] = pos
            # an input invocation holds a token from its start: running input invocations + emitted items still in the pipe <= the limit
            if inside[0] + live > limit:
                flag("live>limit", "%d input invocation(s) running and %d emitted item(s) still in the pipe (limit %d) when invocation %s began at log position %d" % (
                    inside[0], live, limit, w[1], pos))
        elif w[0] == "ie":
            if w[1] not in open_inv:
                flag("once", "ie of unknown invocation %s" % w[1])
            else:
                del open_inv[w[1]]
                inside[0] -= 1
            if w[2] == "-":
                stopped = True
            else:
                it = int(w[2])
                if it != len(emitted):
                    flag("once", "input emitted id %d as its %d-th item" % (it, len(emitted)))
                emitted.append(it)
                seqs[0].append(it)
                stage[it] = (0, "e")
                if nf > 1:
                    live += 1
                    if live > limit:
                        flag("live>limit", "%d items in flight (limit %d) when item %d was emitted at log position %d" % (live, limit, it, pos))
        elif w[0] in ("b", "e"):
            k, it = int(w[1]), int(w[2])
            prev = stage.get(it)
            if prev is None or not (1 <= k < nf):
                flag("once", "%s for an item that was never emitted / a filter that does not exist" % l)
                continue
            if w[0] == "b":
                if prev != (k - 1, "e"):
                    flag("once", "item %d enters filter %d at log position %d but its previous event is %s%d" % (it, k, pos, prev[1], prev[0]))
                if modes[k] != "p" and inside[k] > 0:
                    flag("serial-overlap", "filter %d (%s) began item %d at log position %d while another invocation is inside" % (k, modes[k], it, pos))
                inside[k] += 1
                seqs[k].append(it)
                if modes[k] == "i" and k != first_ord:
                    ref = seqs[first_ord]
                    j = len(seqs[k]) - 1
                    if j >= len(ref) or ref[j] != it:
                        flag("order", "serial_in_order filter %d takes item %d as its %d-th, filter %d took %s; orders %s vs %s" % (
                            k, it, j, first_ord, ref[j] if j < len(ref) else "nothing yet", seqs[k][-12:], ref[max(0, j - 11):j + 1]))
            else:
                if prev != (k, "b"):
                    flag("once", "item %d leaves filter %d at log position %d but its previous event is %s%d" % (it, k, pos, prev[1], prev[0]))
                inside[k] -= 1
                if k == nf - 1:
                    live -= 1
            stage[it] = (k, w[0])
        elif w[0] in ("ret", "hang"):
            seen_ret = w[0] == "ret"
            if w[0] == "ret":
                if not stopped:
                    flag("return", "returned before any input invocation reached end of input")
                if open_inv:
                    flag("return", "returned while input invocation(s) %s still running" % sorted(open_inv))
                if nf > 1:
                    notdone = [it for it in emitted if stage.get(it) != (nf - 1, "e")]
                    if notdone:
                        flag("return", "returned although items %s have not left the last filter (last events %s)" % (notdone[:8], [stage[i] for i in notdone[:8]]))
        else:
            flag("harness", "unparsable log line %r" % l)
    if term == "ret":
        if len(emitted) != items:
            flag("return", "input emitted %d of %d items" % (len(emitted), items))
        for k in ordered:
            if k != first_ord and seqs[k] != seqs[first_ord]:
                flag("order", "serial_in_order filter %d order %s differs from filter %d order %s" % (k, seqs[k][:20], first_ord, seqs[first_ord][:20]))
        for k in range(1, nf):
            if sorted(seqs[k]) != emitted:
                flag("once", "filter %d processed %s, emitted items are 0..%d" % (k, sorted(seqs[k])[:30], len(emitted) - 1))
    return bad


def model_text(cfg, events):
    """c07pipe input for one log.
    Parallel input filters only: the harness logs `ie <inv> -` inside the body, but the model's `iend none` step is
    fused with the store end_of_input=true, which the code performs only after the body has returned; until then other
    tasks still pass the end-of-input test / recycle and call the input filter (`ib` lines after the first `ie -`).  The
    log position of an `ie -` is therefore only a lower bound of its model step: every `ie -` line that precedes the
    last `ib` line is moved to just after that `ib` (relative order kept; never past `ret`)."""
    modes, limit, items = cfg[0], cfg[1], cfg[2]
    ev = [e for e in events if e != "hang"]
    if modes[0] == "p":
        ibs = [i for i, e in enumerate(ev) if e.startswith("ib ")]
        if ibs:
            last = ibs[-1]
            early = [e for e in ev[:last] if e.startswith("ie ") and e.endswith(" -")]
            if early:
                ev = [e for e in ev[:last + 1] if not (e.startswith("ie ") and e.endswith(" -"))] + early + ev[last + 1:]
    return ["cfg %d %d %s" % (limit, items, modes)] + ev


def validate_logs(batch):
    """batch: list of (cfg, events).  One c07pipe call.  Returns list of None | (line, answer)."""
    texts = [model_text(c, ev) for c, ev in batch]
    flat = [l for t in texts for l in t]
    if not flat:
        return []
    outs = drv("c07pipe", "\n".join(flat) + "\n", timeout=3600)
    res, pos = [], 0
    for t in texts:
        o = outs[pos:pos + len(t)]
        pos += len(t)
        r = None
        for j, (l, a) in enumerate(zip(t, o)):
            if a != "ok":
                r = (l, a, j)
                break
        if r is None and len(o) < len(t):
            r = (t[len(o)], "no answer from the model driver", len(o))
        res.append(r)
    return res


LIMITS_Q = [1, 2, 3, 4, 7, 16, 2, 1, 3, 4]
ITEMS_Q = [0, 1, 2, 3, 4, 5, 6, 7, 8, 9, 10, 11, 12, 40, 200, 25, 3, 12, 5, 64]
THREADS_Q = [1, 2, 3, 4, 5, 6, 7, 8, 4, 8, 2]
DELAYS_Q = [0, 1, 2, 3, 4, 11, 2, 1, 14, 12, 4, 2, 10, 13]


def make_configs(ck):
    rng = ck.rng
    cfgs = []
    if ck.tier == "quick":
        per = 30
        o1, o2, o3, o4 = (rng.randrange(1000) for _ in range(4))
        j = 0
        for modes in all_modes(4):
            for r in range(per):
                limit = LIMITS_Q[(j + o1) % len(LIMITS_Q)]
                items = ITEMS_Q[(j * 7 + o2) % len(ITEMS_Q)]
                threads = THREADS_Q[(j * 3 + o3) % len(THREADS_Q)]
                dm = DELAYS_Q[(j * 5 + o4) % len(DELAYS_Q)]
                if r % 6 == 5:        # configs that are likely to reorder / fill the pipe
                    threads, items, dm = max(threads, 4), max(items, 12), rng.choice([2, 2, 3, 4, 12])
                    limit = max(limit, 3)
                if r % 5 == 3:        # library-allocated (non-trivial) tokens; pointer tokens
                    dm = dm % 10 + rng.choice([20, 30, 10, 30])
                cfgs.append((modes, limit, items, threads, rng.randrange(1 << 30), dm))
                j += 1
        # one filter only (the end-of-pipe token return is also the input filter's), small limits, more threads than tokens, lingering bodies
        for modes in ("p", "o", "i"):
            for limit, items, threads in [(1, 12, 4), (2, 16, 6), (3, 20, 8), (2, 9, 4)]:
                cfgs.append((modes, limit, items, threads, rng.randrange(1 << 30), rng.choice([2, 3, 4, 12])))
        # longer pipelines
        for modes in ["iopio", "pipip", "ioioi", "oiiopi", "ppipoip", "iiiiii", "opopop"]:
            for limit, items, threads in [(2, 9, 4), (5, 40, 8)]:
                cfgs.append((modes, limit, items, threads, rng.randrange(1 << 30), rng.choice([1, 2, 4, 12])))
    else:
        lims, its, ths, dms = [1, 2, 3, 4, 8], [0, 1, 2, 3, 5, 12, 40], [1, 2, 4, 8], [0, 1, 2, 3, 4]
        for modes in all_modes(3):
            for limit in lims:
                for items in its:
                    for threads in ths:
                        for dm in dms:
                            v = 10 if rng.random() < 0.15 else 20 if rng.random() < 0.2 else 30 if rng.random() < 0.2 else 0
                            cfgs.append((modes, limit, items, threads, rng.randrange(1 << 30), dm + v))
        for modes in all_modes(4)[39:]:
            for r in range(60):
                cfgs.append((modes, rng.choice(lims + [16]), rng.choice(its + [7, 9, 200]), rng.choice(ths + [3, 6]), rng.randrange(1 << 30),
                             rng.choice(dms + [2, 2, 4, 11, 12, 14])))
        for modes in ["iopio", "pipip", "ioioi", "oiiopi", "ppipoip", "iiiiii", "opopop", "ipipipip"]:
            for r in range(40):
                cfgs.append((modes, rng.choice(lims + [16]), rng.choice(its + [200]), rng.choice(ths), rng.randrange(1 << 30), rng.choice(dms + [2, 4, 12])))
        # second seed on the reordering-prone part of the cross product
        for modes in all_modes(3):
            if len(modes) >= 2:
                for limit in [2, 3, 4, 8]:
                    for items in [5, 12, 40]:
                        for dm in [2, 3, 4]:
                            cfgs.append((modes, limit, items, rng.choice([4, 8]), rng.randrange(1 << 30), dm))
    return cfgs


def run_configs(exe, cfgs, procs):
    """run all configs on `procs` harness processes; returns list aligned with cfgs."""
    if not cfgs:
        return []
    procs = max(1, min(procs, len(cfgs)))
    shards = [list(range(p, len(cfgs), procs)) for p in range(procs)]
    with ThreadPoolExecutor(max_workers=procs) as ex:
        parts = list(ex.map(lambda idx: run_batch(exe, [cfgs[i] for i in idx]), shards))
    res = [None] * len(cfgs)
    for idx, part in zip(shards, parts):
        for i, r in zip(idx, part):
            res[i] = r
    return res


def try_config(exe, cfg, clause, tries, rng, procs=3):
    """run cfg with `tries` (seed, delay) variations; first (cfg', events, detail) whose monitors flag `clause`
    (any clause if None)."""
    modes, limit, items, threads, seed, dm = cfg
    v = (dm // 10) * 10
    cand = [(modes, limit, items, threads, seed, dm)]
    dms = [dm % 10, 2, 4, 3, 1, 0]
    for t in range(1, tries):
        cand.append((modes, limit, items, threads, seed + t if t < 8 else rng.randrange(1 << 30), dms[t % len(dms)] + v))
    res = run_configs(exe, cand, procs)
    for c, (ev, term, mons) in zip(cand, res):
        bad = monitor_log(c, ev, term, mons)
        for b in bad:
            if clause is None or b[0] == clause:
                return c, ev, b
    return None


def minimise(exe, cfg, clause, rng, budget_runs=3000):
    """smaller config on which the property monitor `clause` still fails."""
    first = 60 if budget_runs >= 1000 else 12
    best = try_config(exe, cfg, clause, first, rng)
    if best is None:
        return None
    used = first
    improved = True
    while improved and used < budget_runs:
        improved = False
        modes, limit, items, threads, seed, dm = best[0]
        cands = []
        for k in range(len(modes) - 1, -1, -1):          # drop one filter
            if len(modes) > 1:
                cands.append((modes[:k] + modes[k + 1:], limit, items, threads, seed, dm))
        for k in range(len(modes)):                      # make a filter parallel unless it is what the clause is about
            if modes[k] != "p":
                cands.append((modes[:k] + "p" + modes[k + 1:], limit, items, threads, seed, dm))
        for it in sorted({0, 1, 2, 3, 4, items // 2, items - 1}):
            if 0 <= it < items:
                cands.append((modes, limit, it, threads, seed, dm))
        for lm in sorted({1, 2, limit // 2, limit - 1}):
            if 1 <= lm < limit:
                cands.append((modes, lm, items, threads, seed, dm))
        for th in sorted({1, 2, threads // 2, threads - 1}):
            if 1 <= th < threads:
                cands.append((modes, limit, items, th, seed, dm))
        for c in cands:
            r = try_config(exe, c, clause, 40 if budget_runs >= 1000 else 6, rng)
            used += 40 if budget_runs >= 1000 else 6
            if r is not None:
                best, improved = r, True
                break
            if used >= budget_runs:
                break
    return best


def run_real(ck, libs):
    exe = build_real(libs)
    quick = ck.tier == "quick"
    procs = 3 if quick else 4
    rounds = 1 if quick else 4          # thorough: the whole configuration set with 4 different seed sets
    fails = {k: [] for k in CLAUSES}
    corr_bad = []
    dist = {"limit": {}, "items": {}, "threads": {}, "delaymode": {}, "len": {}}
    reordered = nruns = nlogs = 0
    t_run = t_val = 0.0
    for rd in range(rounds):
        cfgs = make_configs(ck)
        t0 = time.time()
        res = run_configs(exe, cfgs, procs)
        t_run += time.time() - t0
        batch = []
        for c, (ev, term, mons) in zip(cfgs, res):
            bad = monitor_log(c, ev, term, mons)
            for cl, det in bad:
                if len(fails[cl]) < 50:
                    fails[cl].append((c, det, ev))
                else:
                    fails[cl].append((c, det, None))
            if term in ("ret", "hang"):
                batch.append((c, ev))
            ck.count(1, (c[0], c[1], min(c[2], 3), c[3] > 1))
            for key, val in (("limit", c[1]), ("items", c[2]), ("threads", c[3]), ("delaymode", c[5]), ("len", len(c[0]))):
                dist[key][val] = dist[key].get(val, 0) + 1
            if len(c[0]) > 1:
                last = [int(e.split()[2]) for e in ev if e.startswith("b %d " % (len(c[0]) - 1))]
                if last != sorted(last):
                    reordered += 1
        nruns += len(cfgs)
        nlogs += len(batch)
        if rd == 0:
            for c, ev in batch[len(batch) // 2:len(batch) // 2 + 3]:
                ck.sample({"config": list(c), "log_head": ev[:14], "events": len(ev)})
        # correspondence: each log is a trace of the Lean Pipeline model
        CH = 400
        chunks = [batch[i:i + CH] for i in range(0, len(batch), CH)]
        t0 = time.time()
        with ThreadPoolExecutor(max_workers=4) as ex:
            vres = list(ex.map(validate_logs, chunks))
        t_val += time.time() - t0
        for chunk, vr in zip(chunks, vres):
            for (c, ev), r in zip(chunk, vr):
                if r is None:
                    ck.traces_validated += 1
                else:
                    corr_bad.append((c, r, ev if len(corr_bad) < 20 else []))
        del batch, res
        if any(fails.values()) or corr_bad:
            break
    ck.extra["real_config_distribution"] = {k: dict(sorted(v.items())) for k, v in dist.items()}
    ck.extra["real_runs"] = nruns
    ck.extra["real_runs_with_overtaking_at_last_filter"] = reordered
    ck.extra["real_run_s"] = round(t_run, 1)
    ck.extra["real_validate_s"] = round(t_val, 1)
    ck.oblige("corr:event log is a trace of the Pipeline model", "correspondence", not corr_bad,
              "" if not corr_bad else "%d of %d logs rejected; first: config %s: line #%d %r -> %s; log: %s" % (
                  len(corr_bad), nlogs, list(corr_bad[0][0]), corr_bad[0][1][2], corr_bad[0][1][0], corr_bad[0][1][1], " / ".join(corr_bad[0][2])[:1200]))
    for cl, desc in CLAUSES.items():
        f = fails[cl]
        ck.oblige("monitor:" + desc, "correspondence", not f,
                  "" if not f else "%d run(s); first: config %s: %s" % (len(f), list(f[0][0]), f[0][1]))
    # failing-input search
    todo = []     # (cfg, clause or None)
    for cl in CLAUSES:
        seen_modes = set()
        for c, det, ev in fails[cl]:
            if c[0] not in seen_modes and len(seen_modes) < 1:
                seen_modes.add(c[0])
                todo.append((c, cl))
    if not todo and corr_bad:
        # the model rejects a log but no monitor fired: look for a property violation around these configs
        for c, r, ev in corr_bad[:3]:
            todo.append((c, None))
    done_keys = set()
    any_hang = any(x[2] and x[2][-1] == "hang" for cl2 in fails for x in fails[cl2][:50])
    for c, cl in todo[:2 if any_hang else 4]:
        if cl is None:
            r = try_config(exe, c, None, 150, ck.rng)
            if r is None:
                continue
            cl = r[2][0]
            c = r[0]
        # runs that do not return (watchdog / runaway guard) cost a harness process each: minimise them with a small budget
        hangy = any(x[2] and x[2][-1] == "hang" for cl2 in fails for x in fails[cl2][:50])
        best = minimise(exe, c, cl, ck.rng, budget_runs=(160 if hangy else 2500) if ck.tier == "quick" else (600 if hangy else 8000))
        if best is None:
            # not reproducible on re-run: report the observed log itself
            f = [x for x in fails.get(cl, []) if x[0] == c]
            if not f:
                continue
            best = (c, f[0][2] or [], (cl, f[0][1]))
        bc, bev, (bcl, bdet) = best
        key = "pipe:%s:%s" % (bc[0], bcl)
        if key in done_keys:
            continue
        done_keys.add(key)
        ck.counterexample(key, "parallel_pipeline(modes=%s, max_number_of_live_tokens=%d, %d items, %d threads): %s: %s" % (bc[0], bc[1], bc[2], bc[3], CLAUSES[bcl], bdet),
                          {"engine": "E-REAL", "harness": H + "real.cpp", "config": list(bc), "monitor": bcl, "observed_log": bev[:400], "detail": bdet})


# ---------------------------------------------------------------------------------------------
# E-SHIM: the real parallel_pipeline on the whole instrumented runtime under the controlled scheduler
# ---------------------------------------------------------------------------------------------
def build_shim():
    objs = common.shim_runtime_objects()
    # cxx_build re-links only when one of `sources` was recompiled; the instrumented runtime objects come in through
    # `libs`, so their content hash is made part of the link command (a changed parallel_pipeline.cpp must re-link)
    hh = hashlib.sha1("".join(common._sha(o) for o in objs).encode()).hexdigest()[:16]
    return cxx_build("C07", "shim", [H + "shim.cpp", common.SHIM_SRC],
                     flags=["-O1", "-g", "-fno-access-control", "-I" + REPO + "/src"] + common.SHIM_FLAGS,
                     libs=objs + ["-ldl", "-Wl,--build-id=0x" + hh])


def shim_args(c):
    """c = (modes, limit, items, P, bodyseed, schedseed, stay)"""
    return [c[0], str(c[1]), str(c[2]), str(c[3]), str(c[4]), "rand", str(c[5]), str(c[6])]


def parse_shim(out):
    ev, sched, stat, seen_begin = [], None, {}, False
    for l in out.split("\n"):
        if l.startswith("begin "):
            seen_begin = True
        elif l.startswith("sched "):
            sched = l[6:]
        elif l.startswith("stat "):
            stat.update(dict(kv.split("=") for kv in l.split()[1:]))
        elif l.startswith("MON "):
            stat.setdefault("_mons", []).append(l)
        elif l == "end" or not l:
            continue
        elif seen_begin:
            ev.append(l)
    return ev, sched, stat


def run_shim_one(exe, c, schedule=None):
    args = shim_args(c) if schedule is None else [c[0], str(c[1]), str(c[2]), str(c[3]), str(c[4]), "replay", schedule]
    # a run is bit-for-bit reproducible from its arguments, so a genuine crash reproduces; a crash that does not
    # (the sandbox occasionally kills a process under load) is retried and not reported
    for attempt in range(4):
        rc, out, err = sh([exe] + args, timeout=120)
        if rc in (0, 3):
            break
    ev, sched, stat = parse_shim(out)
    term = "ret" if (ev and ev[-1] == "ret" and rc == 0) else ("deadlock" if rc == 3 else ("crash" if rc != 0 else None))
    mons = list(stat.pop("_mons", []))
    if rc == 3:
        mons.append("MON return-before-drain deadlock: every controlled thread is parked (lost wake-up / lost hand-off / step limit), stat %s" % stat)
    elif rc != 0:
        mons.append("MON crash harness rc=%d %s" % (rc, err.strip()[-300:]))
    return ev, term, mons, sched, stat


def shim_configs(ck):
    rng = ck.rng
    per = 40 if ck.tier == "quick" else 400
    cfgs = []
    limits = [1, 2, 3, 4, 2, 1, 3, 7]
    stays = [96, 32, 0, 160, 224, 64]
    j = rng.randrange(1000)
    for modes in all_modes(4):
        for r in range(per):
            j += 1
            limit = limits[j % len(limits)]
            items = (j * 7) % 13 if r % 5 else rng.choice([0, 1, 2, 13, 20])
            P = [2, 3, 4, 2, 3, 4, 1, 5, 3, 8][(j * 3) % 10]
            cfgs.append((modes, limit, items, P, rng.randrange(0, 1 << 30) if r % 3 else 0, rng.randrange(1, 1 << 30), stays[j % len(stays)]))
    return cfgs


def run_shim(ck):
    exe = build_shim()
    cfgs = shim_configs(ck)
    t0 = time.time()
    with ThreadPoolExecutor(max_workers=min(8, common.NCPU)) as ex:
        res = list(ex.map(lambda c: run_shim_one(exe, c), cfgs))
    ck.extra["shim_run_s"] = round(time.time() - t0, 1)
    fails = {k: [] for k in CLAUSES}
    batch = []
    steps = 0
    reordered = 0
    threads_seen = {}
    for c, (ev, term, mons, sched, stat) in zip(cfgs, res):
        c6 = (c[0], c[1], c[2], c[3], c[5], 0)
        bad = monitor_log(c6, ev, "ret" if term == "ret" else term, mons)
        for cl, det in bad:
            fails[cl].append((c, det, ev, sched))
        if term == "ret":
            batch.append((c6, ev, c, sched))
        if len(c[0]) > 1:
            last = [int(e.split()[2]) for e in ev if e.startswith("b %d " % (len(c[0]) - 1))]
            if last != sorted(last):
                reordered += 1
        steps += int(stat.get("steps", 0) or 0)
        th = stat.get("threads", "?")
        threads_seen[th] = threads_seen.get(th, 0) + 1
        ck.count(1, ("shim", c[0], c[1], min(c[2], 3), c[3] > 1))
    ck.extra["shim_runs"] = len(cfgs)
    ck.extra["shim_runs_with_overtaking_at_last_filter"] = reordered
    ck.extra["shim_scheduling_points"] = steps
    ck.extra["shim_threads_per_run"] = dict(sorted(threads_seen.items()))
    corr_bad = []
    CH = 400
    chunks = [batch[i:i + CH] for i in range(0, len(batch), CH)]
    with ThreadPoolExecutor(max_workers=4) as ex:
        vres = list(ex.map(lambda ch: validate_logs([(a, b) for a, b, _, _ in ch]), chunks))
    for chunk, vr in zip(chunks, vres):
        for (c6, ev, c, sched), r in zip(chunk, vr):
            if r is None:
                ck.traces_validated += 1
            else:
                corr_bad.append((c, r, ev, sched))
    if batch:
        c6, ev, c, sched = batch[len(batch) // 3]
        ck.sample({"engine": "E-SHIM", "config": list(c), "log_head": ev[:14], "events": len(ev), "schedule_head": (sched or "")[:120]})
    ck.oblige("corr:E-SHIM event log (whole instrumented runtime, controlled schedule) is a trace of the Pipeline model", "correspondence",
              not corr_bad, "" if not corr_bad else "%d of %d logs rejected; first: shim %s: line #%d %r -> %s; log: %s" % (
                  len(corr_bad), len(batch), " ".join(shim_args(corr_bad[0][0])), corr_bad[0][1][2], corr_bad[0][1][0], corr_bad[0][1][1],
                  " / ".join(corr_bad[0][2])[:1200]))
    anyfail = [(cl, f) for cl, f in fails.items() if f]
    ck.extra["shim_hb_ghost_accesses"] = sum(int(st.get("ghost", 0) or 0) for (_, _, _, _, st) in res)
    ck.extra["shim_hb_sync_edges"] = sum(int(st.get("sync", 0) or 0) for (_, _, _, _, st) in res)
    ck.oblige("monitor:E-SHIM runs satisfy every clause of the property (once / order / serial-overlap / live<=limit / return after drain, no deadlock; hand-overs ordered by happens-before)",
              "correspondence", not anyfail,
              "" if not anyfail else "; ".join("%s: %d run(s), first shim %s: %s" % (cl, len(f), " ".join(shim_args(f[0][0])), f[0][1]) for cl, f in anyfail)[:1800])
    # failing-input search: smallest failing (config, schedule) among neighbours of the first failure of each clause
    done = set()
    for cl, f in anyfail[:3]:
        c, det, ev, sched = f[0]
        best = (c, det, ev, sched)
        tries = 0
        rng = ck.rng
        for items in sorted(set([0, 1, 2, 3, 4, 6, c[2]])):
            for limit in sorted(set([1, 2, c[1]])):
                for P in sorted(set([1, 2, 3, c[3]])):
                    if (items, limit, P) >= (best[0][2], best[0][1], best[0][3]) or tries > (1500 if ck.tier == "quick" else 6000):
                        continue
                    for t in range(40):
                        tries += 1
                        c2 = (c[0], limit, items, P, c[4], rng.randrange(1, 1 << 30), [96, 0, 200, 32][t % 4])
                        ev2, term2, mons2, sched2, stat2 = run_shim_one(exe, c2)
                        bad2 = monitor_log((c2[0], c2[1], c2[2], c2[3], c2[5], 0), ev2, term2, mons2)
                        hit = [b for b in bad2 if b[0] == cl]
                        if hit:
                            best = (c2, hit[0][1], ev2, sched2)
                            break
        bc, bdet, bev, bsched = best
        key = "shim:%s:%s" % (bc[0], cl)
        if key in done:
            continue
        done.add(key)
        ck.counterexample(key, "parallel_pipeline(modes=%s, max_number_of_live_tokens=%d, %d items, parallelism %d) under a controlled schedule: %s: %s" % (
            bc[0], bc[1], bc[2], bc[3], CLAUSES[cl], bdet),
            {"engine": "E-SHIM", "harness": H + "shim.cpp", "config": list(bc), "schedule": bsched, "monitor": cl, "observed_log": bev[:400], "detail": bdet})


def replay_shim(ck, obj):
    r = obj["replay"]
    exe = build_shim()
    c = tuple(r["config"])
    clause = r.get("monitor")
    print("replay of %s on %s: shim %s under the recorded schedule" % (obj.get("key"), REPO, " ".join(shim_args(c)[:5])))
    ev, term, mons, sched, stat = run_shim_one(exe, c, schedule=r.get("schedule") or "0*1")
    bad = monitor_log((c[0], c[1], c[2], c[3], c[5], 0), ev, term, mons)
    hit = [b for b in bad if clause is None or b[0] == clause] or bad
    if hit:
        print("STILL FAILS (recorded schedule): %s: %s" % (CLAUSES.get(hit[0][0], hit[0][0]), hit[0][1]))
        print("observed log: " + " / ".join(ev)[:3000])
        return 1
    for t in range(200):
        c2 = c[:5] + (c[5] + t, [96, 0, 200, 32][t % 4])
        ev, term, mons, sched, stat = run_shim_one(exe, c2)
        bad = monitor_log((c2[0], c2[1], c2[2], c2[3], c2[5], 0), ev, term, mons)
        hit = [b for b in bad if clause is None or b[0] == clause] or bad
        if hit:
            print("STILL FAILS on shim %s: %s: %s" % (" ".join(shim_args(c2)), CLAUSES.get(hit[0][0], hit[0][0]), hit[0][1]))
            print("observed log: " + " / ".join(ev)[:3000])
            return 1
    print("property holds now: the recorded schedule and 200 random schedules of this configuration are quiet")
    return 0


# ---------------------------------------------------------------------------------------------
def run(ck):
    ck.rule = ("E-PURE: random operation sequences (new/put/done/tok) on the real input_buffer in 5 styles (mixed, growth with far-ahead tokens "
               "low+size, low+size+1, low+2*size+3, several doublings while other tokens are parked, wrap = low travels round the ring with parked "
               "tokens present, unordered, token assignment by the buffer) + fixed boundary sequences; tokens distinct and >= low_token. "
               "E-REAL: real tbb::parallel_pipeline runs for ALL filter-mode sequences of length 1..4 over {parallel, serial_in_order, "
               "serial_out_of_order} (+ some of length 5..8) with limits 1..4,7/8,16, item counts 0..12,25,40,64,200, 1..8 threads, 5 seeded "
               "delay shapes (none, random spin, heavy-tailed, early-items-slow, sleep/yield), items carried as size_t ids (id 0 = null void*) "
               "or pointers. E-SHIM: the same mode sequences (length 1..4, 40 runs each; thorough 400) with limits 1..4,7, 0..13/20 items, "
               "parallelism 1..5,8, seeded numbers of scheduling points inside every filter body, seeded random controlled schedules with six "
               "different preemption rates. LIFE: for every mode sequence of length 1..3 (+ samples of length 4; thorough: all of length 4) three (thorough 12) "
               "base configurations (limit 1..4, 1..5 items, parallelism 1..4); for each, EVERY k below the number of filter invocations: the k-th invocation "
               "throws / the k-th invocation cancels the context, plus 4 external cancellations at seeded scheduling points and one run without fault, each under "
               "E-SHIM (seeded schedule) and on real threads; items are a non-trivial 32-byte value. WRAP: ring sequences shifted to start at 2^64-d (d = 1,2,3, "
               "array size, random < 700), 2^63-d and 2^32-2. distinct = (mode sequence, limit, min(items,3), threads>1) classes for runs; (operation, outcome class) for ring ops")
    ck.assumptions += [
        "model covers: the input_buffer ring exactly (array/array_size/low_token/high_token, grow, put, note-done, get_ordered_token), the "
        "input_tokens accounting (fetch_sub/fetch_add, recycling), end_of_input, and the put / note-done / recycle protocol of "
        "stage_task::execute_filter with one model step per lock region / RMW / atomic access, for any number of filters, items and tasks",
        "life-cycle model (Model/C07Life.lean): on top of the protocol model, per stage_task its place in the dispatcher loop (cancellation check before "
        "every execute, catch block, cancel -> finalize -> ~stage_task), the context's cancellation flag, filter bodies that throw at any invocation, "
        "external cancellation at any moment, the ledger of create_token / destroy_token calls per token object, the return (wait_ctx == 0) and what "
        "~pipeline does with parked items (flag bufferCleanup regenerated from the source); word-level model (Model/C07Wrap.lean): every ++ / - on "
        "low_token / high_token / my_token wraps at 2^tokenBits",
        "NOT modelled: the task scheduler / arena (any task that exists may run at any time: schedules are universally quantified in the theorems), "
        "the thread-local end-of-input flag of parallel input filters (modelled as the filter returning 'stop'), allocation failures inside the pipeline "
        "(grow / spawn_stage_task / create_token throwing bad_alloc), exceptions thrown by token constructors or destructors, memory reclamation of "
        "tasks/buffers, weak-memory effects of the relaxed end_of_input accesses (the hand-over of items is checked by the happens-before monitor on E-SHIM runs)",
        "token objects are observable only for library-allocated tokens (token_helper<T,true>); the fault campaign therefore carries a non-trivial 32-byte "
        "value; for pointer / small trivially copyable tokens create_token / destroy_token are the identity / no-ops with the same call structure",
        "the tie of the pipeline protocol model to the code is sampled: E-REAL observes only the filter-body events of the schedules that happen on "
        "this machine (the invisible steps are reconstructed by the validator); the ring model is tied by a white-box differential on generated "
        "operation sequences",
        "the model fuses the input filter's end-of-input return with the store end_of_input=true (the code stores after the body returned); the "
        "validator therefore treats the log position of an `ie -` event of a parallel input filter as a lower bound of the model step",
        "input_buffer::try_put_token with token < low_token is undefined in release builds (assertion only); the generator never produces it"]
    ck.trusted += ["harness/c07/pure.cpp, harness/c07/real.cpp, harness/c07/shim.cpp, harness/c07/life.cpp, harness/c07/consts.cpp (observation of the real code)",
                   "checks/c07_life.py (translator of the bufferCleanup flag: text search for a finalize( call in the destructor path; fault campaign, ledger monitors, "
                   "pass-hints for the validator), checks/c07_wrap.py (shifted sequences, translation-invariance monitor)",
                   "lean/TbbVerif/Model/C07Life.lean driver driveLife (inserts invisible steps as late as possible; every state change goes through stepEv)",
                   "harness/shim/verif_hb.h (happens-before recomputation over the E-SHIM log)",
                   "harness/shim/* (atomic shim + controlled scheduler; sequentially consistent executions only)",
                   "checks/c07.py monitors (python mirror of the token map; log monitors)",
                   "lean/TbbVerif/Model/C07.lean drivers driveBuf/drivePipe (trace validator inserts invisible steps, every state change goes through `step`)",
                   "correspondence is sampled (differential / trace validation), not proved"]
    t = [time.time()]

    def lap(name):
        t.append(time.time())
        ck.extra.setdefault("phase_s", {})[name] = round(t[-1] - t[-2], 1)
    libs = tbb_libs()
    consts = gen(ck, libs)
    lap("build+gen")
    ck.lean_stage()
    if ck.tier == "thorough":
        # independent re-check of the compiled property module by the external kernel checker
        rc, out, err = sh(["lake", "env", "leanchecker", "TbbVerif.Props.C07"], cwd=common.LEAN, timeout=1800)
        ck.oblige("audit:leanchecker TbbVerif.Props.C07", "audit", rc == 0, (out + err)[-600:])
    lap("lean")
    run_buf(ck, consts, libs)
    lap("ring")
    run_real(ck, libs)
    lap("real")
    run_shim(ck)
    lap("shim")
    c07_life.run_life(ck, libs, consts["bufferCleanup"])
    lap("life")


# ---------------------------------------------------------------------------------------------
def replay(ck, obj):
    r = obj["replay"]
    libs = tbb_libs()
    if r.get("engine") == "E-PURE-WRAP":
        return c07_wrap.replay_wrap(build_pure(libs), obj)
    if r.get("engine") == "E-PURE":
        exe = build_pure(libs)
        ops = []
        for l in r["stdin"].strip().split("\n"):
            w = l.split()
            ops.append(tuple([w[0]] + [int(x) for x in w[1:]]))
        outs, rr = run_pure_seq(exe, ops)
        print("replay of %s on %s" % (obj.get("key"), REPO))
        for o, l in zip(ops, outs):
            print("  %-16s -> %s" % (op_text(o), l[:160]))
        if rr is None:
            print("property holds now (ring monitor quiet)")
            return 0
        print("STILL FAILS at op #%d: %s: %s" % rr)
        return 1
    if r.get("engine") == "E-SHIM":
        return replay_shim(ck, obj)
    if str(r.get("engine", "")).startswith("LIFE-"):
        class _Q:
            extra = {}
            def oblige(self, *a, **k):
                pass
        return c07_life.replay_life(ck, obj, libs, c07_life.gen_flags(_Q()))
    exe = build_real(libs)
    cfg = tuple(r["config"])
    clause = r.get("monitor")
    modes, limit, items, threads, seed, dm = cfg
    v = (dm // 10) * 10
    cand = [cfg]
    for t in range(1, 200):
        cand.append((modes, limit, items, threads, seed + t, [dm % 10, 2, 4, 3, 1][t % 5] + v if t >= 20 else dm))
    print("replay of %s on %s: up to %d runs of %s" % (obj.get("key"), REPO, len(cand), cfg_line(cfg)))
    other = None
    for lo in range(0, len(cand), 40):
        part = cand[lo:lo + 40]
        res = run_configs(exe, part, 4)
        for c, (ev, term, mons) in zip(part, res):
            bad = monitor_log(c, ev, term, mons)
            hit = [b for b in bad if clause is None or b[0] == clause]
            if hit:
                print("STILL FAILS on %s: %s: %s" % (cfg_line(c), CLAUSES.get(hit[0][0], hit[0][0]), hit[0][1]))
                print("observed log: " + " / ".join(ev)[:3000])
                return 1
            if bad and other is None:
                other = (c, ev, bad[0])
    if other is not None:
        c, ev, b = other
        print("recorded clause %r not observed again, but the property STILL FAILS on %s: %s: %s" % (clause, cfg_line(c), CLAUSES.get(b[0], b[0]), b[1]))
        print("observed log: " + " / ".join(ev)[:3000])
        return 1
    print("property holds now: %d runs, all monitors quiet" % len(cand))
    return 0
