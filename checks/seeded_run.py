#!/usr/bin/env python3
"""Run the registered checks against every seeded breakage in /verif/seeded/<name>/.

For each seeded change: apply patch.diff to /repo (git apply), run the quick check of the property it breaks
(meta.json: "property"), record whether a VIOLATION line was printed (and whether it came with a concrete replay
or `no-failing-input-found`), then ALWAYS restore /repo (git checkout -- .).  Nothing is ever committed to /repo.
Results go to seeded/RESULTS.json (and are summarised in DESIGN.md by hand).

usage: python3 checks/seeded_run.py [name ...] [--tier quick|thorough]
"""
import json
import os
import subprocess
import sys
import time

ROOT = os.path.dirname(os.path.dirname(os.path.abspath(__file__)))
REPO = "/repo"


def sh(cmd, **kw):
    return subprocess.run(cmd, capture_output=True, text=True, **kw)


def main():
    args = [a for a in sys.argv[1:] if not a.startswith("--")]
    tier = "quick"
    if "--tier" in sys.argv:
        tier = sys.argv[sys.argv.index("--tier") + 1]
        args = [a for a in args if a != tier]
    sdir = os.path.join(ROOT, "seeded")
    names = args or sorted(d for d in os.listdir(sdir) if os.path.isdir(os.path.join(sdir, d)))
    st = sh(["git", "-C", REPO, "status", "--porcelain", "--untracked-files=no"]).stdout.strip()
    if st:
        print("refusing to run: /repo has uncommitted changes:\n" + st)
        sys.exit(2)
    res_path = os.path.join(sdir, "RESULTS.json")
    try:
        results = json.load(open(res_path))
    except (OSError, ValueError):
        results = {}
    for n in names:
        d = os.path.join(sdir, n)
        meta = json.load(open(os.path.join(d, "meta.json")))
        pid = meta["property"]
        patch = os.path.join(d, "patch.diff")
        r = sh(["git", "-C", REPO, "apply", "--check", patch])
        if r.returncode != 0:
            results[n] = {"property": pid, "status": "patch-does-not-apply", "detail": r.stderr[-300:]}
            print(n, "patch does not apply")
            continue
        sh(["git", "-C", REPO, "apply", patch])
        t0 = time.time()
        out, rc = "", 0
        try:
            for q in [pid] + list(meta.get("also_checks", [])):
                try:
                    r = sh([sys.executable, os.path.join(ROOT, "checks", "check.py"), q, "--tier", tier], cwd=ROOT, timeout=3600)
                    out += r.stdout
                    rc = rc or r.returncode
                except subprocess.TimeoutExpired:
                    rc = -9
        finally:
            sh(["git", "-C", REPO, "checkout", "--", "."])
        viol = [l for l in out.split("\n") if l.startswith("VIOLATION")]
        status = "missed"
        if viol:
            status = "caught-with-replay" if any("no-failing-input-found" not in l for l in viol) else "caught-no-failing-input-found"
        results[n] = {"property": pid, "status": status, "rc": rc, "wall_s": round(time.time() - t0, 1), "tier": tier,
                      "violation_lines": viol[:3]}
        print(n, pid, status, "%.0fs" % (time.time() - t0), flush=True)
        json.dump(results, open(res_path, "w"), indent=1, sort_keys=True)
    # leave the evidence/generated files of the touched properties in their clean-tree state
    touched = {results[n]["property"] for n in names if n in results}
    for n in names:
        try:
            touched |= set(json.load(open(os.path.join(sdir, n, "meta.json"))).get("also_checks", []))
        except (OSError, ValueError):
            pass
    for pid in sorted(touched):
        sh([sys.executable, os.path.join(ROOT, "checks", "check.py"), pid, "--tier", "quick"], cwd=ROOT)
    json.dump(results, open(res_path, "w"), indent=1, sort_keys=True)


if __name__ == "__main__":
    main()
