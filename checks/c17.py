"""C17 — tbbmalloc blocks are disjoint, aligned, big enough, and keep their contents (DESIGN.md §3 C17).

Also hosts the E-GEN translator pieces shared with C18 (c18.py imports this module): a small extension of
checks/cexpr.py (function calls, C-style casts, typed constants, `locals; return e;` bodies)."""
import json
import os
import re

import cexpr
import common
from common import (BuildError, REPO, cxx_build, drv, first_diff, gen_write, log, sh)

SRC = os.path.join(REPO, "src/tbbmalloc")
FRONTEND = os.path.join(SRC, "frontend.cpp")
WB_FLAGS = ["-O1", "-g", "-fno-access-control", "-D__TBBMALLOC_BUILD", "-I" + os.path.join(REPO, "src"), "-pthread"]
WB_LIBS = ["-ldl", "-pthread"]


# ---------------------------------------------------------------------------------------------
# translator extension (to be folded into checks/cexpr.py: see the report)
# ---------------------------------------------------------------------------------------------
class Tr2(cexpr.Tr):
    """cexpr.Tr + calls of already-translated functions, C-style casts `(T)e`, extra type names (template
    parameters), typed named constants.  funcs: {c_name: (lean_name, [arg types], ret type)};
    consts: {name: value | (value, type)}."""

    def __init__(self, toks, env, consts=None, funcs=None, xtypes=None):
        super().__init__(toks, env, consts)
        self.funcs = funcs or {}
        self.xtypes = xtypes or {}

    def try_type(self):
        k, v = self.peek()
        if k == "id" and v in self.xtypes:
            self.i += 1
            return self.xtypes[v]
        return super().try_type()

    def conv(self, node, to):
        txt, ty = node
        m = re.fullmatch(r"\((\d+) : (Int|Nat)\)", txt)
        if m and ty != to and to in ("u64", "u32") and int(m.group(1)) < 2 ** cexpr.BITS[to]:
            return ("(%s : Nat)" % m.group(1), to)
        if m and ty != to and to in ("i64", "i32") and int(m.group(1)) < 2 ** (cexpr.BITS[to] - 1):
            return ("(%s : Int)" % m.group(1), to)
        return super().conv(node, to)

    def arith(self, op, a, b):
        if op == "-":
            a2, b2, t = self.common(a, b)
            if t == "u64":
                return ("(subU64 %s %s)" % (a2[0], b2[0]), t)
        return super().arith(op, a, b)

    def primary(self):
        k, v = self.peek()
        if k == "op" and v == "(":
            save = self.i
            self.i += 1
            ty = self.try_type()
            if ty is not None and self.peek() == ("op", ")"):
                self.i += 1
                return self.conv(self.unary(), ty)
            self.i = save
        if k == "id" and v in self.funcs and self.i + 1 < len(self.t) and self.t[self.i + 1] == ("op", "("):
            lean, argt, ret = self.funcs[v]
            self.i += 2
            args = []
            if self.peek() != ("op", ")"):
                args.append(self.expr())
                while self.peek() == ("op", ","):
                    self.i += 1
                    args.append(self.expr())
            self.eat("op", ")")
            if len(args) != len(argt):
                raise cexpr.CExprError("%s: expected %d arguments, got %d" % (v, len(argt), len(args)))
            return ("(%s %s)" % (lean, " ".join(self.conv(a, t)[0] for a, t in zip(args, argt))), ret)
        if k == "id" and v in self.consts and isinstance(self.consts[v], tuple) and v not in self.env:
            self.i += 1
            val, ty = self.consts[v]
            return ("(%d : %s)" % (val, "Int" if cexpr.is_signed(ty) else "Nat"), ty)
        return super().primary()


def tr_expr(src, env, consts, funcs=None, xtypes=None, want=None):
    src = re.sub(r"\b(\d+)[uU][lL][lL]\b", r"uint64_t(\1)", src)
    src = re.sub(r"\b(\d+)[uU][lL]\b", r"uint64_t(\1)", src)
    src = re.sub(r"(?<!:):(?!:)", " : ", src)     # `a? b: c` (the tokenizer's identifiers may contain `::`)
    tr = Tr2(cexpr.tokenize(src), env, consts, funcs, xtypes)
    e = tr.expr()
    if tr.peek()[0] != "eof":
        raise cexpr.CExprError("trailing tokens after expression %r: %s" % (src, tr.t[tr.i:tr.i + 4]))
    return tr.conv(e, want) if want else e


def strip_comments(s):
    s = re.sub(r"/\*.*?\*/", " ", s, flags=re.S)
    return re.sub(r"//[^\n]*", "", s)


def match_paren(s, i, open_="(", close=")"):
    """index just after the bracket that closes s[i] (s[i] == open_); string literals are skipped."""
    depth, n = 0, len(s)
    while i < n:
        c = s[i]
        if c == '"':
            i += 1
            while i < n and s[i] != '"':
                i += 2 if s[i] == "\\" else 1
        elif c == open_:
            depth += 1
        elif c == close:
            depth -= 1
            if depth == 0:
                return i + 1
        i += 1
    raise cexpr.CExprError("unbalanced " + open_)


def drop_calls(body, names=("MALLOC_ASSERT", "static_assert", "__TBB_ASSERT", "MALLOC_ASSERT_EX", "suppress_unused_warning")):
    """remove `NAME(...);` statements (assertions have no effect in the release build that is being modelled)"""
    out, i = [], 0
    pat = re.compile(r"\b(%s)\s*\(" % "|".join(names))
    while True:
        m = pat.search(body, i)
        if not m:
            out.append(body[i:])
            return "".join(out)
        out.append(body[i:m.start()])
        j = match_paren(body, m.end() - 1)
        k = re.match(r"\s*;", body[j:])
        i = j + (k.end() if k else 0)


def function_body(text, sig_regex):
    """text of the `{...}` body of the first function whose signature matches sig_regex (comments stripped)."""
    m = re.search(sig_regex, text)
    if not m:
        raise cexpr.CExprError("signature not found: " + sig_regex)
    i = text.find("{", m.end() - 1)
    if i < 0:
        raise cexpr.CExprError("no body after: " + sig_regex)
    j = match_paren(text, i, "{", "}")
    return text[i + 1:j - 1]


LOCAL_RE = re.compile(r"\s*(?:static\s+)?(?:const\s+)?((?:unsigned\s+|std::)?[\w:]+)\s+(\w+)\s*=\s*([^;]+);")


def tr_locals(body, env, consts, funcs, xtypes=None):
    """consume leading `[const] T name = e;` declarations; returns the rest of the body"""
    pos = 0
    while True:
        d = LOCAL_RE.match(body, pos)
        if not d or d.group(1) in ("return", "goto", "else"):
            return body[pos:]
        ty = (xtypes or {}).get(d.group(1)) or cexpr.TYPES.get(d.group(1).replace("  ", " "))
        if ty is None:
            return body[pos:]
        env[d.group(2)] = tr_expr(d.group(3), env, consts, funcs, xtypes, want=ty)
        pos = d.end()


def tr_function(text, sig_regex, params, ret, consts, funcs, xtypes=None):
    """Lean expression text of a function of the shape `{ locals…; return e; }`.
    params: [(c_name, type)] (Lean binder has the same name)."""
    body = drop_calls(strip_comments(function_body(strip_comments(text), sig_regex)))
    env = {p: (p, t) for p, t in params}
    rest = tr_locals(body, env, consts, funcs, xtypes)
    m = re.fullmatch(r"\s*return\s+([^;]+);\s*", rest, re.S)
    if not m:
        raise cexpr.CExprError("body is not `locals; return e;`: %r" % rest.strip()[:120])
    return tr_expr(m.group(1), env, consts, funcs, xtypes, want=ret)[0]


def lean_def(name, params, ret, body):
    lt = {"u64": "Nat", "u32": "Nat", "i32": "Int", "i64": "Int", "bool": "Bool"}
    return "def %s %s : %s :=\n  %s\n" % (name, " ".join("(%s : %s)" % (p, lt[t]) for p, t in params), lt[ret], body)


def read(path):
    return open(path).read()


def wb_consts(pid):
    exe = cxx_build(pid, "wb", ["harness/c17/wb.cpp"], flags=WB_FLAGS, libs=WB_LIBS)
    rc, out, err = sh([exe, "consts"], timeout=60)
    if rc != 0:
        raise BuildError("wb consts failed rc=%d %s" % (rc, err[-500:]))
    return exe, json.loads(out)


def cexpr_consts(c):
    """named constants visible to translated expressions (value, C type)"""
    d = {k: (v, "u32") for k, v in c.items() if k in (
        "maxSmallObjectSize", "maxSegregatedObjectSize", "fittingAlignment", "fittingSize1", "fittingSize2", "fittingSize3",
        "fittingSize4", "fittingSize5", "minLargeObjectSize", "estimatedCacheLineSize")}
    d.update({"slabSize": (c["slabSize"], "u64"), "largeObjectAlignment": (c["largeObjectAlignment"], "u64"),
              "CHAR_BIT": (c["charBit"], "i32"),
              "sizeof(size_t)": c["sizeofSizeT"], "sizeof(void *)": c["sizeofVoidP"], "sizeof(Block)": c["sizeofBlock"],
              "sizeof(LargeMemoryBlock)": c["sizeofLargeMemoryBlock"], "sizeof(LargeObjectHdr)": c["sizeofLargeObjectHdr"],
              "CacheStep": (c["largeCacheStep"], "u64"), "StepFactor": (c["hugeStepFactor"], "i32"),
              "StepFactorExp": (c["hugeStepFactorExp"], "i32"), "maxLargeSize": (c["locMaxLargeSize"], "u64"),
              "minLargeSize": (c["locMinLargeSize"], "u64")})
    return d


F_ALIGN = {"alignUp": ("alignUp", ["u64", "u64"], "u64"), "alignDown": ("alignDown", ["u64", "u64"], "u64")}


def gen_align_fns(consts):
    """alignUp / alignDown regenerated from shared_utils.h"""
    su = read(os.path.join(SRC, "shared_utils.h"))
    xt = {"T": "u64"}
    out = ""
    for nm in ("alignDown", "alignUp"):
        e = tr_function(su, r"static\s+inline\s+T\s+%s\s*\(\s*T\s+arg\s*,\s*uintptr_t\s+alignment\s*\)" % nm,
                        [("arg", "u64"), ("alignment", "u64")], "u64", consts, {}, xt)
        out += lean_def(nm, [("arg", "u64"), ("alignment", "u64")], "u64", e)
    return out


AA_RE = re.compile(
    r"void\s*\*\s*result\s*;\s*"
    r"if\s*\((?P<c1>[^{};]+?)\)\s*result\s*=\s*internalPoolMalloc\s*\(\s*memPool\s*,(?P<r1>[^;]+)\)\s*;\s*"
    r"else\s+if\s*\((?P<c2>[^{};]+?)\)\s*\{\s*"
    r"if\s*\((?P<c2a>[^{};]+?)\)\s*result\s*=\s*internalPoolMalloc\s*\(\s*memPool\s*,(?P<r2>[^;]+)\)\s*;\s*"
    r"else\s+if\s*\((?P<c3>[^{};]+?)\)\s*\{\s*void\s*\*\s*unaligned\s*=\s*internalPoolMalloc\s*\(\s*memPool\s*,(?P<r3>[^;]+)\)\s*;\s*"
    r"if\s*\(\s*!\s*unaligned\s*\)\s*return\s+nullptr\s*;\s*result\s*=\s*alignUp\s*\(\s*unaligned\s*,\s*alignment\s*\)\s*;\s*\}\s*"
    r"else\s+goto\s+LargeObjAlloc\s*;\s*\}\s*else\s*\{\s*LargeObjAlloc\s*:\s*"
    r"TLSData\s*\*\s*tls\s*=\s*memPool->getTLS\s*\([^)]*\)\s*;\s*"
    r"result\s*=\s*memPool->getFromLLOCache\s*\(\s*tls\s*,\s*size\s*,(?P<la>[^;]+)\)\s*;\s*\}", re.S)


def gen_allocate_aligned(consts):
    """the case split of allocateAligned, regenerated from frontend.cpp"""
    body = drop_calls(strip_comments(function_body(strip_comments(read(FRONTEND)),
                                                   r"static\s+void\s*\*\s*allocateAligned\s*\(\s*MemoryPool\s*\*\s*memPool\s*,\s*size_t\s+size\s*,\s*size_t\s+alignment\s*\)")))
    m = AA_RE.search(body)
    if not m:
        raise cexpr.CExprError("the case split of allocateAligned is not of the recognised shape")
    P = [("size", "u64"), ("alignment", "u64")]
    env = {p: (p, t) for p, t in P}
    out, src = "", {}
    for name, grp, ty in (("aaCase1", "c1", "bool"), ("aaReq1", "r1", "u64"), ("aaSmall", "c2", "bool"), ("aaNatural", "c2a", "bool"),
                          ("aaReq2", "r2", "u64"), ("aaCase3", "c3", "bool"), ("aaReq3", "r3", "u64"), ("aaLargeAlign", "la", "u64")):
        txt = " ".join(m.group(grp).split())
        src[name] = txt
        out += lean_def(name, P, ty, tr_expr(txt, dict(env), consts, F_ALIGN, want=ty)[0])
    return out, src


def fallback_aa():
    # opaque guards about which nothing can be proved (keeps the library building when the source is unreadable)
    P = "(size : Nat) (alignment : Nat)"
    s = ""
    for n in ("aaCase1", "aaSmall", "aaNatural", "aaCase3"):
        s += "def %s %s : Bool := decide ((size + alignment) %% 7 = 3)\n" % (n, P)
    for n in ("aaReq1", "aaReq2", "aaReq3", "aaLargeAlign"):
        s += "def %s %s : Nat := (size + alignment) %% 7\n" % (n, P)
    return s


def gen(ck, pid="C17"):
    exe, c = wb_consts(pid)
    ck.extra["generated_constants"] = c
    body = "".join("def %s : Nat := %d\n" % (k, v) for k, v in c.items())
    consts = cexpr_consts(c)
    try:
        al = gen_align_fns(consts)
        ck.oblige("gen:alignUp/alignDown-translated", "generated", True, al)
    except cexpr.CExprError as e:
        ck.oblige("gen:alignUp/alignDown-translated", "generated", False, "cannot read shared_utils.h alignUp/alignDown: %s" % e)
        al = "def alignDown (arg : Nat) (alignment : Nat) : Nat := arg % 7\ndef alignUp (arg : Nat) (alignment : Nat) : Nat := arg % 7\n"
    body += al
    try:
        aa, src = gen_allocate_aligned(consts)
        ck.oblige("gen:allocateAligned-case-split-translated", "generated", True, src)
        ck.extra["allocateAligned_cxx"] = src
    except cexpr.CExprError as e:
        ck.oblige("gen:allocateAligned-case-split-translated", "generated", False, "translator cannot read allocateAligned: %s" % e)
        aa = fallback_aa()
    body += aa
    gen_write("C17", body)
    ck.oblige("gen:64-bit-target", "generated", c.get("is64bit") == 1 and c.get("sizeofSizeT") == 8, "model is stated for the 64-bit layout")
    return exe, c


# ---------------------------------------------------------------------------------------------
# E-PURE: white-box differential (real front end vs Lean model) + implementation-side monitors
# ---------------------------------------------------------------------------------------------
def kv(line):
    d = {}
    for w in line.split():
        if "=" in w:
            a, b = w.split("=", 1)
            d[a] = b
    return d


def bin_sizes(c):
    """every object size of the slab bins according to the real getObjectSize (sampled at the class maxima)"""
    out = set()
    s = 8
    while s <= c["maxSmallObjectSize"]:
        out.add(s); s += 8
    return out


def boundary_sizes(c, rng, quick):
    xs = set(range(0, 140))
    b = [c["maxSmallObjectSize"], c["maxSegregatedObjectSize"], c["fittingSize1"], c["fittingSize2"], c["fittingSize3"], c["fittingSize4"],
         c["fittingSize5"], c["minLargeObjectSize"], c["slabSize"], c["slabSize"] - c["sizeofBlock"]]
    for k in range(6, 11):
        for j in range(0, 5):
            b.append((1 << k) + j * (1 << (k - 2)))
    for v in b:
        for d in range(-3, 4):
            if v + d >= 0:
                xs.add(v + d)
    return xs


def wb_monitor(l, o, c):
    """implementation-side property check of one white-box `al`/`m` line (independent of the model); None = fine"""
    w = l.split()
    if w[0] not in ("al", "m"):
        return None
    size = int(w[1])
    align = (1 << int(w[2])) if w[0] == "al" else 0
    ow = o.split()
    d = kv(o)
    if ow and ow[0] == "S":
        O, off, ms = int(ow[1]), int(d["off"]), int(d["msize"])
        need = align if align else (8 if (size or 8) <= 8 else 16)
        if d["al"] != "1":
            return "misaligned"
        if d["fo"] != "1":
            return "free would not find the object start"
        if d["hc"] != "1":
            return "object overlaps the slab header"
        if off + max(size, 1) > O or ms < size or ms != O - off:
            return "request does not fit the object (object size %d, offset %d, msize %d)" % (O, off, ms)
        if align == 0 and (off != 0 or (c["slabSize"] - int(d["k"]) * O) % need):
            return "default alignment %d not met" % need
        return None
    if ow and ow[0] == "L":
        eff = max(align, c["largeObjectAlignment"])
        if d["al"] != "1" or int(d["p"]) % eff:
            return "misaligned"
        if d["in"] != "1":
            return "large object not inside its block"
        if int(d["msize"]) < size or int(ow[2]) != size:
            return "msize below request"
        return None
    if not o.startswith("fail") or size < (1 << 28):
        return "allocation failed"
    return None


def run_pure(ck, exe, c):
    quick = ck.tier == "quick"
    rng = ck.rng
    fit5 = c["fittingSize5"]
    lines = []
    # 1. size -> (bin index, object size): every size of the domain and a little beyond
    lines += ["idx %d" % s for s in range(0, fit5 + 40)]
    # 2. interior pointer -> object: every distance from the slab end for the fitting bins (the only callers),
    #    thorough: for every bin
    rc, out, err = sh([exe], input="".join("idx %d\n" % s for s in range(1, fit5 + 1)), timeout=120)
    if rc == -9:
        # the library does not even get through its start-up allocation: the long sweep below would only wait again
        ck.oblige("corr:front-end-arithmetic", "correspondence", False, "white-box harness does not return (livelock in the allocator's start-up)")
        ck.counterexample("wb-hang:idx=1", "white-box harness does not return on input 'idx 1' (the allocator livelocks during start-up)",
                          {"engine": "E-PURE", "harness": "harness/c17/wb.cpp", "stdin": "idx 1", "expect_no": "crash"})
        return
    objsizes = sorted({int(l.split()[1]) for l in out.split("\n") if l and l != "none"})
    ck.extra["object_sizes_observed"] = objsizes
    fitting = [o for o in objsizes if o > c["maxSegregatedObjectSize"]]
    span = c["slabSize"] - c["sizeofBlock"]
    for o in (fitting if quick else objsizes):
        lines += ["find %d %d" % (o, d) for d in range(1, span + 1)]
    if quick:
        for o in objsizes:
            if o <= c["maxSegregatedObjectSize"]:
                ds = {k * o + e for k in range(1, span // o + 1) for e in (-1, 0, 1)} | {rng.randrange(1, span + 1) for _ in range(50)}
                lines += ["find %d %d" % (o, d) for d in sorted(ds) if 1 <= d <= span]
    # 3. allocateAligned: every size 0..fittingSize5+ x alignments 1..2^14 (the whole case split), plus big alignments / sizes
    amax = 15
    sizes = range(0, fit5 + 80)
    for s in sizes:
        for a in range(0, amax):
            lines.append("al %d %d" % (s, a))
    big_al = [16, 20, 21, 22, 24, 26] if quick else list(range(15, 29))
    bs = sorted(boundary_sizes(c, rng, quick))
    for a in big_al:
        for s in (bs if not quick else [x for x in bs if x % 3 == 0 or x > 1000]):
            lines.append("al %d %d" % (s, a))
    # large sizes: bin steps of the large-object cache, the huge threshold
    step, maxl = c["largeCacheStep"], c["locMaxLargeSize"]
    lsz = set()
    for m in list(range(1, 12)) + [63, 64, 65, 127, 128, 129, 1022, 1023, 1024, 1025]:
        for d in (-200, -105, -104, -103, -65, -64, -1, 0, 1, 64, 104):
            v = m * step + d
            if v > 0:
                lsz.add(v)
    for k in range(23, 27 if quick else 29):
        for j in range(0, 9):
            for d in (-169, -168, -167, -1, 0, 1):
                lsz.add((1 << k) + j * (1 << (k - 3)) + d)
    for _ in range(100 if quick else 2000):
        lsz.add(rng.randrange(fit5, 1 << rng.randrange(14, 27)))
    for v in sorted(lsz):
        lines.append("m %d" % v)
        for a in ([6, 7, 12, 16, 21] if quick else [6, 7, 8, 10, 12, 14, 16, 20, 21, 22, 24]):
            lines.append("al %d %d" % (v, a))
    lines += ["m %d" % s for s in range(0, fit5 + 80)]
    text = "\n".join(lines) + "\n"
    rc, out, err = sh([exe], input=text, timeout=600)
    impl = out.split("\n")[:-1]
    if rc != 0 or len(impl) != len(lines):
        ck.oblige("corr:front-end-arithmetic", "correspondence", False, "white-box harness rc=%d after %d/%d lines: %s" % (rc, len(impl), len(lines), err[-400:]))
        if len(impl) < len(lines):
            ck.counterexample("wb-crash:" + lines[len(impl)].replace(" ", "="), "white-box harness died on input %r" % lines[len(impl)],
                              {"engine": "E-PURE", "harness": "harness/c17/wb.cpp", "stdin": lines[len(impl)], "expect_no": "crash"})
        return
    # model input: the k-th object observed for slab results is fed to the model
    mlines, mexp = [], []
    place_lines, place_exp, place_src = [], [], []
    mon_bad = []
    kinds = {}
    for l, o in zip(lines, impl):
        w = l.split()
        kinds[w[0]] = kinds.get(w[0], 0) + 1
        if w[0] in ("idx", "find"):
            mlines.append(l); mexp.append(o)
            if w[0] == "find":
                ck.distinct.add(("find", w[1], int(w[2]) % int(w[1]) == 0, (c["slabSize"] - int(w[2])) % 128 == 0))
            else:
                ck.distinct.add(("idx", o))
            continue
        size = int(w[1])
        align = (1 << int(w[2])) if w[0] == "al" else 0
        ow = o.split()
        d = kv(o)
        if ow[0] == "S":
            O, off, ms = int(ow[1]), int(d["off"]), int(d["msize"])
            mlines.append(("al %d %s %s" % (size, w[2], d["k"])) if w[0] == "al" else "m %d %s" % (size, d["k"]))
            mexp.append("S %d off=%d msize=%d" % (O, off, ms))
            why = wb_monitor(l, o, c)
            if why:
                mon_bad.append((l, o, why))
            ck.distinct.add((w[0], "S", O, off > 0, w[2] if w[0] == "al" else ""))
        elif ow[0] == "L":
            U, osz = int(ow[1]), int(ow[2])
            mlines.append(("al %d %s 1" % (size, w[2])) if w[0] == "al" else "m %d 1" % size)
            eff = max(align, c["largeObjectAlignment"])
            mexp.append("L %d" % eff)
            why = wb_monitor(l, o, c)
            if why:
                mon_bad.append((l, o, why))
            place_lines.append("place %s %d %d %d %s 1" % (d["lmb"], U, size, eff.bit_length() - 1, d["idx"]))
            place_exp.append(d["p"])
            place_src.append((l, o))
            ck.distinct.add((w[0], "L", U, w[2] if w[0] == "al" else ""))
        else:
            # null on the unchanged tree only for sizes the OS wrapper refuses; the model side is checked by C18
            mlines.append(None); mexp.append(o)
            why = wb_monitor(l, o, c)
            if why:
                mon_bad.append((l, o, why))
    ck.extra["pure_input_distribution"] = kinds
    ck.count(len(lines))
    idxm = [i for i, m in enumerate(mlines) if m is not None]
    model = drv("c17", "\n".join(mlines[i] for i in idxm) + "\n", timeout=3000)
    exp = [mexp[i] for i in idxm]
    dd = first_diff(exp, model)
    ok = dd is None
    src_of = [i for i in idxm]
    detail = ""
    if not ok:
        j = src_of[dd] if dd < len(src_of) else None
        detail = "input %r (model input %r): implementation %r, model %r" % (lines_for(lines, mlines, j), mlines[j] if j is not None else None,
                                                                             exp[dd] if dd < len(exp) else None, model[dd] if dd < len(model) else None)
    ck.oblige("corr:size classes / allocateAligned strategy / interior-pointer arithmetic (real front end vs model)", "correspondence", ok, detail)
    pm = drv("c17", "\n".join(place_lines) + "\n", timeout=600) if place_lines else []
    pd = first_diff(place_exp, pm)
    ck.oblige("corr:large-object placement (getFromLLOCache address vs model lloPlace)", "correspondence", pd is None,
              "" if pd is None else "%r: implementation p=%s, model %s (%s)" % (place_src[pd][0], place_exp[pd], pm[pd] if pd < len(pm) else None, place_lines[pd]))
    ck.traces_validated += len(place_lines)
    ck.oblige("monitor:white-box results aligned / inside their object / msize>=request / clear of the slab header", "correspondence", not mon_bad, mon_bad[:3])
    for n in (len(lines) // 7, len(lines) // 2, len(lines) - 5):
        ck.sample({"input": lines[n], "impl": impl[n]})
    # ---- failing-input search: report the smallest concrete input on which the PROPERTY fails ------
    if mon_bad:
        l, o, why = min(mon_bad, key=lambda t: (int(t[0].split()[1]), t[0]))
        ctx = minimal_context(exe, lines, lines.index(l), c)
        ck.counterexample("wb:" + l.replace(" ", "="), "%s: input %r (allocateAligned/malloc size, log2 alignment)%s gave %s" % (
                              why, l, " after %r" % ctx[:-1] if len(ctx) > 1 else "", o),
                          {"engine": "E-PURE", "harness": "harness/c17/wb.cpp", "stdin": "\n".join(ctx), "observed": o, "why": why, "monitor": "wb_monitor"})
    if not ok and not mon_bad:
        search_pure(ck, exe, c, lines, impl)


def minimal_context(exe, lines, idx, c):
    """smallest input on which the white-box monitor still fires for lines[idx]: the line alone, else with one
    earlier line (slab state), else with its whole prefix"""
    def fires(inp):
        rc, out, err = sh([exe], input="\n".join(inp) + "\n", timeout=30)
        res = out.split("\n")[:-1]
        return rc != 0 or len(res) != len(inp) or wb_monitor(inp[-1], res[-1], c) is not None
    if fires([lines[idx]]):
        return [lines[idx]]
    for j in range(idx - 1, max(-1, idx - 40), -1):
        if lines[j].split()[0] in ("al", "m") and fires([lines[j], lines[idx]]):
            return [lines[j], lines[idx]]
    return [l for l in lines[:idx] if l.split()[0] in ("al", "m")][-20000:] + [lines[idx]]


def lines_for(lines, mlines, j):
    return lines[j] if j is not None and j < len(lines) else None


def search_pure(ck, exe, c, lines, impl):
    """The model and the code disagree but no white-box monitor fired: look for a size whose bin is too small,
    a bin index/object size inconsistency, or an interior pointer mapped to the wrong object."""
    idx = {}
    for l, o in zip(lines, impl):
        w = l.split()
        if w[0] == "idx" and o != "none":
            i, osz = (int(x) for x in o.split())
            s = int(w[1])
            if osz < s:
                ck.counterexample("idx:size=%d" % s, "getObjectSize(%d)=%d is smaller than the request" % (s, osz),
                                  {"engine": "E-PURE", "harness": "harness/c17/wb.cpp", "stdin": l, "observed": o, "expect": "objsize>=size"})
                return
            if i in idx and idx[i][1] != osz:
                ck.counterexample("idx:bin=%d" % i, "sizes %d and %d share bin %d but have object sizes %d and %d: a request of %d bytes can be served from a slab of %d-byte objects"
                                  % (idx[i][0], s, i, idx[i][1], osz, max(s, idx[i][0]), min(osz, idx[i][1])),
                                  {"engine": "E-REAL", "harness": "harness/c17/real.cpp", "script": bin_mix_script(idx[i][0], s), "expect": "no-violation"})
                return
            idx.setdefault(i, (s, osz))
        if w[0] == "find":
            O, D = int(w[1]), int(w[2])
            fa, ftf, fsz = (int(x) for x in o.split())
            k = (D + O - 1) // O
            handed_out = D % O == 0 or (O > c["maxSegregatedObjectSize"] and (c["slabSize"] - D) % 128 == 0)
            if handed_out and ftf != k * O:
                ck.counterexample("find:%d,%d" % (O, D), "findObjectToFree maps the pointer at distance %d from the end of a slab of %d-byte objects to distance %d (object start is %d)" % (D, O, ftf, k * O),
                                  {"engine": "E-PURE", "harness": "harness/c17/wb.cpp", "stdin": l, "observed": o, "expect_find": k * O})
                return


def bin_mix_script(s1, s2):
    a, b = min(s1, s2), max(s1, s2)
    # allocate the smaller class first so that the slab of the bin has the smaller objects, then the bigger request
    return ["P 1", "0 malloc 0 %d" % a, "0 malloc 1 %d" % b, "0 malloc 2 %d" % b, "0 free 0", "0 free 1", "0 free 2"]


# ---------------------------------------------------------------------------------------------
# E-REAL: histories on the real libtbbmalloc under the shadow-heap monitor
# ---------------------------------------------------------------------------------------------
def find_malloc_lib():
    # a scratch tree given through VERIF_REPO without a _build: the library of /repo (as common.find_tbb_lib does)
    for root in (REPO, "/repo"):
        b = os.path.join(root, "_build")
        for d in sorted(os.listdir(b)) if os.path.isdir(b) else []:
            if os.path.exists(os.path.join(b, d, "libtbbmalloc.so")):
                return os.path.join(b, d)
    return None


def real_lib():
    try:
        common.ensure_repo_built(("tbbmalloc",))
    except BuildError:
        raise
    d = find_malloc_lib()
    if d is None:
        raise BuildError("no libtbbmalloc.so under %s/_build" % REPO)
    return d


def size_classes(c):
    """boundary values of every size-class edge of the front end and of the large-object cache"""
    tiny = sorted({v for k in range(0, 9) for v in (8 * k - 1, 8 * k, 8 * k + 1) if 0 <= v <= 65})
    seg = sorted({(1 << k) + j * (1 << (k - 2)) + d for k in range(6, 10) for j in range(0, 5) for d in (-1, 0, 1)})
    fit = sorted({c["fittingSize%d" % i] + d for i in range(1, 6) for d in (-1, 0, 1)} | {1025, 1026, 2000, 3000, 7000})
    hdr = c["sizeofLargeMemoryBlock"] + c["sizeofLargeObjectHdr"]
    step = c["largeCacheStep"]
    lsmall = sorted({m * step - hdr - 64 + d for m in (2, 3, 4, 5, 8) for d in (-1, 0, 1)} | {c["minLargeObjectSize"], c["slabSize"] - 1, c["slabSize"], c["slabSize"] + 1, 10000, 20000, 50000})
    large = sorted({m * step - hdr - 64 + d for m in (16, 64, 128, 1000, 1023, 1024) for d in (-1, 0, 1)} | {100000, 1 << 20, (1 << 20) + 1, 3000000})
    huge = sorted({c["locMaxLargeSize"] - hdr - 64 + d for d in (-1, 0, 1)} | {c["locMaxLargeSize"], 9 << 20, (10 << 20) - hdr - 64, c["defaultMaxHugeSize"] - hdr - 64, c["defaultMaxHugeSize"] + 1})
    return {"tiny": tiny, "seg": seg, "fit": fit, "lsmall": lsmall, "large": large, "huge": huge}


def gen_history(rng, c, classes, nops, budget=192 << 20):
    """one multi-phase, multi-thread history (list of script lines)"""
    lines = []
    live = {}       # slot -> size
    owner = {}      # slot -> thread of the current phase that allocated it (None: earlier phase)
    nslot = 0
    total = 0
    weights = [("tiny", 28), ("seg", 28), ("fit", 20), ("lsmall", 14), ("large", 8), ("huge", 2)]

    def pick_size():
        r = rng.randrange(100)
        acc = 0
        for nm, w in weights:
            acc += w
            if r < acc:
                v = rng.choice(classes[nm])
                if rng.random() < 0.25:
                    v = max(0, v + rng.randrange(-40, 41))
                return v
        return 8

    def pick_align(size):
        r = rng.random()
        if r < 0.6:
            return rng.randrange(3, 8)
        if r < 0.9:
            return rng.randrange(8, 14)
        if r < 0.98:
            return rng.randrange(14, 22)
        return rng.randrange(22, 25)

    nphases = rng.choice([1, 2, 2, 3])
    for ph in range(nphases):
        T = rng.choice([1, 2, 3, 4])
        lines.append("P %d" % T)
        for s in owner:
            owner[s] = None
        n = nops // nphases
        i = 0
        while i < n:
            t = rng.randrange(T)
            r = rng.random()
            # bursts: fill more than a slab of one class from one thread, free from another (public free list,
            # privatisation), possibly leave some for the next phase (orphaned slabs)
            if r < 0.04 and total < budget // 2:
                sz = rng.choice(classes["tiny"] + classes["seg"] + classes["fit"])
                cnt = min(600, (c["slabSize"] // max(sz, 8)) + rng.randrange(2, 40))
                slots = []
                for _ in range(cnt):
                    lines.append("%d malloc %d %d" % (t, nslot, sz))
                    live[nslot] = sz; owner[nslot] = t; slots.append(nslot); nslot += 1; total += sz
                t2 = rng.randrange(T)
                rng.shuffle(slots)
                for s in slots[:int(len(slots) * rng.choice([0.3, 0.9, 1.0]))]:
                    lines.append("%d free %d" % (t2, s))
                    total -= live.pop(s)
                if rng.random() < 0.5:
                    for _ in range(cnt // 2):
                        lines.append("%d malloc %d %d" % (t, nslot, sz))
                        live[nslot] = sz; owner[nslot] = t; nslot += 1; total += sz
                i += cnt
                continue
            if r < 0.55 or not live:
                sz = pick_size()
                if total + sz > budget:
                    r = 0.99
                else:
                    k = rng.random()
                    if k < 0.5:
                        lines.append("%d malloc %d %d" % (t, nslot, sz))
                    elif k < 0.62:
                        a = rng.choice([1, 1, 2, 3, 7, 16, 100])
                        b = max(0, sz // a)
                        lines.append("%d calloc %d %d %d" % (t, nslot, a, b))
                        sz = a * b
                    elif k < 0.8:
                        lines.append("%d amalloc %d %d %d" % (t, nslot, max(sz, 1), pick_align(sz)))
                        sz = max(sz, 1)
                    elif k < 0.9:
                        lines.append("%d pmemalign %d %d %d" % (t, nslot, sz, max(3, pick_align(sz))))
                    elif k < 0.95:
                        lines.append("%d realloc %d %d" % (t, nslot, max(sz, 1)))
                        sz = max(sz, 1)
                    else:
                        lines.append("%d arealloc %d %d %d" % (t, nslot, max(sz, 1), pick_align(sz)))
                        sz = max(sz, 1)
                    live[nslot] = sz; owner[nslot] = t; nslot += 1; total += sz
                    i += 1
                    continue
            s = rng.choice(list(live))
            # owner vs foreign thread
            tt = owner[s] if (owner[s] is not None and rng.random() < 0.5) else t
            if r < 0.75:
                sz = pick_size()
                if total - live[s] + sz <= budget and sz > 0:
                    if rng.random() < 0.75:
                        lines.append("%d realloc %d %d" % (tt, s, sz))
                    else:
                        lines.append("%d arealloc %d %d %d" % (tt, s, sz, pick_align(sz)))
                    total += sz - live[s]; live[s] = sz; owner[s] = tt
            elif r < 0.95:
                lines.append("%d %s %d" % (tt, rng.choice(["free", "free", "afree"]), s))
                total -= live.pop(s)
            elif r < 0.98:
                lines.append("%d %s %d" % (tt, rng.choice(["msize", "verify"]), s))
            else:
                lines.append("%d cmd %d" % (t, rng.randrange(2)))
            i += 1
    return lines


def run_script(exe, lines, timeout=600):
    rc, out, err = sh([exe], input="\n".join(lines) + "\n", timeout=timeout)
    viol = [l for l in out.split("\n") if l.startswith("VIOLATION")]
    done = [l for l in out.split("\n") if l.startswith("done")]
    if rc not in (0, 3) or not done:
        viol.append("VIOLATION crash rc=%d %s" % (rc, (err or out)[-300:].replace("\n", " | ")))
    return viol


def shrink_script(exe, lines, kind, runs=1, budget=80):
    """delta-debugging lite: drop chunks of the script while a violation of the same kind still shows"""
    def fails(ls):
        for _ in range(runs):
            if any((" %s " % kind) in v or kind == "crash" and "crash" in v for v in run_script(exe, ls, timeout=120)):
                return True
        return False
    cur = list(lines)
    n = 2
    while budget > 0 and len(cur) > 2:
        chunk = max(1, len(cur) // n)
        removed = False
        for i in range(0, len(cur), chunk):
            # phase markers and main-thread lines (pool creation, fault windows) are never dropped
            cand = cur[:i] + [l for l in cur[i:i + chunk] if l.startswith("P ") or l.startswith("M ")] + cur[i + chunk:]
            if len(cand) == len(cur):
                continue
            budget -= 1
            if budget <= 0:
                break
            if fails(cand):
                cur = cand
                n = max(n - 1, 2)
                removed = True
                break
        if not removed:
            if chunk == 1:
                break
            n = min(n * 2, len(cur))
    return cur


def run_real(ck, c):
    libdir = real_lib()
    exe = cxx_build("C17", "real", ["harness/c17/real.cpp"], flags=["-O1", "-g", "-pthread"],
                    libs=["-L" + libdir, "-ltbbmalloc", "-Wl,-rpath," + libdir, "-pthread"])
    ck.extra["libtbbmalloc"] = libdir
    classes = size_classes(c)
    quick = ck.tier == "quick"
    nscen = 40 if quick else 1200
    bad = []
    tot_ops = 0
    # a deterministic boundary sweep first: every class edge, every alignment, single thread then foreign free
    sweep = ["P 2"]
    slot = 0
    allsz = sorted({v for k in ("tiny", "seg", "fit", "lsmall") for v in classes[k]})
    for sz in allsz:
        sweep.append("0 malloc %d %d" % (slot, sz)); slot += 1
        for a in (3, 4, 6, 7, 9, 12, 13, 16):
            sweep.append("0 amalloc %d %d %d" % (slot, max(sz, 1), a)); slot += 1
        sweep.append("0 calloc %d 1 %d" % (slot, sz)); slot += 1
    for s in range(slot):
        sweep.append("%d %s %d" % (s % 2, "msize", s))
    for s in range(slot):
        sweep.append("%d realloc %d %d" % ((s // 3) % 2, s, allsz[(s * 7) % len(allsz)] + 1))
    for s in range(slot):
        sweep.append("%d free %d" % (s % 2, s))
    scen = [("boundary-sweep", sweep)]
    for i in range(nscen):
        scen.append(("random-%d" % i, gen_history(ck.rng, c, classes, ck.rng.choice([300, 800, 2000] if quick else [300, 1500, 5000]))))
    kinds = {}
    for name, lines in scen:
        v = run_script(exe, lines)
        tot_ops += len(lines)
        for l in lines:
            w = l.split()
            if len(w) > 1 and w[0] != "P":
                kinds[w[1]] = kinds.get(w[1], 0) + 1
        ck.count(len(lines), (name.split("-")[0], int(lines[0].split()[1]) if lines[0].startswith("P") else 1, sum(1 for l in lines if l.startswith("P "))))
        ck.traces_validated += 1
        if v:
            bad.append((name, lines, v))
            if len(bad) >= 3:
                break
    ck.extra["real_op_distribution"] = kinds
    ck.sample({"history": scen[1][0], "first_ops": scen[1][1][:12], "ops": len(scen[1][1])})
    ck.oblige("monitor:shadow heap on real libtbbmalloc (disjoint, aligned, msize>=request, zero-fill, prefix kept, patterns intact, no reuse before free)",
              "correspondence", not bad, [(n, v[:2]) for n, _, v in bad][:2])
    for name, lines, v in bad[:1]:
        kind = v[0].split()[1]
        small = shrink_script(exe, lines, kind, runs=2 if lines[0] != "P 1" else 1)
        v2 = run_script(exe, small) or v
        ck.counterexample("history:%s:%s" % (kind, hash_lines(small)), "allocation history (%d ops, shrunk from %d) violates the shadow heap: %s" % (len(small), len(lines), v2[0]),
                          {"engine": "E-REAL", "harness": "harness/c17/real.cpp", "script": small, "observed": v2[:5], "runs": 20, "expect": "no-violation"})


def hash_lines(ls):
    import hashlib
    return hashlib.sha1("\n".join(ls).encode()).hexdigest()[:8]


# ---------------------------------------------------------------------------------------------
def run(ck):
    ck.rule = ("E-PURE (white-box include of the current frontend.cpp): every size 0..fittingSize5+40 for getIndex/getObjectSize; every distance "
               "from the slab end for findAllocatedObject/findObjectToFree/findObjectSize on the fitting bins (thorough: every bin); real "
               "allocateAligned for every size 0..fittingSize5+80 x alignments 2^0..2^14 plus boundary sizes x alignments up to 2^26/2^28 and "
               "large-object bin-step boundaries up to 2^26/2^28; E-REAL: boundary sweep of every class edge + seeded random 1-4 thread, 1-3 phase "
               "histories (bursts over a slab, foreign frees, thread exit with live blocks, cleanup commands). distinct = (operation, outcome class)")
    ck.assumptions += [
        "modelled and proved: size->bin/object size, slab layout and bump pointer, allocateAligned case split (generated from source), "
        "interior pointer recovery (free/msize), large-object placement incl. 32-bit ptrDelta; spec-level shadow heap; slab ownership protocol "
        "(owner + foreign freers: publicFreeList CAS push / exchange privatise, free list, bump region, allocatedCount) for all schedules",
        "NOT modelled (sampled by the E-REAL shadow-heap monitor only): back end (coalescing, bins, regions), back-reference table, large-object "
        "caches, content preservation by realloc/calloc, the multi-threaded public-free-list / orphan adoption protocol on the implementation",
        "the slab ownership protocol model (Model/C17.lean `slabSys`) has theorems but NO trace tie to the code (no E-SHIM run of tbbmalloc): it is "
        "a design-level proof; orphaned-slab adoption (UNUSABLE marker, nextPrivatizable/mailbox) is not in the model. On the implementation the "
        "protocol is exercised only by the multi-threaded E-REAL histories (a mutation that loses a public free, e.g. privatise by load+store, is a leak, "
        "not a C17 violation, and is not detected)",
        "64-bit Linux layout (is64bit=1, estimatedCacheLineSize=64) as generated; addresses are assumed < 2^64 - block size"]
    ck.trusted += ["checks/cexpr.py + checks/c17.py Tr2/tr_function/AA_RE (C++ -> Lean translation of alignUp/alignDown and the allocateAligned case split)",
                   "harness/c17/wb.cpp (white-box observation), harness/c17/real.cpp (shadow-heap monitor)",
                   "correspondence is differential (exhaustive over the slab domain for the pure functions), not proved"]
    exe, c = gen(ck)
    import c17be
    be_exe, _ = c17be.gen(ck)
    ck.lean_stage()
    run_pure(ck, exe, c)
    c17be.run(ck, be_exe, c)
    run_real(ck, c)


def replay(ck, obj):
    r = obj["replay"]
    if r.get("harness", "").endswith(("be.cpp", "gs.cpp")):
        import c17be
        return c17be.replay(ck, r)
    if r.get("harness", "").endswith("wb.cpp"):
        exe = cxx_build("C17", "wb", ["harness/c17/wb.cpp"], flags=WB_FLAGS, libs=WB_LIBS)
        rc, out, err = sh([exe], input=r["stdin"] + "\n", timeout=300)
        print("replay of %s: rc=%d\n%s" % (obj.get("key"), rc, out))
        if rc != 0:
            print("STILL FAILS (crash)")
            return 1
        _, c = wb_consts("C17")
        last_in, last_out = r["stdin"].split("\n")[-1], (out.strip().split("\n") or [""])[-1]
        still = r.get("monitor") == "wb_monitor" and wb_monitor(last_in, last_out, c) is not None
        if "expect_find" in r:
            still = still or int(last_out.split()[1]) != r["expect_find"]
        if r.get("expect") == "objsize>=size":
            still = still or int(last_out.split()[1]) < int(last_in.split()[1])
        print("STILL FAILS" if still else "property holds now")
        return 1 if still else 0
    libdir = real_lib()
    exe = cxx_build("C17", "real", ["harness/c17/real.cpp"], flags=["-O1", "-g", "-pthread"],
                    libs=["-L" + libdir, "-ltbbmalloc", "-Wl,-rpath," + libdir, "-pthread"])
    for i in range(r.get("runs", 20)):
        v = run_script(exe, r["script"])
        if v:
            print("replay of %s: run %d: %s\nSTILL FAILS" % (obj.get("key"), i, v[0]))
            return 1
    print("replay of %s: no violation in %d runs: property holds now" % (obj.get("key"), r.get("runs", 20)))
    return 0
