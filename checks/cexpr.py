"""A tiny typed translator from C++ integer expressions to Lean (E-GEN).

Used to regenerate decision guards from the source text (e.g. the `delta` test of
concurrent_vector::internal_grow_to_at_least, the overflow guards of tbbmalloc).  Supported:
identifiers with declared types, decimal/hex literals, static_cast<T>(e), T(e), unary -, !,
binary * / % + - << >> < <= > >= == != && ||, parentheses, sizeof(T) for known T.
Types: u64 (size_t, uintptr_t, size_type), i32 (int), i64 (ptrdiff_t, intptr_t, long), bool.
The Lean side uses TbbVerif.Cint (wrap-around fixed width arithmetic on Nat / Int).
"""
import re


class CExprError(Exception):
    pass


TYPES = {"size_t": "u64", "size_type": "u64", "uintptr_t": "u64", "std::size_t": "u64", "unsigned long": "u64",
         "std::uintptr_t": "u64", "uint64_t": "u64",
         "int": "i32", "ptrdiff_t": "i64", "intptr_t": "i64", "long": "i64", "difference_type": "i64",
         "std::ptrdiff_t": "i64", "bool": "bool", "unsigned": "u32", "unsigned int": "u32", "uint32_t": "u32"}
BITS = {"u64": 64, "i64": 64, "i32": 32, "u32": 32}

TOK = re.compile(r"\s*(?:(0[xX][0-9a-fA-F]+|\d+)[uUlL]*|([A-Za-z_][\w:]*)|(<<|>>|<=|>=|==|!=|&&|\|\||[-+*/%<>!()~&|^?:,]))")


def tokenize(s):
    out, i = [], 0
    s = s.strip()
    while i < len(s):
        m = TOK.match(s, i)
        if not m or m.end() == i:
            raise CExprError("cannot tokenize at: " + s[i:i + 30])
        if m.group(1) is not None:
            out.append(("num", int(m.group(1), 0)))
        elif m.group(2) is not None:
            out.append(("id", m.group(2)))
        else:
            out.append(("op", m.group(3)))
        i = m.end()
    return out


def is_signed(t):
    return t in ("i32", "i64")


class Tr:
    """recursive descent; every node is (lean_text, type)."""

    def __init__(self, toks, env, consts=None):
        self.t, self.i, self.env, self.consts = toks, 0, env, consts or {}

    def peek(self):
        return self.t[self.i] if self.i < len(self.t) else ("eof", None)

    def eat(self, kind=None, val=None):
        k, v = self.peek()
        if (kind and k != kind) or (val is not None and v != val):
            raise CExprError("expected %s %s, got %s %s" % (kind, val, k, v))
        self.i += 1
        return v

    # type names may be several identifiers (unsigned long) or A::B; also `static_cast<int>`
    def try_type(self):
        save = self.i
        names = []
        while self.peek()[0] == "id":
            names.append(self.peek()[1])
            self.i += 1
            if " ".join(names) in TYPES and not (self.peek()[0] == "id" and " ".join(names + [self.peek()[1]]) in TYPES):
                return TYPES[" ".join(names)]
        self.i = save
        return None

    def conv(self, node, to):
        txt, ty = node
        if ty == to:
            return node
        if to == "bool":
            return ("(decide (%s ≠ 0))" % txt, "bool")
        if ty == "bool":
            if is_signed(to):
                return ("(if %s then (1:Int) else 0)" % txt, to)
            return ("(if %s then (1:Nat) else 0)" % txt, to)
        asint = txt if is_signed(ty) else "((%s : Nat) : Int)" % txt
        if is_signed(to):
            return ("(wrapS %d %s)" % (BITS[to], asint), to)
        return ("(wrapU %d %s)" % (BITS[to], asint), to)

    def common(self, a, b):
        ta, tb = a[1], b[1]
        if ta == "bool":
            a = self.conv(a, "i32"); ta = "i32"
        if tb == "bool":
            b = self.conv(b, "i32"); tb = "i32"
        rank = {"i32": 1, "u32": 2, "i64": 3, "u64": 4}
        t = ta if rank[ta] >= rank[tb] else tb
        return self.conv(a, t), self.conv(b, t), t

    def arith(self, op, a, b):
        a, b, t = self.common(a, b)
        n = BITS[t]
        raw = {"+": "(%s + %s)", "-": "(%s - %s)", "*": "(%s * %s)"}
        if op in raw:
            if is_signed(t):
                return ("(wrapS %d %s)" % (n, raw[op] % (a[0], b[0])), t)
            if op == "-":
                return ("(wrapU %d (((%s : Nat) : Int) - ((%s : Nat) : Int)))" % (n, a[0], b[0]), t)
            return ("(%s %% 2^%d)" % (raw[op] % (a[0], b[0]), n), t)
        if op in ("/", "%") and not is_signed(t):
            return ("(%s %s %s)" % (a[0], op, b[0]), t)
        if op in ("&", "|", "^") and not is_signed(t):
            return ("(%s %s %s)" % (a[0], {"&": "&&&", "|": "|||", "^": "^^^"}[op], b[0]), t)
        raise CExprError("unsupported arithmetic %s on %s" % (op, t))

    def shift(self, op, a, b):
        if a[1] == "bool":
            a = self.conv(a, "i32")
        if is_signed(a[1]) or is_signed(b[1]) and False:
            raise CExprError("signed shift")
        bn = b[0] if not is_signed(b[1]) else "(%s).toNat" % b[0]
        n = BITS[a[1]]
        if op == "<<":
            return ("((%s <<< %s) %% 2^%d)" % (a[0], bn, n), a[1])
        return ("(%s >>> %s)" % (a[0], bn), a[1])

    def cmp(self, op, a, b):
        a, b, t = self.common(a, b)
        lop = {"<": "<", "<=": "≤", ">": ">", ">=": "≥", "==": "=", "!=": "≠"}[op]
        return ("(decide (%s %s %s))" % (a[0], lop, b[0]), "bool")

    def primary(self):
        k, v = self.peek()
        if k == "num":
            self.i += 1
            return ("(%d : Int)" % v, "i32") if v < 2 ** 31 else ("(%d : Nat)" % v, "u64")
        if k == "op" and v == "(":
            self.i += 1
            e = self.expr()
            self.eat("op", ")")
            return e
        if k == "id" and v in ("static_cast", "reinterpret_cast"):
            self.i += 1
            self.eat("op", "<")
            ty = self.try_type()
            if ty is None:
                raise CExprError("unknown cast type")
            self.eat("op", ">")
            self.eat("op", "(")
            e = self.expr()
            self.eat("op", ")")
            return self.conv(e, ty)
        if k == "id" and v == "sizeof":
            self.i += 1
            self.eat("op", "(")
            name = []
            while self.peek() != ("op", ")"):
                name.append(str(self.peek()[1])); self.i += 1
            self.eat("op", ")")
            nm = " ".join(name)
            if "sizeof(%s)" % nm in self.consts:
                return ("(%d : Nat)" % self.consts["sizeof(%s)" % nm], "u64")
            raise CExprError("unknown sizeof(%s)" % nm)
        if k == "id":
            ty = self.try_type()
            if ty is not None and self.peek() == ("op", "("):
                self.eat("op", "(")
                e = self.expr()
                self.eat("op", ")")
                return self.conv(e, ty)
            if ty is not None:
                raise CExprError("type name in expression")
            self.i += 1
            if v in ("true", "false"):
                return (v, "bool")
            if v in self.env:
                return self.env[v]
            if v in self.consts:
                c = self.consts[v]
                return ("(%d : Nat)" % c, "u64")
            raise CExprError("unknown identifier " + v)
        raise CExprError("unexpected token %s %s" % (k, v))

    def unary(self):
        k, v = self.peek()
        if k == "op" and v == "-":
            self.i += 1
            e = self.unary()
            return self.arith("-", ("(0 : Int)", "i32"), e)
        if k == "op" and v == "!":
            self.i += 1
            e = self.conv(self.unary(), "bool")
            return ("(!%s)" % e[0], "bool")
        if k == "op" and v == "~":
            self.i += 1
            e = self.unary()
            if is_signed(e[1]) or e[1] == "bool":
                raise CExprError("~ on signed")
            return ("(2^%d - 1 - %s)" % (BITS[e[1]], e[0]), e[1])
        return self.primary()

    LEVELS = [["||"], ["&&"], ["|"], ["^"], ["&"], ["==", "!="], ["<", "<=", ">", ">="], ["<<", ">>"], ["+", "-"], ["*", "/", "%"]]

    def binary(self, lvl):
        if lvl == len(self.LEVELS):
            return self.unary()
        a = self.binary(lvl + 1)
        while self.peek()[0] == "op" and self.peek()[1] in self.LEVELS[lvl]:
            op = self.eat("op")
            b = self.binary(lvl + 1)
            if op == "||":
                a = ("(%s || %s)" % (self.conv(a, "bool")[0], self.conv(b, "bool")[0]), "bool")
            elif op == "&&":
                a = ("(%s && %s)" % (self.conv(a, "bool")[0], self.conv(b, "bool")[0]), "bool")
            elif op in ("==", "!=", "<", "<=", ">", ">="):
                a = self.cmp(op, a, b)
            elif op in ("<<", ">>"):
                a = self.shift(op, a, b)
            else:
                a = self.arith(op, a, b)
        return a

    def expr(self):
        c = self.binary(0)
        if self.peek() == ("op", "?"):
            self.i += 1
            a = self.expr()
            self.eat("op", ":")
            b = self.expr()
            if a[1] == "bool" and b[1] == "bool":
                t = "bool"
            else:
                a, b, t = self.common(a, b)
            return ("(if %s then %s else %s)" % (self.conv(c, "bool")[0], a[0], b[0]), t)
        return c


def translate(src, env, consts=None, want=None):
    """src: C++ expression text; env: {name: (lean_text, type)}; returns (lean_text, type)."""
    tr = Tr(tokenize(src), env, consts)
    e = tr.expr()
    if tr.peek()[0] != "eof":
        raise CExprError("trailing tokens after expression: %s" % (tr.t[tr.i:],))
    if want:
        e = tr.conv(e, want)
    return e
