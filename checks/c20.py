"""C20 — a suspended task resumes exactly once, however resume races with suspension (DESIGN.md §3 C20).

Tie: E-GEN (stack_state enum values) + E-SHIM on the WHOLE instrumented runtime with real coroutine switches
(ucontext under the baton scheduler).  Every access to every suspend point's m_stack_state / m_is_owner_recalled and
every resume-task publication is validated, event by event, as an enabled transition of the Lean model `SuspendPoint`
(Model/C20.lean) with the same values read and written; implementation-side monitors (continuation counter, ghost
"resume called" flag, concurrent-continuation counter, wait-returns-after-continuation, deadlock detection of the
scheduler) check the property itself and produce the replays."""
import json
import os
import re
from concurrent.futures import ThreadPoolExecutor

import common
from common import REPO, cxx_build, drv, gen_write, log, sh

NCPU = common.NCPU
TIMEOUT = 20          # seconds per run (a normal run takes 0.03 s, a detected deadlock or livelock < 0.5 s)
ENOUGH = 12           # stop launching runs once this many runs violated a monitor (a broken tree fails almost every run)


# ------------------------------------------------------------------------------------------------------------------
# E-GEN
# ------------------------------------------------------------------------------------------------------------------
def gen(ck):
    exe = cxx_build("C20", "consts", ["harness/c20/consts.cpp"], flags=["-O0", "-fno-access-control", "-D__TBB_BUILD", "-I" + REPO + "/src"])
    rc, out, err = sh([exe], timeout=60)
    c = json.loads(out)
    ck.extra["generated_constants"] = c
    gen_write("C20", "".join("def %s : Nat := %d\n" % (k, v) for k, v in sorted(c.items())))
    src = open(os.path.join(REPO, "src/tbb/scheduler_common.h")).read()
    m = re.search(r"std::atomic<stack_state>\s+m_stack_state\s*\{\s*stack_state::(\w+)\s*\}", src)
    ck.oblige("gen:m_stack_state starts as `active` (default member initialiser in scheduler_common.h)", "generated",
              bool(m) and m.group(1) == "active", "found: %s" % (m.group(0) if m else "no initialiser matched"))
    m2 = re.search(r"//\s*Possible state transitions:\s*\n\s*//\s*(.*)\n\s*//\s*(.*)\n", src)
    doc = [re.sub(r"\s+", "", x) for x in m2.groups()] if m2 else []
    ck.extra["documented_chains"] = doc
    ck.oblige("gen:documented transition chains are A->S->N->A and A->N->S->N->A (comment in scheduler_common.h; theorem stack_state_chains)",
              "generated", doc == ["A->S->N->A", "A->N->S->N->A"], "comment says: %s" % doc)


# ------------------------------------------------------------------------------------------------------------------
# running one scenario
# ------------------------------------------------------------------------------------------------------------------
def build():
    objs = common.shim_runtime_objects()
    return cxx_build("C20", "sr", ["harness/c20/sr.cpp", common.SHIM_SRC],
                     flags=["-O1", "-g", "-fno-access-control", "-I" + REPO + "/src"] + common.SHIM_FLAGS, libs=objs + ["-ldl"])


def spec_args(spec):
    a = [spec["container"], str(spec["P"]), spec["modes"], str(spec["nwork"]), str(spec["nest"])]
    if spec["mode"] == "rand":
        return a + ["rand", str(spec["seed"])]
    if spec["mode"] == "target":
        return a + ["target", str(spec["k"]), str(spec["seed"])]
    return a + ["replay", spec["schedule"]]


def spec_name(spec):
    return "%s P=%d modes=%s nwork=%d nest=%d %s" % (spec["container"], spec["P"], spec["modes"], spec["nwork"], spec["nest"],
                                                     "rand seed=%d" % spec["seed"] if spec["mode"] == "rand" else
                                                     "target k=%d seed=%d" % (spec["k"], spec["seed"]) if spec["mode"] == "target" else "replay")


def run_one(exe, spec):
    rc, out, err = sh([exe] + spec_args(spec), timeout=TIMEOUT)
    r = {"spec": spec, "rc": rc, "sps": {}, "ev": [], "mon": [], "stat": {}, "susp": {}, "sched": "", "err": err[-400:]}
    for l in out.split("\n"):
        w = l.split()
        if not w:
            continue
        if w[0] == "e":
            if len(w) >= 8 or (len(w) >= 6 and w[2] == "note"):
                r["ev"].append(w[1:])
        elif w[0] == "sp":
            r["sps"][w[1]] = w[2:]
        elif w[0] in ("mon", "mon+"):
            r["mon"].append(" ".join(w[1:]))
        elif w[0] == "stat" and w[1] == "susp":
            r["susp"][int(w[2])] = {w[i]: int(w[i + 1]) for i in range(3, len(w) - 1, 2)}
        elif w[0] == "stat":
            r["stat"] = {w[i]: int(w[i + 1]) for i in range(1, len(w) - 1, 2)}
        elif w[0] == "sched":
            r["sched"] = w[1] if len(w) > 1 else ""
    return r


# ------------------------------------------------------------------------------------------------------------------
# trace -> model validation lines (one model instance per suspend point, and per occupant of a slot's default dispatcher)
# ------------------------------------------------------------------------------------------------------------------
def model_lines(r):
    """Returns (lines, meta): meta[i] = (sp, description of the event) for every line; instances separated by reset."""
    ev = r["ev"]
    ntid = 1 + max([int(e[0]) for e in ev] + [0])
    sps = sorted(r["sps"].keys())
    # per-sp event index lists on .ss (for look-ahead)
    ss_events = {s: [] for s in sps}
    for i, e in enumerate(ev):
        if e[1] in ("xchg", "store") and e[2].endswith(".ss") and e[2][:-3] in ss_events:
            ss_events[e[2][:-3]].append(i)
    occupant = {}                # "ar.slot" -> tid
    lines = {s: [] for s in sps}  # sp -> list of (line, desc)
    started = {}                 # sp -> owner used at reset
    cb_open = {}                 # sp -> tid with a callback running (not yet left)
    leaver = {}                  # sp -> tid currently finishing its leave
    pendpush = {}                # tid -> sp
    lastntf = {}                 # tid -> sp of its most recent notify exchange
    onstack = {}                 # sp -> thread executing on that stack
    susp_sp = {}                 # suspension index -> sp
    in_task = set()              # suspension indices that run inside a covered task
    covered_sps = set()
    unmatched_loads = 0

    def owner_of(s):
        kind = r["sps"][s]
        if kind and kind[0] == "slot":
            return occupant.get(kind[1])
        return None

    def ensure(s, tid_hint=None):
        if s not in started:
            o = owner_of(s)
            started[s] = o
            if o is not None:
                onstack[s] = o
            lines[s].append(("reset %s %d" % ("-" if o is None else o, ntid), "reset"))
        else:
            o = owner_of(s)
            kind = r["sps"][s]
            if kind and kind[0] == "slot" and o is not None and o != started[s]:
                # the slot got a new occupant: a new thread now lives on this default dispatcher (new model instance)
                lines[s].append(("end", "end"))
                lines[s].append(("reset %d %d" % (o, ntid), "reset"))
                started[s] = o
                onstack[s] = o

    def add(s, line, desc):
        ensure(s)
        lines[s].append((line, desc))

    for i, e in enumerate(ev):
        t = int(e[0])
        if e[1] == "note":
            tag = e[2]
            if tag == "task_begin":
                in_task.add(int(e[3]))
            elif tag == "cb":
                s, k = e[3], int(e[4])
                if s in lines:
                    susp_sp[k] = s
                    if k in in_task:
                        add(s, "reserve %d" % t, "reserve")
                        add(s, "begin %d" % t, "task_begin %d" % k)
                        covered_sps.add(s)
                    add(s, "cb %d" % t, "callback of suspension %d" % k)
                    cb_open[s] = t
            elif tag == "resume_call":
                s = e[3]
                if s in lines:
                    add(s, "resumecall %d" % t, "resume() call for suspension %s" % e[4])
            elif tag == "cont":
                k = int(e[3])
                if k in susp_sp:
                    add(susp_sp[k], "cont %d" % t, "continuation of suspension %d" % k)
            elif tag == "task_end":
                k = int(e[3])
                if k in susp_sp and k in in_task:
                    add(susp_sp[k], "end %d" % t, "task_end %d" % k)
            elif tag == "wait_done":
                for s in sorted(covered_sps):
                    add(s, "waitcheck %d 1" % t, "wait returned")
            continue
        kind, var = e[1], e[2]
        if var.startswith("occ"):
            slot = var[3:]
            if kind == "xchg" and e[4] == "0" and e[5] == "1":
                occupant[slot] = t
            elif kind == "store" and e[4] == "1":
                occupant[slot] = t
            continue
        if var.startswith("rts") or var.startswith("cts"):
            if kind == "for":
                s = pendpush.pop(t, None) or lastntf.get(t)
                if s is not None:
                    add(s, "push %d" % t, "resume task pushed (%s)" % var)
                else:
                    return None, "thread %d published into %s without a preceding notify exchange" % (t, var), 0
            continue
        s, fld = var.rsplit(".", 1)
        if s not in lines:
            continue
        if kind == "load":
            unmatched_loads += 1
            continue
        if fld == "rc":
            if kind == "store":
                add(s, "store %d rc %s %s" % (t, e[4], e[5]), "store recalled")
            else:
                add(s, "unknown %s" % " ".join(e), "unexpected access kind on m_is_owner_recalled")
            continue
        # m_stack_state
        if kind == "xchg":
            old, new = e[4], e[5]
            if new == "1":
                if leaver.get(s) != t:
                    if cb_open.get(s) == t:
                        k = "user"
                        cb_open.pop(s, None)
                    else:
                        # look ahead: what happens next on this state word decides which kind of leave this is
                        nxt = [j for j in ss_events[s] if j > i]
                        k = "park"
                        if nxt:
                            f = ev[nxt[0]]
                            if f[1] == "store" and f[4] != "0" and int(f[0]) == t:
                                k = "recall"
                            elif f[1] == "xchg" and f[5] == "2":
                                k = "wait"
                    add(s, "leave %d %s" % (t, k), "leave (%s)" % k)
                    leaver[s] = t
                    onstack.pop(s, None)
                add(s, "xchg %d %s %s" % (t, old, new), "finilize_resume exchange(suspended)")
                if old != "2":
                    # leave finished unless recall/park post action follows (tracked by the model itself)
                    pass
            elif new == "2":
                ensure(s)
                if onstack.get(s) == t and cb_open.get(s) != t:
                    # resume_task::execute found the enclosing wait already complete: the thread calls r1::resume on the
                    # suspend point of the stack it is still running on, then switches away (same protocol as a callback
                    # that resumes its own suspend point)
                    add(s, "cb %d" % t, "runtime resumes its own stack before leaving it (resume_task::execute, wait complete)")
                    cb_open[s] = t
                add(s, "xchg %d %s %s" % (t, old, new), "try_notify_resume exchange(notified)")
                lastntf[t] = s
                if old == "1":
                    pendpush[t] = s
            else:
                add(s, "unknown %s" % " ".join(e), "exchange of an unexpected value")
        elif kind == "store":
            new, old = e[4], e[5]
            add(s, "store %d ss %s %s" % (t, new, old), "store(%s)" % {"0": "active", "1": "suspended", "2": "notified"}.get(new, new))
            if new == "0":
                leaver.pop(s, None)
                onstack[s] = t
        else:
            add(s, "unknown %s" % " ".join(e), "unexpected access kind on m_stack_state")
    out, meta = [], []
    for s in sps:
        if not lines[s]:
            continue
        for (l, d) in lines[s]:
            out.append(l)
            meta.append((s, d, l))
        out.append("end")
        meta.append((s, "end", "end"))
    return (out, meta), None, unmatched_loads


def validate(r):
    """Validate one run's trace on the Lean model.  Returns (problem or None, recs, loads)."""
    lm, prob, loads = model_lines(r)
    if prob:
        return prob, [], 0
    lines, meta = lm
    if not lines:
        return "the run produced no events on any suspend point", [], 0
    out = drv("c20", "\n".join(lines) + "\n")
    if len(out) != len(lines):
        return "model driver produced %d lines for %d inputs" % (len(out), len(lines)), [], 0
    recs = []
    deadlock = r["stat"].get("deadlock", 0)
    for (s, d, l), o in zip(meta, out):
        if o.startswith("MISMATCH") or o == "bad-op":
            return "%s: %s [%s] -> %s" % (s, d, l, o), recs, loads
        if l == "end":
            m = re.match(r"summary fail=(\d) bad=(\d) waitBad=(\d) misuse=(\d) events=(\d+) rounds=(\d+) done=(\d+) quiet=(\d) ss=(\w) queue=(\d+) wc=(\d+) recs=(.*)", o)
            if not m:
                return "%s: unreadable summary %s" % (s, o), recs, loads
            if m.group(1) != "0" or m.group(2) != "0" or m.group(3) != "0" or m.group(4) != "0":
                return "%s: model flags at the end of the trace: %s" % (s, o[:160]), recs, loads
            if not deadlock and (m.group(8) != "1" or m.group(10) != "0"):
                return "%s: at the end of the run the model still has an unfinished operation or a queued resume task: %s" % (s, o[:200]), recs, loads
            recs += [(s,) + tuple(x.split(":")) for x in m.group(12).split()]
    return None, recs, loads


def classify_window(r):
    """Where did the foreign resumer's exchange(notified) of suspension 0 fall relative to the leaver's steps?"""
    ev = r["ev"]
    sp = leaver = None
    i_cbend = i_switch = i_lx = i_rx = None
    for i, e in enumerate(ev):
        if e[1] == "note" and e[2] == "cb" and e[4] == "0":
            sp, leaver = e[3], e[0]
        elif sp and e[1] == "note" and e[2] == "cb_end" and e[4] == "0":
            i_cbend = i
        elif sp and i_cbend is not None and i_switch is None and e[0] == leaver and e[1] == "store" and e[2].endswith(".ss") and e[2] != sp + ".ss" and e[4] == "0":
            i_switch = i
        elif sp and e[1] == "xchg" and e[2] == sp + ".ss":
            if e[5] == "1" and i_lx is None and e[0] == leaver:
                i_lx = i
            elif e[5] == "2" and i_rx is None and e[0] != leaver:
                i_rx = i
    if i_rx is None or i_lx is None:
        return None
    if i_cbend is None or i_rx < i_cbend:
        return "in-callback"
    if i_switch is None or i_rx < i_switch:
        return "after-callback-before-switch"
    if i_rx < i_lx:
        return "between-switch-and-leaver-exchange"
    return "after-leaver-exchange"


# ------------------------------------------------------------------------------------------------------------------
# scenarios
# ------------------------------------------------------------------------------------------------------------------
FAMILIES = [
    # container, P, modes, nwork, nest
    ("tg", 1, "f", 1, 0), ("tg", 2, "f", 1, 0), ("tg", 3, "f", 2, 0),
    ("tg", 1, "s", 1, 0), ("tg", 2, "s", 1, 0),
    ("tg", 1, "t", 1, 0), ("tg", 2, "t", 1, 0), ("tg", 3, "t", 2, 0),
    ("tg", 1, "ff", 1, 0), ("tg", 2, "fs", 1, 0), ("tg", 2, "ft", 1, 0), ("tg", 3, "fts", 2, 0),
    ("tg", 1, "ff", 0, 1), ("tg", 2, "ft", 1, 1), ("tg", 1, "fts", 1, 1), ("tg", 3, "fff", 1, 1), ("tg", 1, "tt", 0, 1),
    ("pfor", 1, "f", 2, 0), ("pfor", 2, "f", 3, 0), ("pfor", 3, "fs", 3, 0), ("pfor", 2, "ff", 2, 0), ("pfor", 1, "s", 2, 0),
    ("arena1", 1, "f", 1, 0), ("arena1", 2, "f", 1, 0), ("arena1", 2, "t", 1, 0), ("arena1", 2, "ft", 1, 1), ("arena1", 1, "s", 0, 0),
    ("outer", 1, "f", 1, 0), ("outer", 2, "f", 1, 0), ("outer", 3, "ff", 1, 0), ("outer", 2, "s", 1, 0), ("outer", 2, "ft", 1, 0),
]
TARGET_FAMILIES = [("tg", 1, "f", 1, 0), ("tg", 2, "f", 1, 0), ("tg", 2, "ff", 0, 1), ("pfor", 2, "f", 2, 0), ("arena1", 2, "f", 1, 0),
                   ("outer", 2, "f", 1, 0), ("outer", 1, "f", 0, 0)]
KMAX = 14


def mkspec(fam, mode, seed, k=0):
    return {"container": fam[0], "P": fam[1], "modes": fam[2], "nwork": fam[3], "nest": fam[4], "mode": mode, "seed": seed, "k": k}


def make_specs(ck, nrand, ntarget_seeds, families=FAMILIES, tfamilies=TARGET_FAMILIES, salt=0):
    specs = []
    base = ck.seed * 1000003 + salt * 7919
    for fi, fam in enumerate(families):
        for j in range(nrand):
            specs.append(mkspec(fam, "rand", base + fi * 1009 + j))
    for fi, fam in enumerate(tfamilies):
        for k in range(KMAX + 1):
            for j in range(ntarget_seeds):
                specs.append(mkspec(fam, "target", base + fi * 1013 + j, k))
    return specs


def run_specs(exe, specs):
    def one(spec):
        r = run_one(exe, spec)
        retries = 0
        while r["rc"] not in (0, 1, 3, -9) and retries < 3:
            # runs are deterministic given the schedule, so a genuine crash of the runtime reproduces; a crash that does
            # not is the E-SHIM runtime's own hand-over race (verif_sched.cpp reschedule() reads r->ths[me] after
            # give_go(); seen only on the deadlock path under heavy machine load) — reported, not counted
            retries += 1
            r2 = run_one(exe, spec)
            r2["first_crash"] = r["err"]
            r = r2
        r["retries"] = retries
        try:
            prob, recs, loads = validate(r)
        except common.BuildError as e:
            prob, recs, loads = "model driver failed: %s" % e, [], 0
        except Exception as e:   # a trace the translation cannot even read is a broken correspondence, never silence
            prob, recs, loads = "trace translation failed: %r" % (e,), [], 0
        r["corr"], r["recs"], r["loads"] = prob, recs, loads
        r["window"] = classify_window(r) if spec["modes"][0] == "f" else None
        # keep memory small: the event log is needed again only for a failing run (replay re-runs the scenario anyway)
        if not prob and r["rc"] == 0:
            r["ev"] = []
        return r
    out, nbad = [], 0
    with ThreadPoolExecutor(max_workers=NCPU) as ex:
        for i in range(0, len(specs), 8 * NCPU):
            chunk = list(ex.map(one, specs[i:i + 8 * NCPU]))
            out += chunk
            nbad += sum(1 for r in chunk if mon_problem(r))
            if nbad >= ENOUGH:
                log("%d runs violated a monitor after %d of %d runs: not launching the rest" % (nbad, len(out), len(specs)))
                break
    return out


def mon_problem(r):
    if r["rc"] == -9:
        return "hang: the run did not finish within %d s (a thread blocked or looped outside any scheduling point)" % TIMEOUT
    if r["rc"] not in (0, 1, 3):
        return "harness crashed rc=%d %s" % (r["rc"], r["err"][-200:])
    if not r["mon"]:
        return "harness printed no monitor line rc=%d %s" % (r["rc"], r["err"][-200:])
    if r["mon"][0] != "ok":
        return r["mon"][0]
    return None


def cex_key(text):
    t = text.lower()
    if "deadlock" in t:
        return "suspended-task-never-resumed-deadlock"
    if "livelock" in t or "hang:" in t:
        return "suspend-resume-livelock"
    if "continuation ran 0" in t:
        return "continuation-forgotten"
    if "continuation ran" in t:
        return "continuation-ran-more-than-once"
    if "before resume" in t:
        return "continued-without-resume-call"
    if "two threads" in t:
        return "continuation-on-two-threads"
    if "returned while suspension" in t:
        return "wait-completed-over-suspended-task"
    if "different thread" in t:
        return "outermost-suspend-continued-on-foreign-thread"
    if "crashed" in t:
        return "runtime-crash-in-suspend-resume"
    return "suspend-resume-monitor"


def replay_obj(r, what):
    return {"engine": "E-SHIM whole runtime", "spec": r["spec"], "args": spec_args(r["spec"]), "monitor": what,
            "schedule_rle": r["sched"][:20000], "how": "build/C20/sr " + " ".join(spec_args(r["spec"]))}


def run(ck):
    quick = ck.tier == "quick"
    ck.rule = ("E-SHIM whole-runtime scenarios = container {task_group, parallel_for, task_arena(1), outermost suspend} x max_allowed_parallelism {1,2,3} x "
               "per-suspension resumer {foreign thread, task spawned by the callback, the callback itself} x nested suspensions x other work; each under seeded "
               "random schedules and targeted schedules (foreign resume() run as a block after the suspending thread made k=0..%d scheduling points since its callback "
               "published the suspend point); distinct = (suspend-point kind, round kind, state chain, who pushed, how the continuation got the stack) classes and "
               "resume-window classes" % KMAX)
    ck.assumptions += [
        "proved on the model: one suspend point, any number of threads / resumers / rounds, all interleavings of the atomic accesses (sequentially consistent)",
        "the API precondition (resume called exactly once per suspend point handed out) is enforced by the model (violating calls are rejected) and respected by the harness",
        "not modelled: the register save/restore of the context switch, coroutine stack allocation and cache replacement, the internals of task_stream (push/pop are one step), "
        "concurrent_monitor (sleep/wake-up of the recalled owner; covered by the scheduler's deadlock detection only), release/acquire visibility (the shim serialises accesses)",
        "the window between swapcontext and the first atomic access on the new stack contains no scheduling point; for the protocol it is equivalent to the points before the switch "
        "(the resumer only reads/writes m_stack_state, the switching thread touches no shared state in it)",
        "the wait_context is modelled abstractly (counter = covered tasks not yet finished; the per-thread reference_vertex proxies are not modelled); on the implementation "
        "side it is tied by the API-level monitor (wait returns only after every continuation finished) and by feeding the harness's task begin/end/wait notes to the model",
        "a suspend point of a slot's default dispatcher is replayed as a new model instance when the slot gets a new occupant (the previous instance must then be quiescent)",
        "state chain A->S->A (A->A for a new coroutine) occurs for coroutine stacks parked in the co-cache and re-entered by a plain switch; it is not listed in the comment of "
        "scheduler_common.h (which covers handed-out suspend points and owner recall only); theorem stack_state_chains proves it never occurs for those",
        "agreement of model and implementation is sampled (explored schedules), not proved"]
    ck.trusted += ["harness/shim (atomic shim + baton scheduler, dynamic threads, futex emulation)", "harness/c20/sr.cpp monitors and white-box naming of suspend points",
                   "trace-to-model translation in checks/c20.py (which access plays which role; look-ahead to classify a leave as recall/park/wait)"]
    gen(ck)
    ck.lean_stage()
    exe = build()
    specs = make_specs(ck, 150 if quick else 1500, 20 if quick else 150)
    runs = run_specs(exe, specs)
    bad_corr = [r for r in runs if r["corr"]]
    bad_mon = [(r, mon_problem(r)) for r in runs if mon_problem(r)]
    classes, windows = {}, {}
    work_by_suspender = 0
    cont_other_thread = 0
    loads = 0
    for r in runs:
        ck.traces_validated += 1
        loads += r["loads"]
        for rec in r["recs"]:
            sp, kind, chain, calls, pr, pl, via, by, byowner = rec
            key = ("co" if r["sps"].get(sp, ["co"])[0] == "co" else "default", kind, chain, "pushR" if pr == "1" else "pushL" if pl == "1" else "nopush", via, "owner" if byowner == "1" else "other")
            classes[key] = classes.get(key, 0) + 1
            ck.count(1, key)
        if r["window"]:
            windows[r["window"]] = windows.get(r["window"], 0) + 1
            ck.count(0, ("window", r["window"], r["spec"]["container"], r["spec"]["P"]))
        for k, s in r["susp"].items():
            work_by_suspender += 1 if s.get("work_by_suspender", 0) > 0 else 0
            cont_other_thread += 1 if s.get("cont_tid", -1) != s.get("cb_tid", -1) else 0
    ck.extra["runs"] = len(runs)
    ck.extra["round_classes"] = {" ".join(k): v for k, v in sorted(classes.items())}
    ck.extra["resume_window_classes"] = windows
    ck.extra["suspensions_where_suspending_thread_ran_other_work"] = work_by_suspender
    ck.extra["suspensions_continued_on_another_thread"] = cont_other_thread
    ck.extra["unmatched_plain_loads_tolerated"] = loads
    ck.extra["runs_repeated_after_a_non_reproducible_shim_crash"] = sum(1 for r in runs if r.get("retries"))
    for r in runs[:3]:
        ck.sample({"scenario": spec_name(r["spec"]), "monitor": r["mon"][:1], "completed_rounds": [":".join(x) for x in r["recs"]][:12], "window": r["window"]})
    chains = set(k[2] for k in classes if k[1] == "user")
    need_windows = {"in-callback", "after-callback-before-switch", "between-switch-and-leaver-exchange", "after-leaver-exchange"}
    ck.oblige("corr:every m_stack_state / m_is_owner_recalled access and resume-task publication of every suspend point is an enabled step of the Lean model with the same values",
              "correspondence", not bad_corr, "" if not bad_corr else "%s | %s" % (bad_corr[0]["corr"], spec_name(bad_corr[0]["spec"])))
    ck.oblige("monitor:continuation exactly once, only after resume(), never concurrently, wait returns after it, no deadlock (random + targeted schedules)",
              "correspondence", not bad_mon, "" if not bad_mon else "%s | %s" % (bad_mon[0][1], spec_name(bad_mon[0][0]["spec"])))
    ck.oblige("coverage:both documented chains (A->S->N->A and A->N->S->N->A), owner recall, coroutine reuse and all four resume windows were exercised",
              "correspondence", bool(bad_mon) or ({"ASNA", "ANSNA"} <= chains and need_windows <= set(windows) and any(k[1] == "recall" for k in classes) and any(k[1] == "park" for k in classes)),
              "chains %s windows %s" % (sorted(chains), sorted(windows)))
    # ---- failing-input search ----
    if bad_mon:
        bad_mon.sort(key=lambda x: (len(x[0]["spec"]["modes"]), x[0]["spec"]["nwork"], x[0]["spec"]["P"], x[0]["stat"].get("steps", 1 << 30)))
        seen = set()
        for r, what in bad_mon:
            key = cex_key(what)
            if key in seen:
                continue
            seen.add(key)
            ck.counterexample(key, "%s: %s" % (spec_name(r["spec"]), what), replay_obj(r, what))
            if len(seen) >= 3:
                break
    elif bad_corr or ck.broken():
        log("obligation broken without a monitor violation: searching more schedules for a failing input")
        more = make_specs(ck, 300 if quick else 1500, 40 if quick else 150, salt=1)
        runs2 = run_specs(exe, more)
        ck.extra["search_runs"] = len(runs2)
        bm = [(r, mon_problem(r)) for r in runs2 if mon_problem(r)]
        if bm:
            bm.sort(key=lambda x: (len(x[0]["spec"]["modes"]), x[0]["spec"]["nwork"], x[0]["spec"]["P"], x[0]["stat"].get("steps", 1 << 30)))
            r, what = bm[0]
            ck.counterexample(cex_key(what), "%s: %s" % (spec_name(r["spec"]), what), replay_obj(r, what))


def replay(ck, obj):
    r = obj["replay"]
    exe = build()
    res = run_one(exe, r["spec"])
    prob = mon_problem(res)
    print("scenario: %s" % spec_name(r["spec"]))
    print("monitor : %s" % (prob or "ok"))
    try:
        c, recs, _ = validate(res)
        print("model   : %s" % (c or "trace is accepted by the model"))
    except common.BuildError as e:
        print("model   : driver unavailable (%s)" % e)
    for e in res["ev"]:
        if e[1] != "load":
            print("  " + " ".join(e))
    return 1 if prob else 0
