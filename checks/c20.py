"""C20 — a suspended task resumes exactly once, however resume races with suspension (DESIGN.md §3 C20).

Three models, all tied to /repo's current tree on every run:

* `SuspendPoint` (Model/C20.lean) — the hand-shake on m_stack_state / m_is_owner_recalled.  Tie: E-GEN (stack_state enum
  values) + E-SHIM on the WHOLE instrumented runtime with real coroutine switches (ucontext under the baton scheduler).
  Every access to every suspend point's state words and every resume-task publication is validated, event by event, as
  an enabled transition of the model with the same values read and written.
* `Disp` (Model/C20Disp.lean) — the dispatch context the suspending thread continues in: the dispatcher it moves onto
  starts with no isolation whatever the isolation of the suspended region, so its loop accepts every task (theorem
  suspended_thread_takes_any_task).  Tie: the filters of the task sources are translated from the C++ expressions, the
  initial isolation of the new dispatcher is OBSERVED white-box on the instrumented runtime (and checked in the source
  text); both are generated facts that the theorem's hypotheses pin.
* `Sleep` (Model/C20Sleep.lean) — resume versus the sleep of the arena's only thread (theorem resume_not_lost_by_sleep:
  the concurrent_monitor argument instantiated with coroutine_waiter's wake-up condition).  Tie: wake-up condition,
  has_tasks scan, push-then-advertise and recall-then-notify orders are generated facts pinned by the theorem.

Implementation-side monitors (continuation counter, ghost "resume called" flag, concurrent-continuation counter,
wait-returns-after-continuation, scheduler deadlock / livelock detection, "work spawned before the suspension is run by
the suspending thread meanwhile") check the property itself and produce the replays.  Schedules: seeded random, targeted
(foreign resume after k steps of the suspending thread) and STATE-GUIDED (harness/c20/sr.cpp GuidedSchedule: hold a
thread wherever it is, run another one until a condition on the live runtime state holds) — used to drive the suspending
thread through its idle back-off into out_of_work() and the sleep, with the foreign resume() (whole, and split at every
one of its own scheduling points) or the owner recall released at EVERY scheduling point of that path."""
import json
import os
import re
from concurrent.futures import ThreadPoolExecutor

import cexpr
import common
from common import REPO, cxx_build, drv, gen_write, log, sh

NCPU = common.NCPU
TIMEOUT = 60          # seconds per run (a normal run takes 0.03 s, a detected deadlock or livelock < 0.5 s; a guided run of
                      # 20 000 points alternates between two real threads and can take many seconds on an overloaded machine)
ENOUGH = 12           # stop launching runs once this many runs violated a monitor (a broken tree fails almost every run)


# ------------------------------------------------------------------------------------------------------------------
# E-GEN
# ------------------------------------------------------------------------------------------------------------------
def _src(rel):
    return open(os.path.join(REPO, rel)).read()


def _nocomment(t):
    t = re.sub(r"/\*.*?\*/", " ", t, flags=re.S)
    return re.sub(r"//[^\n]*", "", t)


def _body(text, head_re):
    """text of the {...} block that follows the first match of head_re (comments stripped), or None"""
    text = _nocomment(text)
    m = re.search(head_re, text)
    if not m:
        return None
    i = text.find("{", m.end() - 1)
    if i < 0:
        return None
    d = 0
    for j in range(i, len(text)):
        if text[j] == "{":
            d += 1
        elif text[j] == "}":
            d -= 1
            if d == 0:
                return text[i + 1:j]
    return None


ISO_ENV = {"isolation": ("isolation", "u64"), "no_isolation": ("(0 : Nat)", "u64"), "task_iso": ("task_iso", "u64"),
           "fifo_allowed": ("true", "bool")}


def _iso_expr(ck, what, text, fallback):
    """translate a C++ isolation test to Lean over (isolation task_iso : Nat); record an obligation"""
    if text is None:
        ck.oblige("gen:%s — expression found in the source" % what, "generated", False, "pattern not found")
        return fallback
    e = re.sub(r"task_accessor::isolation\(\s*\*\s*\w+\s*\)", "task_iso", text.strip())
    try:
        lean, _ = cexpr.translate(e, ISO_ENV, want="bool")
        ck.oblige("gen:%s — expression found in the source" % what, "generated", True, e)
        return lean
    except cexpr.CExprError as ex:
        ck.oblige("gen:%s — expression found in the source" % what, "generated", False, "cannot translate `%s`: %s" % (e, ex))
        return fallback


def gen_static(ck):
    """E-GEN, source-text part.  Returns the Lean definitions (without the observed coroutine isolation)."""
    exe = cxx_build("C20", "consts", ["harness/c20/consts.cpp"], flags=["-O0", "-fno-access-control", "-D__TBB_BUILD", "-I" + REPO + "/src"])
    rc, out, err = sh([exe], timeout=60)
    c = json.loads(out)
    ck.extra["generated_constants"] = c
    lean = "".join("def %s : Nat := %d\n" % (k, v) for k, v in sorted(c.items()))
    src = _src("src/tbb/scheduler_common.h")
    m = re.search(r"std::atomic<stack_state>\s+m_stack_state\s*\{\s*stack_state::(\w+)\s*\}", src)
    ck.oblige("gen:m_stack_state starts as `active` (default member initialiser in scheduler_common.h)", "generated",
              bool(m) and m.group(1) == "active", "found: %s" % (m.group(0) if m else "no initialiser matched"))
    m2 = re.search(r"//\s*Possible state transitions:\s*\n\s*//\s*(.*)\n\s*//\s*(.*)\n", src)
    doc = [re.sub(r"\s+", "", x) for x in m2.groups()] if m2 else []
    ck.extra["documented_chains"] = doc
    ck.oblige("gen:documented transition chains are A->S->N->A and A->N->S->N->A (comment in scheduler_common.h; theorem stack_state_chains)",
              "generated", doc == ["A->S->N->A", "A->N->S->N->A"], "comment says: %s" % doc)

    # ---- the sleeper's side: coroutine_waiter::pause, arena::is_empty, arena::has_tasks -------------------------------
    facts = {}
    w = _body(_src("src/tbb/waiters.h"), r"class\s+coroutine_waiter\b[^{;]*\{")
    pm = re.search(r"auto\s+wakeup_condition\s*=\s*\[&\]\s*\{\s*return\s+(.*?);\s*\}\s*;", w or "", re.S)
    pred_txt, pred_lean = (pm.group(1).strip() if pm else None), "false"
    if pred_txt:
        e = re.sub(r"my_arena\.is_empty\(\)", "(!non_empty)", pred_txt)
        e = re.sub(r"sp->m_is_owner_recalled(\.load\([^)]*\))?", "recalled", e)
        try:
            pred_lean = cexpr.translate(e, {"non_empty": ("non_empty", "bool"), "recalled": ("recalled", "bool")}, want="bool")[0]
        except cexpr.CExprError as ex:
            pred_txt = None
            facts["wakeup_condition_error"] = "%s: %s" % (e, ex)
    facts["coroutine_waiter wakeup_condition"] = pred_txt
    ck.oblige("gen:coroutine_waiter::pause — wake-up condition found and translated (waiters.h)", "generated", bool(pred_txt),
              pred_txt or facts.get("wakeup_condition_error", "lambda `wakeup_condition` not found in class coroutine_waiter"))
    lean += "/-- coroutine_waiter::pause: `%s` -/\ndef coWakeupPred (non_empty recalled : Bool) : Bool := %s\n" % (pred_txt, pred_lean)
    ah = _nocomment(_src("src/tbb/arena.h"))
    ie = re.search(r"bool\s+is_empty\(\)\s*\{\s*return\s+(.*?);\s*\}", ah)
    te = re.search(r"bool\s+test\([^)]*\)\s*\{\s*return\s+(.*?);\s*\}", ah)
    ok_ie = bool(ie) and re.sub(r"\s+", "", ie.group(1)) == "my_pool_state.test()==false"
    ok_te = bool(te) and re.sub(r"\s+", "", te.group(1)) == "my_state.load(order)!=UNSET"
    ck.oblige("gen:arena::is_empty() is `my_pool_state.test() == false` and atomic_flag::test is `state != UNSET` (the model's `pool ≠ unset`)",
              "generated", ok_ie and ok_te, "is_empty: %s; test: %s" % (ie.group(1) if ie else None, te.group(1) if te else None))
    ht = _body(_src("src/tbb/arena.cpp"), r"bool\s+arena::has_tasks\s*\(\s*\)\s*\{")
    scan_r = bool(ht) and bool(re.search(r"\|\|\s*!\s*my_resume_task_stream\.empty\(\)", ht))
    scan_c = bool(ht) and bool(re.search(r"\|\|\s*!\s*my_critical_task_stream\.empty\(\)", ht))
    facts["has_tasks scans resume / critical stream"] = [scan_r, scan_c]
    lean += "def hasTasksScansResume : Bool := %s\n" % ("true" if scan_r and scan_c else "false")
    # ---- the notifiers' side: r1::resume, post_resume_action::notify -----------------------------------------------------
    tc = _src("src/tbb/task.cpp")
    rb = _body(tc, r"\bvoid\s+resume\s*\(\s*suspend_point_type\s*\*\s*sp\s*\)\s*\{")
    blk = _body(rb or "", r"if\s*\(\s*sp->try_notify_resume\(\)\s*\)\s*\{") if rb else None
    pushes = [m.start() for m in re.finditer(r"\.push\s*\(", blk or "")]
    adv = re.search(r"\ba\.advertise_new_work\s*<\s*arena::wakeup\s*>\s*\(\s*\)\s*;", blk or "")
    depth_ok = False
    if adv:     # the call must be a statement of the block itself, not nested in a condition
        pre = blk[:adv.start()]
        depth_ok = pre.count("{") == pre.count("}")
    advertises = bool(adv) and depth_ok
    push_first = bool(pushes) and bool(adv) and all(x < adv.start() for x in pushes)
    pr = re.search(r"a\.my_resume_task_stream\.push\(\s*&sp->m_resume_task\s*,\s*random_lane_selector\(sp->m_random\)\s*\)", blk or "")
    pc = re.search(r"a\.my_critical_task_stream\.push\(\s*&sp->m_resume_task\s*,\s*random_lane_selector\(sp->m_random\)\s*\)", blk or "")
    cond = re.search(r"if\s*\(\s*task_disp\.m_properties\.critical_task_allowed\s*\)\s*\{[^{}]*my_resume_task_stream\.push", blk or "")
    ck.oblige("gen:r1::resume pushes &sp->m_resume_task with random_lane_selector into my_resume_task_stream (critical_task_allowed) "
              "else into my_critical_task_stream — the streams the dispatch loop and has_tasks() look at (task.cpp)", "generated",
              bool(pr and pc and cond), "resume-stream push: %s, critical-stream push: %s, selected by critical_task_allowed: %s" % (bool(pr), bool(pc), bool(cond)))
    facts["r1::resume advertises / push precedes"] = [advertises, push_first]
    lean += "def resumeAdvertises : Bool := %s\ndef resumePushFirst : Bool := %s\n" % (str(advertises).lower(), str(push_first).lower())
    pa = _body(tc, r"void\s+task_dispatcher::do_post_resume_action\s*\(\s*\)\s*\{")
    nb = _body(pa or "", r"case\s+post_resume_action::notify\s*:\s*\{") if pa else None
    i1 = (nb or "").find("sp->recall_owner()")
    m3 = re.search(r"get_waiting_threads_monitor\(\)\.notify\(\s*is_our_suspend_point\s*\)", nb or "")
    m4 = re.search(r"return\s+std::uintptr_t\(sp\)\s*==\s*ctx\.my_uniq_addr\s*;", nb or "")
    recall_ntf = i1 >= 0 and bool(m3) and m3.start() > i1 and bool(m4)
    facts["recall_owner() followed by notify(is_our_suspend_point)"] = recall_ntf
    lean += "def recallNotifies : Bool := %s\n" % str(recall_ntf).lower()
    # ---- the dispatch context: task-source filters -------------------------------------------------------------------------
    asl = _nocomment(_src("src/tbb/arena_slot.cpp"))
    gt = _body(asl, r"arena_slot::get_task_impl\s*\([^)]*\)\s*\{")
    m = re.search(r"bool\s+omit\s*=\s*(.*?);", gt or "")
    lean += "def omitLocal (isolation task_iso : Nat) : Bool := %s\n" % _iso_expr(ck, "arena_slot::get_task_impl `omit`", m.group(1) if m else None, "true")
    st = _body(asl, r"arena_slot::steal_task\s*\([^)]*\)\s*\{")
    m = re.search(r"if\s*\(\s*result\s*\)\s*\{\s*if\s*\((.*?)\)\s*\{", st or "", re.S)
    lean += "def stealOk (isolation task_iso : Nat) : Bool := %s\n" % _iso_expr(ck, "arena_slot::steal_task isolation test", m.group(1) if m else None, "false")
    mb = _body(_src("src/tbb/mailbox.h"), r"task_proxy\s*\*\s*internal_pop\s*\(\s*isolation_type\s+isolation\s*\)\s*\{")
    m = re.search(r"if\s*\(\s*([^(){};]*?)\s*\)\s*\{\s*while\s*\(\s*([^{};]*?)\s*\)\s*\{", mb or "")
    lean += "def mailSkip (isolation task_iso : Nat) : Bool := %s\n" % _iso_expr(
        ck, "mail_outbox::internal_pop skip test", "(%s) && (%s)" % (m.group(1), m.group(2)) if m else None, "true")
    td = _nocomment(_src("src/tbb/task_dispatcher.h"))
    m = re.search(r"else\s+if\s*\(\s*(fifo_allowed\s*&&[^\n]*?)\s*\n\s*&&\s*\(t\s*=\s*get_stream_or_critical_task\(ed,\s*a,\s*fifo_stream", td)
    lean += "def fifoOk (isolation : Nat) : Bool := %s\n" % _iso_expr(ck, "receive_or_steal_task fifo-stream test", m.group(1) if m else None, "false")
    gc = _body(ah, r"arena::get_critical_task\s*\(\s*unsigned\s*&\s*hint\s*,\s*isolation_type\s+isolation\s*\)\s*\{")
    m = re.search(r"if\s*\(\s*([^(){};]*?)\s*\)\s*\{\s*return\s+my_critical_task_stream\.pop_specific", gc or "")
    lean += "def critSpecific (isolation : Nat) : Bool := %s\n" % _iso_expr(ck, "arena::get_critical_task pop_specific test", m.group(1) if m else None, "true")
    # ---- the dispatch context: where the isolation of a coroutine's dispatcher comes from (source text) ----------------------
    ed = _body(src, r"struct\s+execution_data_ext\s*:\s*d1::execution_data\s*\{")
    init_ok = bool(ed) and bool(re.search(r"isolation_type\s+isolation\s*\{\s*\}\s*;", ed))
    ctor = _body(td, r"inline\s+task_dispatcher::task_dispatcher\s*\(\s*arena\s*\*\s*a\s*\)\s*\{")
    tdc = _src("src/tbb/task_dispatcher.cpp")
    bodies = {"task_dispatcher::task_dispatcher": ctor,
              "create_coroutine": _body(tc, r"task_dispatcher\s*&\s*create_coroutine\s*\(\s*thread_data\s*&\s*td\s*\)\s*\{"),
              "task_dispatcher::internal_suspend": _body(tc, r"void\s+task_dispatcher::internal_suspend\s*\(\s*\)\s*\{"),
              "task_dispatcher::resume": _body(tc, r"bool\s+task_dispatcher::resume\s*\(\s*task_dispatcher\s*&\s*target\s*\)\s*\{"),
              "task_dispatcher::co_local_wait_for_all": _body(tdc, r"void\s+task_dispatcher::co_local_wait_for_all\s*\(\s*\)\s*noexcept\s*\{"),
              "task_dispatcher::init_suspend_point": _body(tdc, r"void\s+task_dispatcher::init_suspend_point\s*\([^)]*\)\s*\{")}
    touching = [k for k, b in bodies.items() if b is None or re.search(r"isolation", b)]
    lw = _body(td, r"d1::task\s*\*\s*task_dispatcher::local_wait_for_all\s*\(\s*d1::task\s*\*\s*t\s*,\s*Waiter\s*&\s*waiter\s*\)\s*\{")
    loop_iso = bool(lw) and bool(re.search(r"const\s+isolation_type\s+isolation\s*=\s*dl_guard\.old_execute_data_ext\.isolation\s*;", lw))
    ck.oblige("gen:a new task_dispatcher starts with no isolation (`isolation_type isolation{}`), nothing on the path create_coroutine / "
              "internal_suspend / resume / co_local_wait_for_all / init_suspend_point mentions isolation, and a dispatch loop filters with the "
              "dispatcher's own saved value (source text)", "generated", init_ok and not touching and loop_iso,
              "default initialiser: %s; functions mentioning `isolation` (or not found): %s; loop takes dl_guard.old_execute_data_ext.isolation: %s" % (init_ok, touching, loop_iso))
    ck.extra["generated_facts"] = facts
    return lean



def gen_pool(ck):
    """E-GEN: the statement-order / guard skeleton of the switch, the post-resume actions and the co-cache (Pool.Skel).
    Every flag is `true` iff the source text shows the order the pool model is built on; a flag that turns false breaks
    theorem generated_pool_skeleton (and with it every pool theorem, which are stated for the generated skeleton)."""
    ah = _nocomment(_src("src/tbb/arena.h"))
    tc = _src("src/tbb/task.cpp")
    tdc = _src("src/tbb/task_dispatcher.cpp")
    tdh = _src("src/tbb/task_dispatcher.h")
    sch = _src("src/tbb/scheduler_common.h")
    flags, why = {}, {}

    def before(body, *pats):
        """all patterns occur in the body, in this order (first occurrences)"""
        pos = -1
        for p in pats:
            m = re.search(p, body or "")
            if not m or m.start() <= pos:
                return False
            pos = m.start()
        return True

    cc = _body(ah, r"class\s+arena_co_cache\b[^{;]*\{")
    popb = _body(cc or "", r"task_dispatcher\s*\*\s*pop\s*\(\s*\)\s*\{")
    mret = re.search(r"(\w+)\s*=\s*my_co_scheduler_cache\[\s*my_head\s*\]\s*;", popb or "")
    rv = mret.group(1) if mret else "to_return"
    flags["poolPopClears"] = before(popb, r"my_head\s*=\s*prev_index\(\)\s*;", r"%s\s*=\s*my_co_scheduler_cache\[\s*my_head\s*\]\s*;" % rv,
                                    r"my_co_scheduler_cache\[\s*my_head\s*\]\s*=\s*nullptr\s*;", r"return\s+%s\s*;" % rv) and \
        before(popb, r"scoped_lock\s+lock\(\s*my_co_cache_mutex\s*\)", r"internal_empty\(\)")
    colw = _body(tdc, r"void\s+task_dispatcher::co_local_wait_for_all\s*\(\s*\)\s*noexcept\s*\{")
    resb = _body(tc, r"bool\s+task_dispatcher::resume\s*\(\s*task_dispatcher\s*&\s*target\s*\)\s*\{")
    spres = _body(sch, r"void\s+resume\s*\(\s*suspend_point_type\s*\*\s*sp\s*\)\s*\{")
    fin = _body(sch, r"void\s+finilize_resume\s*\(\s*\)\s*\{")
    flags["poolFinalizeFirst"] = (
        before(colw, r"m_suspend_point->finilize_resume\(\)\s*;", r"do_post_resume_action\(\)\s*;", r"local_wait_for_all\(") and
        before(resb, r"\w+->detach_task_dispatcher\(\)\s*;", r"\w+->attach_task_dispatcher\(target\)\s*;", r"m_suspend_point->resume\(target\.m_suspend_point\)\s*;",
               r"do_post_resume_action\(\)\s*;", r"m_is_owner_recalled\.store\(\s*false") and
        before(spres, r"sp->m_prev_suspend_point\s*=\s*this\s*;", r"m_co_context\.resume\(sp->m_co_context\)\s*;", r"finilize_resume\(\)\s*;") and
        before(fin, r"m_stack_state\.store\(\s*stack_state::active", r"m_prev_suspend_point->m_stack_state\.exchange\(\s*stack_state::suspended\s*\)\s*==\s*stack_state::notified",
               r"r1::resume\(m_prev_suspend_point\)\s*;", r"m_prev_suspend_point\s*=\s*nullptr\s*;"))
    isus = _body(tc, r"void\s+task_dispatcher::internal_suspend\s*\(\s*\)\s*\{")
    mr = re.search(r"(\w+)\s*=\s*(\w+)\.get_suspend_point\(\)->m_is_owner_recalled\.load\(", isus or "")
    mt = re.search(r"(\w+)\s*=\s*(\w+)\s*\?\s*(\w+)\s*:\s*create_coroutine\(", isus or "")
    flags["poolRecallChecked"] = bool(mr and mt) and mt.group(2) == mr.group(1) and mt.group(3) == mr.group(2) and \
        bool(re.search(r"task_dispatcher\s*&\s*%s\s*=\s*slot->default_task_dispatcher\(\)\s*;" % mr.group(2), isus)) and \
        before(isus, r"m_is_owner_recalled\.load\(", r"create_coroutine\(", r"resume\(%s\)\s*;" % mt.group(1))
    tgt = mt.group(1) if mt else "target"
    crc = _body(tc, r"task_dispatcher\s*&\s*create_coroutine\s*\(\s*thread_data\s*&\s*td\s*\)\s*\{")
    create_ok = before(crc, r"my_co_cache\.pop\(\)\s*;", r"if\s*\(\s*!task_disp\s*\)", r"init_suspend_point\(", r"my_references\s*\+=\s*arena::ref_external\s*;", r"return\s+\*task_disp\s*;")
    rpt = _body(tdh, r"inline\s+void\s+task_dispatcher::recall_point\s*\(\s*\)\s*\{")
    rte = _body(tdh, r"suspend_point_type::resume_task::execute\s*\([^)]*\)\s*\{")
    flags["poolActionBeforeSwitch"] = (
        before(colw, r"set_post_resume_action\(\s*post_resume_action::cleanup\s*,\s*this\s*\)\s*;", r"while\s*\(\s*resume\(") and
        before(rpt, r"set_post_resume_action\(\s*post_resume_action::notify\s*,\s*get_suspend_point\(\)\s*\)\s*;", r"internal_suspend\(\)\s*;") and
        before(rte, r"set_post_resume_action\(\s*task_dispatcher::post_resume_action::register_waiter", r"wait_list\.wait\(", r"\w+->clear_post_resume_action\(\)\s*;",
               r"r1::resume\(ed_ext\.task_disp->get_suspend_point\(\)\)\s*;", r"set_post_resume_action\(\s*task_dispatcher::post_resume_action::notify",
               r"ed_ext\.task_disp->resume\(m_target\)\s*;") and create_ok)
    pra = _body(tc, r"void\s+task_dispatcher::do_post_resume_action\s*\(\s*\)\s*\{")
    tail = (pra or "").rstrip()
    flags["poolClearsAction"] = bool(re.search(r"\}\s*\w+->clear_post_resume_action\(\)\s*;\s*$", tail)) and \
        before(pra, r"switch\s*\(\s*\w+->my_post_resume_action\s*\)", r"case\s+post_resume_action::register_waiter\s*:", r"->notify\(\)\s*;",
               r"case\s+post_resume_action::cleanup\s*:", r"case\s+post_resume_action::notify\s*:")
    cl = _body(pra or "", r"case\s+post_resume_action::cleanup\s*:\s*\{")
    mc = re.search(r"(\w+)\s*=\s*static_cast<task_dispatcher\*>\(\w+->my_post_resume_arg\)\s*;", cl or "")
    cv = mc.group(1) if mc else "to_cleanup"
    flags["poolCleanupCaches"] = before(cl, r"%s\s*=\s*static_cast<task_dispatcher\*>\(\w+->my_post_resume_arg\)\s*;" % cv, r"on_thread_leaving\(\s*arena::ref_external\s*\)\s*;",
                                        r"my_co_cache\.push\(\s*%s\s*\)\s*;" % cv) and not re.search(r"~task_dispatcher|cache_aligned_deallocate|delete", cl or "")
    lw = _body(_nocomment(tdh), r"d1::task\s*\*\s*task_dispatcher::local_wait_for_all\s*\(\s*d1::task\s*\*\s*t\s*,\s*Waiter\s*&\s*waiter\s*\)\s*\{")
    flags["poolRecallPointGuard"] = (
        before(rpt, r"if\s*\(\s*this\s*!=\s*&m_thread_data->my_arena_slot->default_task_dispatcher\(\)\s*\)\s*\{", r"set_post_resume_action\(") and
        bool(re.search(r"if\s*\(\s*dl_guard\.old_properties\.outermost\s*\)\s*\{\s*recall_point\(\)\s*;\s*\}", lw or "")) and
        before(isus, r"resume\(%s\)\s*;" % tgt, r"if\s*\(\s*m_properties\.outermost\s*\)\s*\{\s*recall_point\(\)\s*;\s*\}"))
    rb = _body(tc, r"\bvoid\s+resume\s*\(\s*suspend_point_type\s*\*\s*sp\s*\)\s*\{")
    tnr = _body(sch, r"bool\s+try_notify_resume\s*\(\s*\)\s*\{")
    blk = _body(rb or "", r"if\s*\(\s*sp->try_notify_resume\(\)\s*\)\s*\{") if rb else None
    outside = (rb or "").replace(blk or "\0", "") if blk else (rb or "")
    flags["poolXchgThenPush"] = bool(blk) and bool(re.search(r"\.push\(\s*&sp->m_resume_task", blk)) and not re.search(r"\.push\(", outside) and \
        bool(re.search(r"return\s+m_stack_state\.exchange\(\s*stack_state::notified\s*\)\s*==\s*stack_state::suspended\s*;", tnr or ""))
    gsr = _body(tdh, r"inline\s+d1::task\s*\*\s*get_self_recall_task\s*\(\s*arena_slot\s*&\s*slot\s*\)\s*\{")
    flags["poolSelfRecallChecked"] = before(gsr, r"sp\s*=\s*slot\.default_task_dispatcher\(\)\.m_suspend_point\s*;",
                                            r"if\s*\(\s*sp\s*&&\s*sp->m_is_owner_recalled\.load\(", r"t\s*=\s*&sp->m_resume_task\s*;")
    m = re.search(r"my_co_cache\.init\(\s*(\d+)\s*\*\s*num_slots\s*\)\s*;", _nocomment(_src("src/tbb/arena.cpp")))
    factor = int(m.group(1)) if m else 0
    ck.oblige("gen:co-cache capacity is `<k> * num_slots` with k >= 1 (arena.cpp `my_co_cache.init`)", "generated", factor >= 1, "k = %s" % (factor if m else "pattern not found"))
    # the dead field the property text mentions: m_is_critical (informational; the stream of a resume task is selected by the
    # target's m_properties.critical_task_allowed, pinned by the r1::resume obligation above)
    uses = []
    for f in sorted(os.listdir(os.path.join(REPO, "src/tbb"))):
        if f.endswith((".h", ".cpp")):
            for i, l in enumerate(_nocomment(_src("src/tbb/" + f)).split("\n")):
                if "m_is_critical" in l:
                    uses.append("%s:%d" % (f, i + 1))
    ck.extra["m_is_critical_occurrences"] = uses
    ck.extra["pool_skeleton"] = flags
    lean = "/-- arena_co_cache capacity = coCacheFactor * num_slots (arena.cpp `my_co_cache.init`) -/\ndef coCacheFactor : Nat := %d\n" % factor
    for k in ["poolPopClears", "poolFinalizeFirst", "poolRecallChecked", "poolActionBeforeSwitch", "poolClearsAction", "poolCleanupCaches",
              "poolRecallPointGuard", "poolXchgThenPush", "poolSelfRecallChecked"]:
        lean += "def %s : Bool := %s\n" % (k, "true" if flags[k] else "false")
    return lean, factor


def gen_wait(ck):
    """E-GEN for the Wait model: in the three kinds of tasks whose suspension the property talks about the body is called
    before finalize releases the reference of the wait object."""
    tg = _nocomment(_src("include/oneapi/tbb/task_group.h"))
    pf = _nocomment(_src("include/oneapi/tbb/parallel_for.h"))
    ac = _nocomment(_src("src/tbb/arena.cpp"))

    def order(body, *pats):
        pos = -1
        for p in pats:
            m = re.search(p, body or "")
            if not m or m.start() <= pos:
                return False
            pos = m.start()
        return True

    ft = _body(tg, r"class\s+function_task\s*:\s*public\s+task_handle_task\s*\{")
    fte = _body(ft or "", r"d1::task\s*\*\s*execute\s*\(\s*d1::execution_data\s*&\s*ed\s*\)\s*override\s*\{")
    a1 = order(fte, r"task_ptr_or_nullptr\(\s*m_func\s*\)", r"finalize\(\s*&ed\s*\)\s*;", r"return\s+res\s*;")
    thh = _nocomment(_src("include/oneapi/tbb/detail/_task_handle.h"))
    tht = _body(thh, r"class\s+task_handle_task\s*:\s*public\s+d1::task\s*\{")
    fin = _body(tht or "", r"void\s+finalize\s*\([^)]*\)\s*\{")
    dtor = _body(tht or "", r"~task_handle_task\s*\(\s*\)\s*override\s*\{")
    # finalize destroys the task object; its destructor releases the reference that the constructor reserved
    a1 = a1 and bool(re.search(r"m_allocator\.delete_object\(\s*this", fin or "")) and bool(re.search(r"m_wait_tree_vertex->release\(\)\s*;", dtor or "")) and \
        bool(re.search(r"m_wait_tree_vertex->reserve\(\)\s*;", tht or ""))
    sfe = _body(pf, r"task\s*\*\s*start_for\s*<\s*Range\s*,\s*Body\s*,\s*Partitioner\s*>::execute\s*\(\s*execution_data\s*&\s*ed\s*\)\s*\{")
    a2 = order(sfe, r"my_partition\.execute\(\s*\*this\s*,\s*my_range\s*,\s*ed\s*\)\s*;", r"finalize\(\s*ed\s*\)\s*;")
    sff = _body(pf, r"void\s+start_for\s*<\s*Range\s*,\s*Body\s*,\s*Partitioner\s*>::finalize\s*\(\s*const\s+execution_data\s*&\s*ed\s*\)\s*\{")
    a2 = a2 and bool(re.search(r"fold_tree\s*<\s*tree_node\s*>\s*\(", sff or ""))
    dt = _body(ac, r"class\s+delegated_task\s*:\s*public\s+d1::task\s*\{")
    dte = _body(dt or "", r"d1::task\s*\*\s*execute\s*\(\s*d1::execution_data\s*&\s*ed\s*\)\s*override\s*\{")
    a3 = order(dte, r"m_delegate\(\)\s*;", r"finalize\(\)\s*;", r"return\s+nullptr\s*;")
    dtf = _body(dt or "", r"void\s+finalize\s*\(\s*\)\s*\{")
    a3 = a3 and order(dtf, r"m_wait_ctx\.release\(\)\s*;", r"m_monitor\.notify\(", r"m_completed\.store\(\s*true")
    ck.extra["wait_release_after_body"] = {"function_task (task_group::run)": a1, "start_for (parallel_for)": a2, "delegated_task (task_arena::execute)": a3}
    return "/-- function_task / start_for / delegated_task: the body runs, then finalize releases the wait reference -/\ndef waitReleaseAfterBody : Bool := %s\n" % ("true" if a1 and a2 and a3 else "false")


def ring_differential(ck, nseq):
    """E-PURE style: the real arena_co_cache (white box, real task_dispatcher objects) against the Lean ring model."""
    objs = common.shim_runtime_objects()
    exe = cxx_build("C20", "cc", ["harness/c20/cc.cpp", common.SHIM_SRC],
                    flags=["-O1", "-g", "-fno-access-control", "-I" + REPO + "/src"] + common.SHIM_FLAGS, libs=objs + ["-ldl"])
    rng = ck.rng
    lines, nops = [], 0
    for i in range(nseq):
        cap = rng.choice([1, 1, 2, 2, 3, 4, 5, 8])
        lines.append("init %d" % cap)
        inring, nxt = [], 0
        for j in range(rng.randrange(4, 40)):
            if rng.random() < 0.55:
                lines.append("push %d" % nxt)
                inring.append(nxt)
                nxt += 1
            else:
                lines.append("pop")
        lines.append("cleanup")
        nops += 1
    text = "\n".join(lines) + "\n"
    rc, out, err = sh([exe], input=text, timeout=120)
    impl = [l for l in out.split("\n") if l]
    try:
        model = drv("c20ring", text)
    except common.BuildError as e:
        return "ring model driver unavailable: %s" % e, 0
    if rc != 0 or len(impl) != len(lines):
        return "the co-cache harness failed (rc=%d, %d answers for %d operations) %s" % (rc, len(impl), len(lines), err[-200:]), 0
    for k, (l, a, b) in enumerate(zip(lines, impl, model)):
        if a.strip() != b.strip():
            j = k
            while j > 0 and not lines[j].startswith("init"):
                j -= 1
            ck.counterexample("co-cache-ring-differs-from-model", "arena_co_cache: after [%s] the implementation answers [%s], the model [%s]" % (" ; ".join(lines[j:k + 1]), a, b),
                              {"engine": "E-PURE arena_co_cache", "ops": lines[j:k + 1], "implementation": a, "model": b, "how": "build/C20/cc < ops"})
            return "operation %d [%s]: implementation [%s], model [%s]" % (k, l, a, b), len(lines)
    return None, len(lines)


def gen_finish(ck, lean, probe_runs):
    """E-GEN, observed part: the isolation of the dispatcher a suspending thread moves onto (white-box observation on the
    instrumented runtime, scenarios with a suspension inside this_task_arena::isolate), then write Generated/C20.lean."""
    n = first = idle = zero = 0
    for r in probe_runs:
        for k, x in r["susp"].items():
            if x.get("isolated") and x.get("co_seen"):
                n += 1
                first += x.get("co_inherit_first", 0)
                zero += x.get("co_zero", 0)
                if r["spec"]["modes"] == "F" and r["spec"]["nwork"] == 0 and r["spec"]["nest"] == 0:
                    idle += x.get("co_inherit_any", 0)
    inherits = first > 0 or idle > 0
    ck.extra["coroutine_isolation_observations"] = {"isolated suspensions observed": n, "new dispatcher had the suspender's tag at the first scheduling point": first,
                                                    "... at some point while idle": idle, "stayed 0": zero}
    ck.oblige("gen:the dispatcher a thread moves onto when it suspends inside this_task_arena::isolate was observed (white box, every scheduling point) "
              "and never carried the suspended region's isolation tag", "generated", n > 0 and not inherits,
              "observed %d isolated suspensions; inherited at first point: %d, while idle: %d" % (n, first, idle))
    lean += ("/-- isolation of the dispatcher a suspending thread moves onto, as a function of the suspender's (observed on %d suspensions) -/\n"
             "def coInit (suspender_iso : Nat) : Nat := %s\n" % (n, "suspender_iso" if inherits else "0" if n else "suspender_iso + 1"))
    gen_write("C20", lean)


# ------------------------------------------------------------------------------------------------------------------
# running one scenario
# ------------------------------------------------------------------------------------------------------------------
def build():
    objs = common.shim_runtime_objects()
    return cxx_build("C20", "sr", ["harness/c20/sr.cpp", common.SHIM_SRC],
                     flags=["-O1", "-g", "-fno-access-control", "-I" + REPO + "/src"] + common.SHIM_FLAGS, libs=objs + ["-ldl"])


def spec_args(spec):
    a = [spec["container"], str(spec["P"]), spec["modes"], str(spec["nwork"]), str(spec["nest"])]
    if spec["mode"] == "rand":
        return a + ["rand", str(spec["seed"])]
    if spec["mode"] == "target":
        return a + ["target", str(spec["k"]), str(spec["seed"])]
    if spec["mode"] == "guide":
        return a + ["guide", str(spec["seed"]), spec["guide"]]
    return a + ["replay", spec["schedule"]] + (["ticker"] if spec.get("ticker") else [])


def spec_name(spec):
    how = ("rand seed=%d" % spec["seed"] if spec["mode"] == "rand" else
           "target k=%d seed=%d" % (spec["k"], spec["seed"]) if spec["mode"] == "target" else
           "guide seed=%d [%s]" % (spec["seed"], spec["guide"]) if spec["mode"] == "guide" else "replay")
    return "%s P=%d modes=%s nwork=%d nest=%d %s" % (spec["container"], spec["P"], spec["modes"], spec["nwork"], spec["nest"], how)


def run_one(exe, spec):
    rc, out, err = sh([exe] + spec_args(spec), timeout=TIMEOUT)
    r = {"spec": spec, "rc": rc, "sps": {}, "disp": {}, "ev": [], "mon": [], "stat": {}, "susp": {}, "guides": [], "sched": "", "err": err[-400:]}
    for l in out.split("\n"):
        w = l.split()
        if not w:
            continue
        if w[0] == "e":
            if len(w) >= 8 or (len(w) >= 6 and w[2] == "note"):
                r["ev"].append(w[1:])
        elif w[0] == "sp":
            r["sps"][w[1]] = w[2:]
        elif w[0] == "disp":
            r["disp"][w[1]] = w[2:]
        elif w[0] in ("mon", "mon+"):
            r["mon"].append(" ".join(w[1:]))
        elif w[0] == "stat" and w[1] == "guide":
            r["guides"].append({w[i]: int(w[i + 1]) for i in range(3, len(w) - 1, 2)})
        elif w[0] == "stat" and w[1] == "susp":
            r["susp"][int(w[2])] = {w[i]: int(w[i + 1]) for i in range(3, len(w) - 1, 2)}
        elif w[0] == "stat" and w[1] == "count_samples":
            r["count_samples"] = int(w[2])
        elif w[0] == "stat":
            r["stat"] = {w[i]: int(w[i + 1]) for i in range(1, len(w) - 1, 2)}
        elif w[0] == "sched":
            r["sched"] = w[1] if len(w) > 1 else ""
    return r


# ------------------------------------------------------------------------------------------------------------------
# trace -> model validation lines (one model instance per suspend point, and per occupant of a slot's default dispatcher)
# ------------------------------------------------------------------------------------------------------------------
def model_lines(r):
    """Returns (lines, meta): meta[i] = (sp, description of the event) for every line; instances separated by reset."""
    ev = r["ev"]
    ntid = 1 + max([int(e[0]) for e in ev] + [0])
    sps = sorted(r["sps"].keys())
    # per-sp event index lists on .ss (for look-ahead)
    ss_events = {s: [] for s in sps}
    for i, e in enumerate(ev):
        if e[1] in ("xchg", "store") and e[2].endswith(".ss") and e[2][:-3] in ss_events:
            ss_events[e[2][:-3]].append(i)
    occupant = {}                # "ar.slot" -> tid
    lines = {s: [] for s in sps}  # sp -> list of (line, desc)
    started = {}                 # sp -> owner used at reset
    cb_open = {}                 # sp -> tid with a callback running (not yet left)
    leaver = {}                  # sp -> tid currently finishing its leave
    pendpush = {}                # tid -> sp
    lastntf = {}                 # tid -> sp of its most recent notify exchange
    onstack = {}                 # sp -> thread executing on that stack
    susp_sp = {}                 # suspension index -> sp
    in_task = set()              # suspension indices that run inside a covered task
    covered_sps = set()
    in_submit = set()
    unmatched_loads = 0

    def owner_of(s):
        kind = r["sps"][s]
        if kind and kind[0] == "slot":
            return occupant.get(kind[1])
        return None

    def ensure(s, tid_hint=None):
        if s not in started:
            o = owner_of(s)
            kind0 = r["sps"][s]
            if o is None and kind0 and kind0[0] == "slot" and tid_hint is not None:
                o = tid_hint        # a slot of an arena whose occupancy words are not named (temporary arena): its first user owns it
            started[s] = o
            if o is not None:
                onstack[s] = o
            lines[s].append(("reset %s %d" % ("-" if o is None else o, ntid), "reset"))
        else:
            o = owner_of(s)
            kind = r["sps"][s]
            if kind and kind[0] == "slot" and o is not None and o != started[s]:
                # the slot got a new occupant: a new thread now lives on this default dispatcher (new model instance)
                lines[s].append(("end", "end"))
                lines[s].append(("reset %d %d" % (o, ntid), "reset"))
                started[s] = o
                onstack[s] = o

    def add(s, line, desc):
        w = line.split()
        ensure(s, int(w[1]) if len(w) > 1 and w[1].isdigit() else None)
        lines[s].append((line, desc))

    for i, e in enumerate(ev):
        t = int(e[0])
        if e[1] == "note":
            tag = e[2]
            if tag == "task_begin":
                if not (r["spec"]["nest"] & 16):     # (inside a nested task_arena::execute the suspended stack is the nested arena's, not the task's)
                    in_task.add(int(e[3]))
            elif tag == "cb":
                s, k = e[3], int(e[4])
                if s in lines:
                    susp_sp[k] = s
                    if k in in_task:
                        add(s, "reserve %d" % t, "reserve")
                        add(s, "begin %d" % t, "task_begin %d" % k)
                        covered_sps.add(s)
                    add(s, "cb %d" % t, "callback of suspension %d" % k)
                    cb_open[s] = t
            elif tag == "resume_call":
                s = e[3]
                if s in lines:
                    add(s, "resumecall %d" % t, "resume() call for suspension %s" % e[4])
            elif tag == "cont":
                k = int(e[3])
                if k in susp_sp:
                    add(susp_sp[k], "cont %d" % t, "continuation of suspension %d" % k)
            elif tag == "task_end":
                k = int(e[3])
                if k in susp_sp and k in in_task:
                    add(susp_sp[k], "end %d" % t, "task_end %d" % k)
            elif tag == "wait_done":
                for s in sorted(covered_sps):
                    add(s, "waitcheck %d 1" % t, "wait returned")
            elif tag == "submit_begin":
                in_submit.add(t)
            elif tag == "submit_end":
                in_submit.discard(t)
            continue
        kind, var = e[1], e[2]
        if var.startswith("occ"):
            slot = var[3:]
            if kind == "xchg" and e[4] == "0" and e[5] == "1":
                occupant[slot] = t
            elif kind == "store" and e[4] == "1":
                occupant[slot] = t
            continue
        if var.startswith("rts") or var.startswith("cts"):
            if kind == "for" and t in in_submit:
                continue                 # the harness itself publishes a critical task (r1::submit): not a resume task
            if kind == "for":
                s = pendpush.pop(t, None) or lastntf.get(t)
                if s is not None:
                    add(s, "push %d" % t, "resume task pushed (%s)" % var)
                else:
                    return None, "thread %d published into %s without a preceding notify exchange" % (t, var), 0
            continue
        if "." not in var:
            continue             # pool state, monitor epoch / wait-set size: the Sleep model's words (validate_sleep)
        s, fld = var.rsplit(".", 1)
        if s not in lines:
            continue
        if kind == "load":
            unmatched_loads += 1
            continue
        if fld == "rc":
            if kind == "store":
                add(s, "store %d rc %s %s" % (t, e[4], e[5]), "store recalled")
            else:
                add(s, "unknown %s" % " ".join(e), "unexpected access kind on m_is_owner_recalled")
            continue
        # m_stack_state
        if kind == "xchg":
            old, new = e[4], e[5]
            if new == "1":
                if leaver.get(s) != t:
                    if cb_open.get(s) == t:
                        k = "user"
                        cb_open.pop(s, None)
                    else:
                        # look ahead: what happens next on this state word decides which kind of leave this is
                        nxt = [j for j in ss_events[s] if j > i]
                        k = "park"
                        if nxt:
                            f = ev[nxt[0]]
                            if f[1] == "store" and f[4] != "0" and int(f[0]) == t:
                                k = "recall"
                            elif f[1] == "xchg" and f[5] == "2":
                                k = "wait"
                    add(s, "leave %d %s" % (t, k), "leave (%s)" % k)
                    leaver[s] = t
                    onstack.pop(s, None)
                add(s, "xchg %d %s %s" % (t, old, new), "finilize_resume exchange(suspended)")
                if old != "2":
                    # leave finished unless recall/park post action follows (tracked by the model itself)
                    pass
            elif new == "2":
                ensure(s)
                if onstack.get(s) == t and cb_open.get(s) != t:
                    # resume_task::execute found the enclosing wait already complete: the thread calls r1::resume on the
                    # suspend point of the stack it is still running on, then switches away (same protocol as a callback
                    # that resumes its own suspend point)
                    add(s, "cb %d" % t, "runtime resumes its own stack before leaving it (resume_task::execute, wait complete)")
                    cb_open[s] = t
                add(s, "xchg %d %s %s" % (t, old, new), "try_notify_resume exchange(notified)")
                lastntf[t] = s
                if old == "1":
                    pendpush[t] = s
            else:
                add(s, "unknown %s" % " ".join(e), "exchange of an unexpected value")
        elif kind == "store":
            new, old = e[4], e[5]
            add(s, "store %d ss %s %s" % (t, new, old), "store(%s)" % {"0": "active", "1": "suspended", "2": "notified"}.get(new, new))
            if new == "0":
                leaver.pop(s, None)
                onstack[s] = t
        else:
            add(s, "unknown %s" % " ".join(e), "unexpected access kind on m_stack_state")
    out, meta = [], []
    for s in sps:
        if not lines[s]:
            continue
        for (l, d) in lines[s]:
            out.append(l)
            meta.append((s, d, l))
        out.append("end")
        meta.append((s, "end", "end"))
    return (out, meta), None, unmatched_loads


def validate(r):
    """Validate one run's trace on the Lean model.  Returns (problem or None, recs, loads)."""
    lm, prob, loads = model_lines(r)
    if prob:
        return prob, [], 0
    lines, meta = lm
    if not lines:
        return "the run produced no events on any suspend point", [], 0
    out = drv("c20", "\n".join(lines) + "\n")
    if len(out) != len(lines):
        return "model driver produced %d lines for %d inputs" % (len(out), len(lines)), [], 0
    recs = []
    deadlock = r["stat"].get("deadlock", 0)
    for (s, d, l), o in zip(meta, out):
        if o.startswith("MISMATCH") or o == "bad-op":
            return "%s: %s [%s] -> %s" % (s, d, l, o), recs, loads
        if l == "end":
            m = re.match(r"summary fail=(\d) bad=(\d) waitBad=(\d) misuse=(\d) events=(\d+) rounds=(\d+) done=(\d+) quiet=(\d) ss=(\w) queue=(\d+) wc=(\d+) recs=(.*)", o)
            if not m:
                return "%s: unreadable summary %s" % (s, o), recs, loads
            if m.group(1) != "0" or m.group(2) != "0" or m.group(3) != "0" or m.group(4) != "0":
                return "%s: model flags at the end of the trace: %s" % (s, o[:160]), recs, loads
            if not deadlock and (m.group(8) != "1" or m.group(10) != "0"):
                return "%s: at the end of the run the model still has an unfinished operation or a queued resume task: %s" % (s, o[:200]), recs, loads
            recs += [(s,) + tuple(x.split(":")) for x in m.group(12).split()]
    return None, recs, loads


# ------------------------------------------------------------------------------------------------------------------
# trace -> Pool model (driver c20pool): stack switches, co-cache operations, post-resume actions of one arena
# ------------------------------------------------------------------------------------------------------------------
ACT_NAMES = {1: "register_waiter", 2: "cleanup", 3: "notify", 4: "none"}


def pool_lines(r, factor):
    """Returns ({arena: [(line, description)]}, problem).  One Pool instance per arena.  Model thread = slot index of the
    real thread in that arena (foreign threads: nt + real tid); model dispatcher = slot index for a slot's default
    dispatcher, nt, nt+1, ... in creation order for coroutines."""
    ev, disp = r["ev"], r["disp"]
    out = {}            # arena -> lines
    nt, nextco, mid = {}, {}, {}
    occupant = {}       # "a.i" -> real tid
    cur, phase, pend_act, rc_after_act, cleared_regw, selfres = {}, {}, {}, {}, {}, {}
    lastntf, pendpush, resume_called = {}, {}, {}
    mlvl = {}           # dispatcher name -> 0/1 as the model has it (slot dispatchers)
    popped = {}         # real tid -> [names] popped since its arena's reference count reached 0
    dying = {}          # real tid -> arena being destroyed by it
    wn_old = {}         # (tid) -> pending fadd on a notify counter: (dispatcher name, old value)
    in_submit = set()
    regw_state = {}     # dispatcher id string -> open (node registered, thread not switched yet) | switched | cancelled (wait was already complete)
    regw_open, early_wn = {}, {}   # dispatcher id string -> registrant that has not switched yet; -> monitor thread that notified its node already
    inpop, sawpop, pending_create = {}, {}, {}   # create_coroutine: lock ... unlock of the co-cache mutex without a pop = a new coroutine

    def arena_of(name):
        k = disp.get(name)
        if not k:
            return None
        return k[1].split(".")[0] if k[0] == "slot" else k[1]

    def lines(a):
        return out.setdefault(a, [])

    def model_id(a, name, create=False):
        k = disp[name]
        if k[0] == "slot":
            return int(k[1].split(".")[1])
        m = mid.setdefault(a, {})
        if name not in m:
            if not create:
                return None
            m[name] = nextco[a]
            nextco[a] += 1
        return m[name]

    def mtid(a, T):
        for slot, t in occupant.items():
            sa, si = slot.split(".")
            if sa == a and t == T:
                return int(si)
        return nt.get(a, 64) + T

    def add(a, line, desc):
        if a in nt:
            lines(a).append((line, desc))

    for e in ev:
        T = int(e[0])
        if e[1] == "note":
            tag = e[2]
            if tag == "rcap":
                a, cap = e[3], int(e[4])
                if cap % factor:
                    return None, "co-cache capacity %d is not a multiple of the generated factor %d" % (cap, factor)
                nt[a] = cap // factor
                nextco[a] = nt[a]
                lines(a).insert(0, ("init %d %d %d" % (nt[a], cap, nt[a] + 8), "init"))
            elif tag == "cb":
                name = e[3]
                a = arena_of(name)
                if a is not None:
                    add(a, "op %d suspend" % mtid(a, T), "suspend callback on %s" % name)
                    phase[T] = "cb"
            elif tag == "cb_end":
                a = arena_of(e[3])
                if a is not None:
                    add(a, "op %d cbret" % mtid(a, T), "callback returned")
                    phase[T] = "susp"
            elif tag == "resume_call":
                resume_called[T] = e[3]
            elif tag == "submit_begin":
                in_submit.add(T)
            elif tag == "submit_end":
                in_submit.discard(T)
            elif tag == "actset":
                kind = int(e[3])
                pend_act[T] = (kind, e[4])
                rc_after_act[T] = False
                cleared_regw[T] = False
                if kind == 1:
                    regw_open[e[4]] = T
                    regw_state[e[4]] = "open"
            elif tag == "actclr":
                if phase.get(T, "idle") == "idle" and (pend_act.get(T) or (0,))[0] == 1:
                    cleared_regw[T] = True      # resume_task::execute: the nested wait is already complete
                    for k in [k for k, v in regw_open.items() if v == T]:
                        regw_open.pop(k)
                        regw_state[k] = "cancelled"
                        early_wn.pop(k, None)   # (a notification of the node that was never waited on has no effect)
                pend_act[T] = None
            elif tag == "att":
                new = "D" + e[3]
                old = cur.get(T)
                cur[T] = new
                a = arena_of(new)
                if a is None or a not in nt:
                    continue
                if disp[new][0] == "slot" and new not in mlvl:
                    mlvl[new] = 0
                if old is None or arena_of(old) != a:
                    phase[T] = "idle"
                    continue            # the thread entered the arena (or came back from another one)
                t = mtid(a, T)
                mo, mn = model_id(a, old), None
                if disp[new][0] == "co" and new not in mid.get(a, {}):
                    if T in pending_create:
                        mn = pending_create.pop(T)
                        mid.setdefault(a, {})[new] = mn
                        crt = None
                    else:
                        mn = model_id(a, new, create=True)
                        crt = ("ev %d create %d" % (t, mn), "new coroutine %s" % new)
                else:
                    mn = model_id(a, new)
                    crt = None
                if phase.get(T, "idle") == "idle":
                    pa = pend_act.get(T)
                    if pa:
                        add(a, "op %d take %d %s 0" % (t, mn, ACT_NAMES.get(pa[0], "?")), "took the resume task of %s (%s)" % (new, ACT_NAMES.get(pa[0])))
                    elif cleared_regw.get(T) or T in selfres:
                        add(a, "op %d take %d register_waiter 1" % (t, mn), "took the resume task of %s, own wait already complete" % new)
                        selfres.pop(T, None)
                    else:
                        add(a, "op %d take %d none 0" % (t, mn), "switch to %s without any action set" % new)
                for k in [k for k, v in regw_open.items() if v == T]:
                    regw_open.pop(k)
                    regw_state[k] = "switched"
                    if k in early_wn:
                        # the monitor notified the node between its registration and the switch
                        add(a, "op %d waitdone %d" % (mtid(a, early_wn.pop(k)), model_id(a, "D" + k)), "monitor notified the node of D%s before the switch" % k)
                if crt:
                    add(a, crt[0], crt[1])
                add(a, "ev %d att %d %d" % (t, mo, mn), "switch %s -> %s" % (old, new))
                phase[T] = "idle"
                cleared_regw[T] = False
            elif tag == "rpop":
                name = "D" + e[3]
                a = arena_of(name)
                sawpop[T] = True
                if T in dying:
                    popped.setdefault(T, []).append(name)
                elif a is not None:
                    if e[4] != "1":
                        add(a, "ev %d popped-slot-not-cleared" % mtid(a, T), "pop did not clear the slot of %s" % name)
                    add(a, "ev %d pop %d" % (mtid(a, T), model_id(a, name)), "co-cache pop %s" % name)
            elif tag == "rpush":
                name = "D" + e[3]
                a = arena_of(name)
                evn = None if e[4] in ("-1", "18446744073709551615") else "D" + e[4]
                if a is not None:
                    add(a, "ev %d cache %d evict %s" % (mtid(a, T), model_id(a, name), "-" if evn is None else model_id(a, evn)),
                        "co-cache push %s (replaced: %s)" % (name, evn))
            elif tag == "lvl":
                name = "D" + e[3]
                a = arena_of(name)
                if a is None or disp[name][0] != "slot" or a not in nt:
                    continue
                want = 0 if e[4] == "1" else 1
                if mlvl.get(name, 0) != want and phase.get(T, "idle") == "idle":
                    add(a, "op %d %s" % (mtid(a, T), "enter" if want else "exit"), "outermost flag of %s -> %s" % (name, e[4]))
                    mlvl[name] = want
            elif tag == "arena_dead":
                a = e[3]
                if a in nt:
                    for i in range(nt[a]):
                        add(a, "op %d leave" % i, "slot %d is empty at arena destruction" % i)
                    ids = [model_id(a, n) for n in popped.get(T, [])]
                    add(a, "op %d cleanup" % (nt[a] + T), "free_arena: my_co_cache.cleanup() destroyed %s" % popped.get(T, []))
                    add(a, "ev-label cleanup%s" % "".join(" %d" % i for i in ids), "destroyed set")
                dying.pop(T, None)
            continue
        kind, var = e[1], e[2]
        if var.startswith("occ"):
            slot = var[3:]
            if kind == "xchg" and e[4] == "0" and e[5] == "1":
                occupant[slot] = T
            elif kind == "store" and e[4] == "1":
                occupant[slot] = T
            continue
        if var.startswith("cmx"):
            a = var[3:]
            if kind == "xchg" and e[6] == "1" and e[4] == "0" and phase.get(T) in ("susp2", "recall") and a in nt:
                inpop[T], sawpop[T] = a, False
            elif kind == "store" and inpop.get(T) == a:
                if not sawpop.get(T):
                    # create_coroutine: my_co_cache.pop() returned nothing: a new dispatcher is created
                    pending_create[T] = nextco[a]
                    nextco[a] += 1
                    add(a, "ev %d create %d" % (mtid(a, T), pending_create[T]), "co-cache pop found nothing: a new coroutine is created")
                inpop.pop(T, None)
            continue
        if var.startswith("refs"):
            if kind == "fsub" and e[5] == "0":
                dying[T] = var[4:]
                popped[T] = []
            continue
        if var.startswith("rts") or var.startswith("cts"):
            if kind == "for" and T in in_submit:
                continue
            if kind == "for":
                name = pendpush.pop(T, None) or lastntf.get(T)
                if name:
                    a = arena_of(name)
                    add(a, "ev %d %d push" % (mtid(a, T), model_id(a, name)), "resume task of %s published" % name)
            continue
        if var.startswith("wn"):
            if kind == "fadd":
                wn_old[T] = ("D" + var[2:], int(e[4]))
                name = "D" + var[2:]
                a = arena_of(name)
                if a is not None and int(e[4]) == 0:
                    # first notification of the resume_node: by its own post-resume action, or by the monitor
                    if pend_act.get(T) and pend_act[T][0] == 1 and pend_act[T][1] == var[2:] and phase.get(T, "idle") == "idle":
                        add(a, "ev %d wnotify %d 0" % (mtid(a, T), model_id(a, name)), "register_waiter action notifies the node of %s first" % name)
                    elif var[2:] in regw_open:
                        early_wn[var[2:]] = T
                    elif regw_state.get(var[2:]) == "cancelled":
                        pass        # skipped wake-up of a node whose wait was already complete: no effect
                    else:
                        add(a, "op %d waitdone %d" % (mtid(a, T), model_id(a, name)), "monitor notifies the node of %s first" % name)
                    wn_old.pop(T, None)
            continue
        if "." not in var:
            continue
        name, fld = var.rsplit(".", 1)
        if name not in disp:
            continue
        a = arena_of(name)
        if a is None or a not in nt:
            continue
        t, m = mtid(a, T), model_id(a, name)
        if m is None:
            continue
        if kind == "load":
            pa = pend_act.get(T)
            if fld == "rc" and pa is not None and pa[0] == 3 and phase.get(T, "idle") == "idle":
                # recall_point: the action is set, THEN internal_suspend reads the default dispatcher's recall flag
                # (a resume task taken by get_self_recall_task reads it BEFORE the action is set)
                old = cur.get(T)
                if old is not None and arena_of(old) == a:
                    add(a, "op %d recall" % t, "recall_point on %s" % old)
                    add(a, "ev %d ldrc %d %s" % (t, m, e[4]), "internal_suspend reads the recall flag of %s" % name)
                    if old in mlvl:
                        mlvl[old] = 0
                    phase[T] = "recall"
            elif fld == "rc" and phase.get(T) == "susp":
                add(a, "ev %d ldrc %d %s" % (t, m, e[4]), "internal_suspend reads the recall flag of %s" % name)
                phase[T] = "susp2"
            continue
        if fld == "rc":
            if kind == "store":
                add(a, "ev %d %d store rc %s %s" % (t, m, e[4], e[5]), "m_is_owner_recalled.store(%s) on %s" % (e[4], name))
            continue
        if kind == "xchg":
            old, new = e[4], e[5]
            if new == "2":
                lastntf[T] = name
                if old == "1":
                    pendpush[T] = name
                if T in wn_old and wn_old[T][0] == name:
                    # second notification of the resume_node calls r1::resume
                    _, _o = wn_old.pop(T)
                    if pend_act.get(T) and pend_act[T][0] == 1:
                        add(a, "ev %d wnotify %d 1 ; %d xchg %s 2" % (t, m, m, old), "register_waiter action notifies second: r1::resume(%s)" % name)
                    else:
                        add(a, "op %d waitdone %d" % (t, m), "monitor notifies second: r1::resume(%s)" % name)
                        add(a, "ev-label wnotify %d 1 ; %d xchg %s 2" % (m, m, old), "its exchange")
                elif resume_called.get(T) == name:
                    resume_called.pop(T, None)
                    add(a, "op %d resume %d" % (t, m), "tbb::task::resume(%s)" % name)
                    add(a, "ev-label %d xchg %s 2" % (m, old), "its exchange")
                elif cur.get(T) == name and phase.get(T, "idle") == "idle":
                    selfres[T] = old        # resume_task::execute resumes its own stack before leaving it: part of `take ... 1`
                else:
                    add(a, "ev %d %d xchg %s 2" % (t, m, old), "leaver notifies %s" % name)
            elif new == "1":
                add(a, "ev %d %d xchg %s 1" % (t, m, old), "finilize_resume: %s.exchange(suspended)" % name)
            else:
                add(a, "ev %d %d unknown-exchange %s %s" % (t, m, old, new), "unexpected exchange")
        elif kind == "store":
            add(a, "ev %d %d store ss %s %s" % (t, m, e[4], e[5]), "m_stack_state.store(%s) on %s" % (e[4], name))
        else:
            add(a, "ev %d %d unknown-access %s" % (t, m, kind), "unexpected access kind")
    return out, None


def validate_pool(r, factor):
    """Returns (problem or None, stats dict)."""
    if r["spec"]["nest"] & 16:
        return None, {}
    out, prob = pool_lines(r, factor)
    if prob:
        return prob, {}
    stats = {"events": 0, "switches": 0, "dead": 0, "arenas": 0, "freed": 0}
    deadlock = r["stat"].get("deadlock", 0)
    for a, ls in sorted(out.items()):
        if len(ls) <= 1:
            continue
        # `ev-label` lines state the label the preceding op must have answered with
        text, expect = [], {}
        for (l, d) in ls:
            if l.startswith("ev-label "):
                expect[len(text) - 1] = l[len("ev-label "):]
            else:
                text.append((l, d))
        res = drv("c20pool", "\n".join(l for l, _ in text) + "\nend\n")
        if len(res) != len(text) + 1:
            return "pool driver produced %d lines for %d inputs" % (len(res), len(text) + 1), stats
        for i, ((l, d), o) in enumerate(zip(text, res)):
            if o.startswith("MISMATCH") or o == "bad-op":
                return "arena %s: %s [%s] -> %s" % (a, d, l, o[:300]), stats
            if i in expect and o.strip() != ("ok " + expect[i]).strip() and not o.startswith("skipped"):
                return "arena %s: %s [%s] answered [%s], the implementation did [%s]" % (a, d, l, o, expect[i]), stats
        m = re.match(r"summary fail=(\d) err=(\d) cacheErr=(\d) events=(\d+) nd=(\d+) busy=(\d+) logsOk=(\d) ring=(\d+) refs=(\d+) live=(\d+) dead=(\d+) freed=(\d) switches=(\d+)", res[-1])
        if not m:
            return "arena %s: unreadable summary %s" % (a, res[-1][:200]), stats
        if m.group(1) != "0" or m.group(2) != "0" or m.group(3) != "0" or m.group(7) != "1":
            return "arena %s: model flags at the end of the trace: %s" % (a, res[-1][:200]), stats
        if not deadlock and (m.group(6) != "0" or m.group(9) != "0"):
            return "arena %s: at the end of the run a model thread is in the middle of a switch, or a coroutine still holds a reference: %s" % (a, res[-1][:200]), stats
        stats["events"] += int(m.group(4))
        stats["switches"] += int(m.group(13))
        stats["dead"] += int(m.group(11))
        stats["freed"] += int(m.group(12))
        stats["arenas"] += 1
    return None, stats


def classify_window(r):
    """Where did the foreign resumer's exchange(notified) of suspension 0 fall relative to the leaver's steps?"""
    ev = r["ev"]
    sp = leaver = None
    i_cbend = i_switch = i_lx = i_rx = None
    for i, e in enumerate(ev):
        if e[1] == "note" and e[2] == "cb" and e[4] == "0":
            sp, leaver = e[3], e[0]
        elif sp and e[1] == "note" and e[2] == "cb_end" and e[4] == "0":
            i_cbend = i
        elif sp and i_cbend is not None and i_switch is None and e[0] == leaver and e[1] == "store" and e[2].endswith(".ss") and e[2] != sp + ".ss" and e[4] == "0":
            i_switch = i
        elif sp and e[1] == "xchg" and e[2] == sp + ".ss":
            if e[5] == "1" and i_lx is None and e[0] == leaver:
                i_lx = i
            elif e[5] == "2" and i_rx is None and e[0] != leaver:
                i_rx = i
    if i_rx is None or i_lx is None:
        return None
    if i_cbend is None or i_rx < i_cbend:
        return "in-callback"
    if i_switch is None or i_rx < i_switch:
        return "after-callback-before-switch"
    if i_rx < i_lx:
        return "between-switch-and-leaver-exchange"
    return "after-leaver-exchange"


# ------------------------------------------------------------------------------------------------------------------
# scenarios
# ------------------------------------------------------------------------------------------------------------------
FAMILIES = [
    # container, P, modes, nwork, nest
    ("tg", 1, "f", 1, 0), ("tg", 2, "f", 1, 0), ("tg", 3, "f", 2, 0),
    ("tg", 1, "s", 1, 0), ("tg", 2, "s", 1, 0),
    ("tg", 1, "t", 1, 0), ("tg", 2, "t", 1, 0), ("tg", 3, "t", 2, 0),
    ("tg", 1, "ff", 1, 0), ("tg", 2, "fs", 1, 0), ("tg", 2, "ft", 1, 0), ("tg", 3, "fts", 2, 0),
    ("tg", 1, "ff", 0, 1), ("tg", 2, "ft", 1, 1), ("tg", 1, "fts", 1, 1), ("tg", 3, "fff", 1, 1), ("tg", 1, "tt", 0, 1),
    ("pfor", 1, "f", 2, 0), ("pfor", 2, "f", 3, 0), ("pfor", 3, "fs", 3, 0), ("pfor", 2, "ff", 2, 0), ("pfor", 1, "s", 2, 0),
    ("arena1", 1, "f", 1, 0), ("arena1", 2, "f", 1, 0), ("arena1", 2, "t", 1, 0), ("arena1", 2, "ft", 1, 1), ("arena1", 1, "s", 0, 0),
    ("outer", 1, "f", 1, 0), ("outer", 2, "f", 1, 0), ("outer", 3, "ff", 1, 0), ("outer", 2, "s", 1, 0), ("outer", 2, "ft", 1, 0),
    # the group of the suspended task is cancelled while it is suspended, then resume(): it must still continue exactly once
    ("tg", 1, "c", 1, 0), ("tg", 2, "c", 1, 0), ("tg", 3, "c", 2, 0), ("tg", 2, "C", 0, 0), ("arena1", 2, "c", 1, 0), ("nwait", 1, "c", 0, 0),
    ("nwait", 2, "c", 1, 0), ("outer", 2, "c", 1, 0),
]
TARGET_FAMILIES = [("tg", 1, "f", 1, 0), ("tg", 2, "f", 1, 0), ("tg", 2, "ff", 0, 1), ("pfor", 2, "f", 2, 0), ("arena1", 2, "f", 1, 0),
                   ("outer", 2, "f", 1, 0), ("outer", 1, "f", 0, 0), ("tg", 1, "F", 0, 0), ("outer", 1, "F", 0, 0), ("arena1", 2, "F", 1, 0)]
KMAX = 14

# suspension inside this_task_arena::isolate (upper-case letters, and i), resumers that exist BEFORE the suspension
# (p spawned, q enqueued, i isolated spawn), the liveness clause (w: the foreign resumer waits for pre-spawned work),
# arenas with a single thread (P = 1, arena1), nested isolate + nested suspend (nest = 1)
ISO_FAMILIES = [
    ("tg", 1, "P", 0, 0), ("tg", 1, "W", 0, 0), ("tg", 1, "i", 0, 0), ("tg", 1, "Q", 0, 0), ("tg", 1, "F", 1, 0), ("tg", 1, "S", 0, 0),
    ("tg", 1, "T", 0, 0), ("tg", 1, "p", 0, 0), ("tg", 1, "w", 1, 0), ("tg", 1, "q", 0, 0),
    ("tg", 2, "P", 1, 0), ("tg", 2, "W", 1, 0), ("tg", 3, "PW", 1, 0), ("tg", 2, "i", 1, 0), ("tg", 2, "Qw", 0, 0),
    ("outer", 1, "P", 0, 0), ("outer", 1, "W", 0, 0), ("outer", 1, "p", 0, 0), ("outer", 1, "w", 0, 0), ("outer", 2, "W", 1, 0), ("outer", 1, "i", 0, 0),
    ("arena1", 1, "P", 0, 0), ("arena1", 2, "W", 0, 0), ("arena1", 2, "i", 0, 0), ("arena1", 2, "w", 1, 0), ("arena1", 2, "p", 0, 0),
    ("pfor", 1, "F", 2, 0), ("pfor", 2, "FS", 2, 0),
    ("tg", 1, "PW", 0, 1), ("tg", 1, "WP", 0, 1), ("tg", 1, "Pp", 0, 1), ("tg", 1, "ww", 0, 1), ("tg", 2, "FW", 1, 1), ("arena1", 2, "WW", 0, 1),
    ("tg", 1, "iW", 0, 1), ("outer", 1, "WP", 0, 1),
    # the only thread that can pick up the resume task sits in a NESTED dispatch loop (optionally an isolated one) on a coroutine
    ("nwait", 1, "f", 0, 0), ("nwait", 1, "ff", 0, 0), ("nwait", 1, "F", 0, 2), ("nwait", 2, "f", 1, 0), ("nwait", 1, "w", 0, 0), ("nwait", 1, "t", 0, 0),
    ("nwait", 1, "fs", 1, 2), ("nwait", 3, "fF", 1, 2), ("nwait", 1, "f", 0, 2),
]
# (c) repeated suspension of one task (nest bit 3), suspension inside task_arena::execute at the nested arena's outermost level
# (exec), inside a nested parallel_for (npfor), inside task_arena::execute of another arena from within a task (nest bit 4),
# resume by another task that itself was suspended and resumed (x), more concurrent suspensions than the co-cache of a
# one-slot arena holds (capacity 4: forces create + replace + destroy), arena destruction with cached coroutines (always)
NEW_FAMILIES = [
    ("tg", 1, "ff", 0, 8), ("tg", 2, "fff", 1, 8), ("tg", 2, "fsf", 0, 8), ("tg", 3, "ftf", 1, 8), ("pfor", 2, "ff", 1, 8), ("arena1", 1, "fff", 0, 8),
    ("exec", 1, "ff", 0, 0), ("exec", 2, "ff", 1, 0), ("exec", 2, "fs", 1, 0), ("exec", 3, "ft", 1, 0),
    ("npfor", 1, "f", 1, 0), ("npfor", 2, "ff", 1, 0), ("npfor", 2, "FS", 1, 0), ("npfor", 3, "fs", 2, 0),
    ("tg", 1, "f", 0, 16), ("tg", 2, "ff", 0, 16), ("tg", 2, "fs", 1, 16),
    ("tg", 1, "fx", 0, 0), ("tg", 2, "fx", 0, 0), ("tg", 2, "ffx", 1, 0), ("tg", 3, "fxx", 1, 0),
    ("crit", 1, "f", 0, 0), ("crit", 2, "f", 1, 0), ("crit", 2, "fs", 0, 0), ("crit", 3, "ff", 1, 0),
    ("arena1", 1, "ffffff", 0, 0), ("arena1", 2, "fffff", 0, 0), ("arena1", 1, "ffffffff", 0, 0), ("arena1", 2, "ffffsf", 1, 0),
]
# families whose only arena thread is the suspending thread: there the pre-spawned work MUST be run by that thread
SINGLE = lambda fam: fam[1] == 1 or fam[0] == "arena1"
# observation of the coroutine's initial isolation: the thread idles on the new dispatcher until the resume task arrives
PROBE_FAMILIES = [("tg", 1, "F", 0, 0), ("outer", 1, "F", 0, 0), ("arena1", 2, "F", 0, 0), ("pfor", 1, "F", 0, 0), ("tg", 1, "P", 0, 0), ("tg", 1, "FF", 0, 1)]

# state-guided schedules that drive the suspending thread through its back-off into out_of_work() and the sleep:
# (family, what is placed, probe guides, window guides with %d = number of steps of the sleeping thread before the release)
SLEEP_FAMILIES = [
    (("tg", 1, "f", 0, 0), "resume", "R:pub;L:busy|blk;L:blk;F:res", "R:pub;L:cnt=%d|blk;F:res", 1, 2),
    (("tg", 1, "F", 0, 0), "resume", "R:pub;L:busy|blk;L:blk;F:res", "R:pub;L:cnt=%d|blk;F:res", 1, 2),
    (("arena1", 2, "f", 0, 0), "resume", "R:pub;L:busy|blk;L:blk;F:res", "R:pub;L:cnt=%d|blk;F:res", 1, 2),
    (("outer", 1, "f", 0, 0), "resume", "R:pub;L:busy|blk;L:blk;F:res", "R:pub;L:cnt=%d|blk;F:res", 1, 2),
    (("pfor", 1, "f", 0, 0), "resume", "R:pub;L:busy|blk;L:blk;F:res", "R:pub;L:cnt=%d|blk;F:res", 1, 2),
    (("nwait", 1, "f", 0, 0), "resume", "R:pub;L:busy|blk;L:blk;F:res", "R:pub;L:cnt=%d|blk;F:res", 1, 2),
    # owner recall: a worker continues the main thread's outermost stack, leaves it at the recall point and is held
    # before recall_owner(); the owner meanwhile idles on its coroutine and goes to sleep
    (("outer", 2, "f", 0, 0), "recall", "R:pub;L:ss=1;F:res;W:ss=0;W:ss=1;M:busy|blk;M:blk;W:rc=1", "R:pub;L:ss=1;F:res;W:ss=0;W:ss=1;M:cnt=%d|blk;W:rc=1", 5, 6),
]
POOL_FACTOR = [4]  # generated: capacity of the co-cache per slot (set by run())
MARGIN = 40       # scheduling points before the clear transaction opens (covers the waiter's last look at the streams / recall flag)


def mkspec(fam, mode, seed, k=0):
    return {"container": fam[0], "P": fam[1], "modes": fam[2], "nwork": fam[3], "nest": fam[4], "mode": mode, "seed": seed, "k": k}


def make_specs(ck, nrand, ntarget_seeds, families=FAMILIES, tfamilies=TARGET_FAMILIES, salt=0):
    specs = []
    base = ck.seed * 1000003 + salt * 7919
    for fi, fam in enumerate(families):
        for j in range(nrand):
            specs.append(mkspec(fam, "rand", base + fi * 1009 + j))
    for fi, fam in enumerate(tfamilies):
        for k in range(KMAX + 1):
            for j in range(ntarget_seeds):
                specs.append(mkspec(fam, "target", base + fi * 1013 + j, k))
    return specs


def run_specs(exe, specs, pool=True):
    def one(spec):
        r = run_one(exe, spec)
        retries = 0
        while r["rc"] not in (0, 1, 3) and retries < (1 if r["rc"] == -9 else 3):
            # runs are deterministic given the schedule, so a genuine crash or hang of the runtime reproduces; one that
            # does not is the E-SHIM runtime's own hand-over race (verif_sched.cpp reschedule() reads r->ths[me] after
            # give_go(); seen only under heavy machine load, as a crash on the deadlock path or as a stalled hand-over)
            # — reported, not counted
            retries += 1
            r2 = run_one(exe, spec)
            r2["first_crash"] = r["err"] or "rc=%d" % r["rc"]
            r = r2
        r["retries"] = retries
        try:
            prob, recs, loads = validate(r)
        except common.BuildError as e:
            prob, recs, loads = "model driver failed: %s" % e, [], 0
        except Exception as e:   # a trace the translation cannot even read is a broken correspondence, never silence
            prob, recs, loads = "trace translation failed: %r" % (e,), [], 0
        r["corr"], r["recs"], r["loads"] = prob, recs, loads
        try:
            # (the pool driver is configured by the generated skeleton: runs made before the Lean stage are not validated on it)
            r["pcorr"], r["pstats"] = validate_pool(r, POOL_FACTOR[0]) if pool else (None, {})
        except common.BuildError as e:
            r["pcorr"], r["pstats"] = "pool-model driver failed: %s" % e, {}
        except Exception as e:
            r["pcorr"], r["pstats"] = "pool trace translation failed: %r" % (e,), {}
        r["acts"] = {}
        # resume tasks of the stacks that run a critical task (container crit): which stream were they published into
        r["crit_push"] = r["plain_push"] = 0
        if spec["container"] == "crit":
            csp, ln, sub, byidx = set(), {}, set(), {}
            for e in r["ev"]:
                if e[1] == "note":
                    if e[2] == "cb":
                        csp.add(e[3])               # the user suspension of this stack is open until its continuation
                        byidx[e[4]] = e[3]
                    elif e[2] == "cont":
                        csp.discard(byidx.get(e[3]))
                    elif e[2] == "submit_begin":
                        sub.add(e[0])
                    elif e[2] == "submit_end":
                        sub.discard(e[0])
                elif e[1] == "xchg" and e[2].endswith(".ss") and e[5] == "2":
                    ln[e[0]] = e[2][:-3]
                elif e[1] == "for" and e[0] not in sub and ln.get(e[0]) in csp:
                    if e[2].startswith("cts"):
                        r["crit_push"] += 1
                    elif e[2].startswith("rts"):
                        r["plain_push"] += 1
        for e in r["ev"]:
            if e[1] == "note" and e[2] == "actset":
                r["acts"][e[3]] = r["acts"].get(e[3], 0) + 1
        r["scorr"], r["sevents"] = None, 0
        fam = (spec["container"], spec["P"], spec["modes"], spec["nwork"], spec["nest"])
        if spec["mode"] == "guide" and spec.get("what") == "resume" and fam in SLEEP_TRACE_FAMILIES and r["rc"] == 0:
            try:
                r["scorr"], r["sevents"] = validate_sleep(r)
            except common.BuildError as e:
                r["scorr"] = "sleep-model driver failed: %s" % e
            except Exception as e:
                r["scorr"] = "sleep trace translation failed: %r" % (e,)
        r["window"] = classify_window(r) if spec["modes"][0] in "fF" else None
        # keep memory small: the event log is needed again only for a failing run (replay re-runs the scenario anyway)
        if not prob and not r["scorr"] and not r["pcorr"] and r["rc"] == 0:
            r["ev"] = []
        return r
    out, nbad = [], 0
    with ThreadPoolExecutor(max_workers=NCPU) as ex:
        for i in range(0, len(specs), 8 * NCPU):
            chunk = list(ex.map(one, specs[i:i + 8 * NCPU]))
            out += chunk
            nbad += sum(1 for r in chunk if mon_problem(r))
            if nbad >= ENOUGH:
                log("%d runs violated a monitor after %d of %d runs: not launching the rest" % (nbad, len(out), len(specs)))
                break
    return out


def mon_problem(r):
    if r["rc"] == -9:
        return "hang: the run did not finish within %d s (a thread blocked or looped outside any scheduling point)" % TIMEOUT
    if r["rc"] not in (0, 1, 3):
        return "harness crashed rc=%d %s" % (r["rc"], r["err"][-200:])
    if not r["mon"]:
        return "harness printed no monitor line rc=%d %s" % (r["rc"], r["err"][-200:])
    if r["mon"][0] != "ok":
        return r["mon"][0]
    return None


def cex_key(text, spec=None):
    t = text.lower()
    stuck = "deadlock" in t or "livelock" in t or "hang:" in t
    if stuck and spec and spec.get("mode") == "guide":
        return "resume-lost-by-sleeping-thread" if spec.get("what") == "resume" else "owner-recall-lost-by-sleeping-thread"
    if stuck and spec and any(c.isupper() or c == "i" for c in spec["modes"]) and any(c in "pwPW" for c in spec["modes"]):
        return "suspended-thread-starves-work-outside-its-isolation"
    if stuck and spec and any(c in "pqwPQW" for c in spec["modes"]):
        return "suspended-thread-does-not-run-work-spawned-before-suspension"
    if "deadlock" in t:
        return "suspended-task-never-resumed-deadlock"
    if "livelock" in t or "hang:" in t:
        return "suspend-resume-livelock"
    if "critical" in t:
        return "critical-state-not-kept-across-suspension"
    if "used while cached" in t:
        return "dispatcher-used-while-cached"
    if "two slots of the co-cache" in t or "neither one push nor one pop" in t:
        return "co-cache-ring-corrupted"
    if "action skipped" in t:
        return "post-resume-action-skipped"
    if "continuation ran 0" in t:
        return "continuation-forgotten"
    if "continuation ran" in t:
        return "continuation-ran-more-than-once"
    if "before resume" in t:
        return "continued-without-resume-call"
    if "two threads" in t:
        return "continuation-on-two-threads"
    if "count zero while suspension" in t:
        return "wait-count-zero-over-suspended-task"
    if "wrong stack" in t:
        return "wait-completed-on-the-wrong-stack"
    if "returned while suspension" in t:
        return "wait-completed-over-suspended-task"
    if "different thread" in t:
        return "outermost-suspend-continued-on-foreign-thread"
    if "pre-spawned" in t:
        return "work-spawned-before-suspension-not-run-by-suspending-thread"
    if "crashed" in t:
        return "runtime-crash-in-suspend-resume"
    return "suspend-resume-monitor"


def replay_obj(r, what):
    spec = dict(r["spec"])
    o = {"engine": "E-SHIM whole runtime", "spec": spec, "args": spec_args(spec), "monitor": what,
         "schedule_rle": r["sched"][:40000], "how": "build/C20/sr " + " ".join("'%s'" % a if ";" in a else a for a in spec_args(spec))}
    if spec["mode"] == "guide":
        o["note"] = ("state-guided schedule; the plain schedule it produced is schedule_rle, replayable with "
                     "`sr <scenario> replay <schedule_rle> ticker`")
    return o


def liveness_problem(r):
    """The liveness clause on a finished run: in an arena whose only thread is the suspending thread, work that existed
    before the suspension (modes p, w: spawned by the suspending code right before it suspends) was executed BY THAT THREAD
    WHILE the task was suspended."""
    sp = r["spec"]
    if r["rc"] != 0 or not SINGLE((sp["container"], sp["P"])):
        return None
    for k, x in sorted(r["susp"].items()):
        m = sp["modes"][k].lower() if k < len(sp["modes"]) else "-"
        if m in "pw" and sp["container"] != "pfor":
            if x.get("prework_tid", -1) != x.get("cb_tid", -2) or not x.get("prework_during", 0) or x.get("work_by_suspender", 0) < 1:
                return ("suspension %d: the pre-spawned task was run by thread %d (suspending thread %d), during the suspension: %d "
                        "— the suspending thread did not execute the work spawned before it suspended" % (k, x.get("prework_tid", -1), x.get("cb_tid", -1), x.get("prework_during", 0)))
    return None


# ------------------------------------------------------------------------------------------------------------------
# state-guided search: the foreign resume / the owner recall at every scheduling point of the sleep path
# ------------------------------------------------------------------------------------------------------------------
def gspec(fam, what, guide, seed):
    sp = mkspec(fam, "guide", seed)
    sp["guide"], sp["what"] = guide, what
    return sp


def sleep_probes(ck, nseeds, salt=0):
    return [(fi, j, gspec(fam, what, probe, ck.seed * 7919 + 31 * fi + j + 1000 * salt))
            for fi, (fam, what, probe, win, gi, gj) in enumerate(SLEEP_FAMILIES) for j in range(nseeds)]


def sleep_windows(probe_results):
    """probe_results: [(fi, j, run)] -> (window specs, problems).  The probe run lets the sleeping thread go all the way
    (guide gi ends when the clear transaction opens or the thread blocks, guide gj when it blocks): cW, cPark = steps of
    that thread at these two states.  The window specs release the resumer / recaller after c = cW-MARGIN .. cPark+2 steps."""
    specs, problems, info = [], [], []
    for fi, j, r in probe_results:
        fam, what, probe, win, gi, gj = SLEEP_FAMILIES[fi]
        g = r["guides"]
        if mon_problem(r) or len(g) <= gj or g[gi]["picks"] < 0 or g[gj]["picks"] < 0 or not g[gj]["blk"]:
            problems.append("%s: probe run did not bring the thread to sleep (%s; guides %s)" % (spec_name(r["spec"]), mon_problem(r) or "ok", g))
            continue
        cW, cPark = g[gi]["picks"], g[gi]["picks"] + g[gj]["picks"]
        info.append({"scenario": spec_name(r["spec"])[:60], "what": what, "steps_to_clear_transaction": cW, "steps_to_park": cPark,
                     "transaction_opened": g[gi]["pool"] == 2})
        for c in range(max(0, cW - MARGIN), cPark + 3):
            specs.append(gspec(fam, what, win % c, r["spec"]["seed"]))
        if what == "resume" and len(g) > gj + 1 and g[gj + 1]["picks"] > 0:
            # second dimension: the resume() itself is split — the resumer makes d steps (d = 1 .. all of resume()), is held
            # again while the thread goes all the way back to sleep (or finishes), and only then completes; released either
            # after the thread parked or while it is still awake
            nres = g[gj + 1]["picks"]
            for c in (cPark + 2, max(0, cW - MARGIN)):
                for d in range(1, nres + 1):
                    sp = gspec(fam, what, "R:pub;L:cnt=%d|blk;F:cnt=%d|res;L:blk|cnt=3000;F:res" % (c, d), r["spec"]["seed"])
                    sp["split"] = d
                    specs.append(sp)
    return specs, problems, info


def window_class(r):
    """state of the hand-shake at the moment the resumer / recaller was released"""
    fam_g = [x for x in SLEEP_FAMILIES if x[0] == (r["spec"]["container"], r["spec"]["P"], r["spec"]["modes"], r["spec"]["nwork"], r["spec"]["nest"]) and x[1] == r["spec"]["what"]]
    if not fam_g or len(r["guides"]) <= fam_g[0][4]:
        return None
    g = r["guides"][fam_g[0][4]]
    return (r["spec"]["what"], {0: "unset", 1: "set", 2: "busy"}.get(g["pool"], "?"), "in-waitset" if g["ws"] > 0 else "not-in-waitset", "parked" if g["blk"] else "running")


# ------------------------------------------------------------------------------------------------------------------
# trace -> Sleep model (driver c20slv): the words of the resume-versus-sleep hand-shake
# ------------------------------------------------------------------------------------------------------------------
SLEEP_TRACE_FAMILIES = {("tg", 1, "f", 0, 0), ("tg", 1, "F", 0, 0), ("arena1", 2, "f", 0, 0), ("outer", 1, "f", 0, 0), ("pfor", 1, "f", 0, 0)}


def sleep_lines(r):
    """Between the end of suspension 0's callback and its continuation: the accesses of the suspending thread (the arena's
    only thread) and of the foreign resumer to poolL / rtsL / wsz / mep / the recall flag, as input of driver c20slv."""
    ev = r["ev"]
    pool = stream = epoch = 0
    L = None
    lines, started = [], False
    for e in ev:
        t = int(e[0])
        if e[1] == "note":
            if e[2] == "cb_end" and e[4] == "0" and not started:
                started, L = True, t
                lines.append("init %d %d %d" % (pool, 1 if stream else 0, epoch))
            elif started and e[2] == "cont" and e[3] == "0":
                lines.append("S end")
                break
            elif started and e[2] == "resume_call" and t != L:
                lines.append("N %d call" % t)
            elif started and e[2] == "resume_ret" and t != L:
                lines.append("N %d ret" % t)
            continue
        kind, var = e[1], e[2]
        a, b, ok = e[4], e[5], e[6]
        if not started:
            # keep track of the words' values until the window opens
            if var == "poolL" and (kind in ("store", "xchg") or (kind == "cas" and ok == "1")):
                pool = int(a) if kind == "store" else int(b)
            elif var == "rtsL" and kind in ("for", "fand"):
                stream = int(b)
            elif var == "mep" and kind == "store":
                epoch = int(a)
            continue
        who = "S" if t == L else "N %d" % t
        if var == "poolL":
            if kind == "load":
                lines.append("%s load pool %s" % (who, a))
            elif kind == "cas":
                lines.append("%s cas pool %s %s %s" % (who, a, b, ok))
            else:
                lines.append("%s unknown %s" % (who, " ".join(e)))
        elif var == "rtsL":
            if kind == "load" and t == L:
                lines.append("S load rts %s" % a)
            elif kind == "fand" and t == L:
                lines.append("S take")
            elif kind == "for" and t != L:
                lines.append("N %d push" % t)
            elif kind != "load":
                lines.append("%s unknown %s" % (who, " ".join(e)))
        elif var == "wsz":
            if kind == "store":
                lines.append("%s store wsz %s %s" % (who, a, b))
            elif kind == "load" and t != L:
                lines.append("N %d load wsz %s" % (t, a))
        elif var == "mep":
            if kind == "load" and t == L:
                lines.append("S load mep %s" % a)
            elif kind == "store" and t != L:
                lines.append("N %d store mep %s %s" % (t, a, b))
        elif var.endswith(".rc") and t == L:
            if kind == "load":
                lines.append("S load rc %s" % a)
            elif kind == "store" and a == "0":
                lines.append("S store rc 0")
    if not started or lines[-1] != "S end":
        return None        # the suspension did not continue (a monitor reports that)
    return lines + ["end"]


def validate_sleep(r):
    """Returns (problem or None, number of events the model accepted)."""
    lines = sleep_lines(r)
    if lines is None:
        return None, 0
    out = drv("c20slv", "\n".join(lines) + "\n")
    if len(out) != len(lines):
        return "sleep-model driver produced %d lines for %d inputs" % (len(out), len(lines)), 0
    for l, o in zip(lines, out):
        if o.startswith("MISMATCH") or o == "bad-op":
            return "[%s] -> %s" % (l, o[:300]), 0
    m = re.match(r"summary fail=(\d) events=(\d+) quiet=(\d) blocked=(\d) lost=(\d)", out[-1])
    if not m:
        return "unreadable summary %s" % out[-1][:200], 0
    if m.group(1) != "0" or m.group(4) != "0":
        return "at the continuation the model is %s" % out[-1][:200], 0
    return None, int(m.group(2))


def model_search(ck, nruns=4000):
    """Run random schedules of the Sleep model under the GENERATED configuration (driver c20sl): a state with the sleeper
    blocked, a task in the stream or the owner recalled, and no notifier step pending is a lost resume on the model."""
    rng = ck.rng
    lines = []
    for i in range(nruns):
        kinds = rng.choice(["r", "c", "rr", "rc", "r"])
        ops = rng.choice(["s5", "s5,t,s5", "t,s5", "s5,s7"])
        n = rng.randrange(8, 40)
        sched = [rng.choice([0, 0, 0] + list(range(1, len(kinds) + 1))) for _ in range(n)]
        lines.append("run %d %s %s %s" % (rng.randrange(2), kinds, ops, ",".join(map(str, sched))))
    try:
        out = drv("c20sl", "\n".join(lines) + "\n")
    except common.BuildError as e:
        return "model driver unavailable: %s" % e
    best = None
    for l, o in zip(lines, out):
        if "lost=1" in o and (best is None or len(l) < len(best[0])):
            best = (l, o)
    return best


def run(ck):
    quick = ck.tier == "quick"
    ck.rule = ("E-SHIM whole-runtime scenarios = container {task_group, parallel_for, task_arena(1), outermost suspend} x max_allowed_parallelism {1,2,3} x "
               "per-suspension resumer {foreign thread, task spawned by the callback, the callback itself, task spawned / enqueued BEFORE suspending, isolated task, "
               "foreign thread that waits for pre-spawned work} x suspension inside / outside this_task_arena::isolate x nested suspensions x other work; each under "
               "seeded random schedules and targeted schedules (foreign resume() run as a block after the suspending thread made k=0..%d scheduling points since its "
               "callback published the suspend point); plus STATE-GUIDED schedules that hold the resumer (or the recalling worker), let the suspending thread spin through "
               "its idle back-off into out_of_work() and the sleep, and release the held thread after c steps for EVERY c from %d points before the clear transaction "
               "opens until after the thread is parked; distinct = (suspend-point kind, round kind, state chain, who pushed, how the continuation got the stack) classes, "
               "resume-window classes and (pool state, wait-set, parked) classes at the release" % (KMAX, MARGIN))
    ck.assumptions += [
        "proved on the model: one suspend point, any number of threads / resumers / rounds, all interleavings of the atomic accesses (sequentially consistent)",
        "the API precondition (resume called exactly once per suspend point handed out) is enforced by the model (violating calls are rejected) and respected by the harness",
        "not modelled in SuspendPoint: the register save/restore of the context switch, coroutine stack allocation and cache replacement, the internals of task_stream "
        "(push/pop are one step), release/acquire visibility (the shim serialises accesses)",
        "the window between swapcontext and the first atomic access on the new stack contains no scheduling point; for the protocol it is equivalent to the points before the switch "
        "(the resumer only reads/writes m_stack_state, the switching thread touches no shared state in it)",
        "the wait_context is modelled abstractly (counter = covered tasks not yet finished; the per-thread reference_vertex proxies are not modelled); on the implementation "
        "side it is tied by the API-level monitor (wait returns only after every continuation finished) and by feeding the harness's task begin/end/wait notes to the model",
        "a suspend point of a slot's default dispatcher is replayed as a new model instance when the slot gets a new occupant (the previous instance must then be quiescent)",
        "state chain A->S->A (A->A for a new coroutine) occurs for coroutine stacks parked in the co-cache and re-entered by a plain switch; it is not listed in the comment of "
        "scheduler_common.h (which covers handed-out suspend points and owner recall only); theorem stack_state_chains proves it never occurs for those",
        "Sleep model (resume_not_lost_by_sleep): ONE sleeping thread (the arena's only thread) against any number of resumers / recallers; my_mandatory_concurrency, adjust_demand, "
        "the other task sources and the internals of task_stream / the monitor's list are not modelled; its tie to the code is (a) the regenerated facts (wake-up condition, "
        "has_tasks scan, push-then-advertise order, recall-then-notify order), (b) event-by-event validation of the accesses to my_pool_state / resume-stream population / monitor epoch "
        "and wait-set size / recall flag in the guided runs of the single-thread-arena families (the semaphore operations and cancel_wait's look at its node are not observed: the "
        "model takes those steps as late as possible, and only when enabled), (c) the state-guided search on the implementation; the owner-recall and nested-wait families are "
        "covered by (a) and (c) only",
        "Disp model (suspended_thread_takes_any_task): the initial isolation of the dispatcher a suspending thread moves onto is an OBSERVED fact (white-box sampling at every "
        "scheduling point of the scenarios that suspend inside isolate) plus a source-text check; the filters of the task sources are translated from the C++ expressions",
        "agreement of model and implementation is sampled (explored schedules), not proved"]
    ck.assumptions += [
        "Pool model (cocache_no_double_handout, post_resume_action_runs_once_on_new_stack, dispatcher_destroyed_only_when_idle, multi_suspend_sequence): ONE arena, any number of slot "
        "threads / foreign threads / coroutines / suspensions, every schedule; every dispatcher carries a full SuspendPoint core; which waiter a dispatch loop runs with (the model's "
        "`branch`: worker flag and loop depth) is an input chosen by the trace validation from the OBSERVED action; the depth of nested loops beyond `outermost` is not observed",
        "Pool model: the thread-role errors of the model (a switch / action step whose role on the core is missing) are excluded on the explored traces (the validation fails on any model error) "
        "but only the cache-related ones (`cacheErr`) are excluded by a theorem; proving `err = none` for every schedule needs the thread-to-core ownership invariant (not done)",
        "Wait model (wait_covers_suspended_task, no_wait_completion_from_wrong_stack): frames, wait tree and attach / detach at the level of whole operations; which thread may attach "
        "to which stack is left open (any stack nobody runs) — the Pool model says when the code does it; its tie: the regenerated order `body, then finalize / release` for function_task, "
        "start_for and delegated_task, the recall_point guard, and implementation-side monitors: the reference count of the task_group's wait_context sampled at every scheduling point "
        "while a covered task is suspended (task_group containers), wait / parallel_for return on the calling thread, wait returns only after every continuation",
        "m_is_critical (the field the property text names) is never read or written in this tree; what decides the stream of a resume task is the target dispatcher's "
        "m_properties.critical_task_allowed, which lives in the dispatcher and is not touched by the switch code (source obligation on r1::resume)",
        "white-box events (attach changes, my_post_resume_action / arg, co-cache ring, `outermost`) are obtained by sampling the running thread's thread_data and its arena at every "
        "scheduling point and logging the CHANGES (no source hook): an event is attributed to the window between two consecutive scheduling points of that thread",
        "arenas created and destroyed inside a task (nest bit 4: task_arena::execute of a temporary arena) are covered by the monitors and the SuspendPoint validation, not by the pool validation"]
    ck.trusted += ["harness/c20/sr.cpp white-box sampler (what changed between two scheduling points) and harness/c20/cc.cpp", "trace-to-pool translation in checks/c20.py (pool_lines)",
                   "harness/shim (atomic shim + baton scheduler, dynamic threads, futex emulation)", "harness/c20/sr.cpp monitors, guided schedule and white-box naming of suspend points",
                   "trace-to-model translation in checks/c20.py (which access plays which role; look-ahead to classify a leave as recall/park/wait)",
                   "checks/cexpr.py and the regular expressions of checks/c20.py that locate the generated facts in the source"]
    lean = gen_static(ck)
    plean, factor = gen_pool(ck)
    lean += plean + gen_wait(ck)
    POOL_FACTOR[0] = max(1, factor)
    exe = build()
    # ---- observed fact: isolation of the dispatcher a suspending thread moves onto --------------------------------------------
    probe_specs = [mkspec(fam, "rand", ck.seed * 131 + 7 * fi + j) for fi, fam in enumerate(PROBE_FAMILIES) for j in range(4)]
    probe_runs = run_specs(exe, probe_specs, pool=False)
    gen_finish(ck, lean, probe_runs)
    ck.lean_stage()
    # ---- random + targeted schedules ---------------------------------------------------------------------------------------------
    specs = make_specs(ck, 150 if quick else 1500, 20 if quick else 150)
    specs += make_specs(ck, 60 if quick else 600, 0, families=ISO_FAMILIES, tfamilies=[], salt=3)
    specs += make_specs(ck, 60 if quick else 500, 0, families=NEW_FAMILIES, tfamilies=[], salt=9)
    specs += probe_specs        # (once more, now also validated on the pool model)
    runs = probe_runs + run_specs(exe, specs)
    # ---- state-guided schedules through the sleep path -----------------------------------------------------------------------------
    probes = sleep_probes(ck, 1 if quick else 4)
    pres = run_specs(exe, [sp for _, _, sp in probes])
    pr = [(fi, j, r) for (fi, j, _), r in zip(probes, pres)] if len(pres) == len(probes) else []
    wspecs, wproblems, winfo = sleep_windows(pr)
    wruns = run_specs(exe, wspecs)
    ck.extra["sleep_path_probes"] = winfo
    ck.extra["sleep_path_window_runs"] = len(wruns)
    runs += pres + wruns
    crit_runs = [r for r in runs if r["spec"]["container"] == "crit" and r["rc"] == 0]
    crit_bad = [r for r in crit_runs if r.get("plain_push", 0) > 0 or r.get("crit_push", 0) != len(r["spec"]["modes"])]
    ck.extra["resume_tasks_of_critical_stacks_published_into_the_critical_stream"] = sum(r.get("crit_push", 0) for r in crit_runs)
    ck.oblige("monitor:critical state — a task submitted as critical that suspends: its stack has critical_task_allowed == false before and after the suspension, it continues on the "
              "same dispatcher, and its resume task is published into the critical stream (and only there)", "correspondence",
              bool([r for r in runs if mon_problem(r)]) or (not crit_bad and len(crit_runs) > 0),
              "%d runs" % len(crit_runs) if not crit_bad else "%s: %d pushes into the critical stream, %d into the resume stream" % (spec_name(crit_bad[0]["spec"]), crit_bad[0].get("crit_push", 0), crit_bad[0].get("plain_push", 0)))
    rd_prob, rd_ops = ring_differential(ck, 150 if quick else 1500)
    ck.extra["co_cache_ring_operations_compared"] = rd_ops
    bad_pcorr = [r for r in runs if r.get("pcorr")]
    pool = {}
    acts = {}
    for r in runs:
        for k, v in r.get("pstats", {}).items():
            pool[k] = pool.get(k, 0) + v
        for k, v in r.get("acts", {}).items():
            acts[ACT_NAMES.get(int(k), k)] = acts.get(ACT_NAMES.get(int(k), k), 0) + v
        for k in ("evictions", "ring_pops", "ring_pushes", "switches"):
            pool["impl_" + k] = pool.get("impl_" + k, 0) + r["stat"].get(k, 0)
        for a in r.get("acts", {}):
            ck.count(0, ("action", a, r["spec"]["container"]))
    ck.extra["pool_validation"] = pool
    ck.extra["samples_of_the_group_wait_count_while_a_covered_task_was_suspended"] = sum(r.get("count_samples", 0) for r in runs)
    ck.extra["post_resume_actions_observed"] = acts
    bad_corr = [r for r in runs if r["corr"]]
    bad_scorr = [r for r in runs if r.get("scorr")]
    sleep_validated = sum(1 for r in runs if r.get("sevents"))
    ck.extra["sleep_traces_validated"] = sleep_validated
    ck.extra["sleep_trace_events_validated"] = sum(r.get("sevents", 0) for r in runs)
    bad_mon = [(r, mon_problem(r)) for r in runs if mon_problem(r)]
    bad_live = [(r, liveness_problem(r)) for r in runs if liveness_problem(r)]
    classes, windows, wclasses = {}, {}, {}
    work_by_suspender = cont_other_thread = loads = iso_susp = prework_by_suspender = 0
    for r in runs:
        ck.traces_validated += 1
        loads += r["loads"]
        for rec in r["recs"]:
            sp, kind, chain, calls, pr_, pl, via, by, byowner = rec
            key = ("co" if r["sps"].get(sp, ["co"])[0] == "co" else "default", kind, chain, "pushR" if pr_ == "1" else "pushL" if pl == "1" else "nopush", via, "owner" if byowner == "1" else "other")
            classes[key] = classes.get(key, 0) + 1
            ck.count(1, key)
        if r["window"]:
            windows[r["window"]] = windows.get(r["window"], 0) + 1
            ck.count(0, ("window", r["window"], r["spec"]["container"], r["spec"]["P"]))
        if r["spec"]["mode"] == "guide" and "cnt=" in r["spec"]["guide"]:
            wc = window_class(r)
            if wc:
                wclasses[wc] = wclasses.get(wc, 0) + 1
                ck.count(0, ("release",) + wc + (r["spec"]["container"],))
        for k, x in r["susp"].items():
            work_by_suspender += 1 if x.get("work_by_suspender", 0) > 0 else 0
            cont_other_thread += 1 if x.get("cont_tid", -1) != x.get("cb_tid", -1) else 0
            iso_susp += x.get("isolated", 0)
            prework_by_suspender += 1 if (x.get("prework_during") and x.get("prework_tid") == x.get("cb_tid")) else 0
    ck.extra["runs"] = len(runs)
    ck.extra["round_classes"] = {" ".join(k): v for k, v in sorted(classes.items())}
    ck.extra["resume_window_classes"] = windows
    ck.extra["sleep_release_classes"] = {" ".join(k): v for k, v in sorted(wclasses.items())}
    ck.extra["suspensions_where_suspending_thread_ran_other_work"] = work_by_suspender
    ck.extra["suspensions_whose_prespawned_work_was_run_by_the_suspending_thread_meanwhile"] = prework_by_suspender
    ck.extra["suspensions_inside_isolate"] = iso_susp
    ck.extra["suspensions_continued_on_another_thread"] = cont_other_thread
    ck.extra["unmatched_plain_loads_tolerated"] = loads
    ck.extra["runs_repeated_after_a_non_reproducible_shim_crash"] = sum(1 for r in runs if r.get("retries"))
    for r in runs[len(probe_runs):len(probe_runs) + 3] + wruns[:2]:
        ck.sample({"scenario": spec_name(r["spec"]), "monitor": r["mon"][:1], "completed_rounds": [":".join(x) for x in r["recs"]][:12], "window": r["window"]})
    chains = set(k[2] for k in classes if k[1] == "user")
    need_windows = {"in-callback", "after-callback-before-switch", "between-switch-and-leaver-exchange", "after-leaver-exchange"}
    ck.oblige("corr:every m_stack_state / m_is_owner_recalled access and resume-task publication of every suspend point is an enabled step of the Lean model with the same values",
              "correspondence", not bad_corr, "" if not bad_corr else "%s | %s" % (bad_corr[0]["corr"], spec_name(bad_corr[0]["spec"])))
    ck.oblige("corr:pool — every stack switch (detach/attach), co-cache pop / push / replacement, coroutine creation, post-resume action (set before the switch, executed after it), "
              "recall-flag read of internal_suspend, access to the state words of every suspend point and resume-task publication of every arena is the step the Pool model's thread "
              "takes next, with the same dispatchers and values; the model never flags a double hand-out, a misuse of a suspend point or an unfinished switch, and at arena "
              "destruction cleanup() destroys exactly the model's cached dispatchers",
              "correspondence", not bad_pcorr, "%d runs, %d events, %d switches validated" % (len(runs), pool.get("events", 0), pool.get("switches", 0)) if not bad_pcorr
              else "%s | %s" % (bad_pcorr[0]["pcorr"], spec_name(bad_pcorr[0]["spec"])))
    ck.oblige("corr:arena_co_cache — the real ring buffer (white box, real task_dispatcher objects, random push / pop / cleanup sequences, capacities 1..8) answers every operation "
              "as the Lean ring model does (replaced entry, returned entry, head index, cleanup order)", "correspondence", rd_prob is None, rd_prob or "%d operations" % rd_ops)
    ck.oblige("corr:sleep path — in the guided single-thread-arena runs every access of the sleeping thread and of the resumer to my_pool_state, the resume stream's population, "
              "the monitor's epoch / wait-set size and the recall flag, between the suspension and its continuation, is the access the Sleep model's thread makes at its "
              "current step, with the same value (test_and_set / try_clear_if / has_tasks / prepare_wait / wake-up condition / commit_wait / notify)",
              "correspondence", not bad_scorr and (sleep_validated > 0 or bool(bad_mon)),
              "%d traces validated" % sleep_validated if not bad_scorr else "%s | %s" % (bad_scorr[0]["scorr"], spec_name(bad_scorr[0]["spec"])))
    ck.oblige("monitor:continuation exactly once, only after resume(), never concurrently, wait returns after it, no deadlock / livelock (random + targeted + state-guided schedules, "
              "suspension inside isolate, single-thread arenas, resumers that exist before the suspension, foreign resume / owner recall at every point of the sleep path)",
              "correspondence", not bad_mon, "" if not bad_mon else "%d runs, e.g. %s | %s" % (len(bad_mon), bad_mon[0][1], spec_name(bad_mon[0][0]["spec"])))
    ck.oblige("monitor:liveness — in an arena whose only thread is the suspending thread, the work spawned before the suspension was executed by that thread while the task was suspended",
              "correspondence", not bad_live, "" if not bad_live else "%s | %s" % (bad_live[0][1], spec_name(bad_live[0][0]["spec"])))
    ck.oblige("coverage:both documented chains (A->S->N->A and A->N->S->N->A), owner recall, coroutine reuse and all four resume windows were exercised",
              "correspondence", bool(bad_mon) or ({"ASNA", "ANSNA"} <= chains and need_windows <= set(windows) and any(k[1] == "recall" for k in classes) and any(k[1] == "park" for k in classes)),
              "chains %s windows %s" % (sorted(chains), sorted(windows)))
    need_acts = {"register_waiter", "cleanup", "notify"}
    ck.oblige("coverage:pool — all post-resume actions occurred, coroutines were created, cached, reused, replaced in a full co-cache (destroyed) and destroyed by cleanup() at arena destruction",
              "correspondence", bool(bad_mon) or bool(bad_pcorr) or (need_acts <= set(acts) and pool.get("impl_evictions", 0) > 0 and pool.get("impl_ring_pops", 0) > 0 and pool.get("dead", 0) > 0 and pool.get("freed", 0) > 0),
              "actions %s; replacements %d, pops %d, pushes %d, destroyed in the model %d, arenas freed %d" % (acts, pool.get("impl_evictions", 0), pool.get("impl_ring_pops", 0), pool.get("impl_ring_pushes", 0), pool.get("dead", 0), pool.get("freed", 0)))
    rel = set(wclasses)
    need_rel = [("resume", "busy"), ("resume", "unset", "not-in-waitset"), ("resume", "unset", "in-waitset", "running"), ("resume", "unset", "in-waitset", "parked"),
                ("recall", "unset", "not-in-waitset"), ("recall", "unset", "in-waitset", "parked")]    # (recall: fi of the outer P=2 family)
    missing = [n for n in need_rel if not any(c[:len(n)] == n for c in rel)]
    ck.oblige("coverage:the sleep path was reached in every guided family and the resume / recall was released inside the clear transaction, after it before prepare_wait, "
              "between prepare_wait and the semaphore, and after the thread parked; isolated suspensions and pre-spawned work run by the suspending thread occurred",
              "correspondence", bool(bad_mon) or (not wproblems and not missing and iso_susp > 0 and prework_by_suspender > 0),
              "probe problems: %s; release classes missing: %s; isolated suspensions %d; pre-spawned work run by the suspender %d" % (wproblems[:2], missing, iso_susp, prework_by_suspender))
    # ---- informational probe (no obligation): a defect of the library next to this property ------------------------------------
    # With max_allowed_parallelism 1, a resumer that is held between its push and advertise_new_work<wakeup> until the resumed
    # task has finished and the main thread has left the arena re-marks the abandoned arena as non-empty; no worker exists to
    # clear it, the arena is never destroyed and a blocking tbb::finalize spins forever (threading_control::wait_last_reference).
    # The scenarios of this check avoid it by joining the resumer threads before tbb::finalize (nest bit 2 switches that off).
    if not bad_mon and not quick:
        fp = [(fi, j, r) for (fi, j, r) in pr if SLEEP_FAMILIES[fi][0] == ("outer", 1, "f", 0, 0)][:1]
        hang = []
        for fi, j, r in fp:
            g = r["guides"]
            if len(g) > 3 and g[1]["picks"] >= 0 and g[3]["picks"] > 0:
                c = max(0, g[1]["picks"] - MARGIN)
                ps = [gspec(("outer", 1, "f", 0, 4), "resume", "R:pub;L:cnt=%d|blk;F:cnt=%d|res;L:blk|cnt=3000;F:res" % (c, d), r["spec"]["seed"]) for d in range(1, g[3]["picks"] + 1)]
                for x in run_specs(exe, ps):
                    if mon_problem(x) and x["susp"].get(0, {}).get("cont_tid", -1) >= 0:
                        hang.append("build/C20/sr " + " ".join("'%s'" % a if ";" in a else a for a in spec_args(x["spec"])))
        ck.extra["library_finding_probe_blocking_finalize_hangs_after_late_advertise"] = {
            "splits of resume() after which the continuation ran and the blocking tbb::finalize never returned": len(hang), "example": hang[:1]}
    # ---- failing-input search ----
    def report(bm, limit=3):
        bm.sort(key=lambda x: (0 if x[0]["spec"]["mode"] == "guide" else 1, len(x[0]["spec"]["modes"]), x[0]["spec"]["nwork"], x[0]["spec"]["P"], x[0]["stat"].get("steps", 1 << 30)))
        seen = set()
        for r, what in bm:
            key = cex_key(what, r["spec"])
            if key in seen:
                continue
            seen.add(key)
            ck.counterexample(key, "%s: %s" % (spec_name(r["spec"]), what), replay_obj(r, what))
            if len(seen) >= limit:
                break
    if bad_mon or bad_live:
        report(bad_mon + bad_live)
    if ck.broken():
        ms = model_search(ck)
        if ms:
            ck.extra["model_level_lost_resume"] = ({"input": ms[0], "final_state": ms[1]} if isinstance(ms, tuple) else ms)
            log("Sleep model under the generated configuration: %s" % (ms,))
    if not (bad_mon or bad_live) and (bad_corr or bad_scorr or bad_pcorr or ck.broken()):
        log("obligation broken without a monitor violation: searching more schedules for a failing input")
        more = make_specs(ck, 300 if quick else 1500, 40 if quick else 150, salt=1)
        more += make_specs(ck, 200 if quick else 1000, 0, families=ISO_FAMILIES, tfamilies=[], salt=5)
        more += make_specs(ck, 200 if quick else 1000, 0, families=NEW_FAMILIES, tfamilies=[], salt=11)
        runs2 = run_specs(exe, more)
        probes2 = sleep_probes(ck, 3 if quick else 8, salt=1)
        pres2 = run_specs(exe, [sp for _, _, sp in probes2])
        w2, _, _ = sleep_windows([(fi, j, r) for (fi, j, _), r in zip(probes2, pres2)] if len(pres2) == len(probes2) else [])
        runs2 += pres2 + run_specs(exe, w2)
        ck.extra["search_runs"] = len(runs2)
        bm = [(r, mon_problem(r)) for r in runs2 if mon_problem(r)] + [(r, liveness_problem(r)) for r in runs2 if liveness_problem(r)]
        if bm:
            report(bm, 1)


def replay(ck, obj):
    r = obj["replay"]
    exe = build()
    res = run_one(exe, r["spec"])
    prob = mon_problem(res) or liveness_problem(res)
    print("scenario: %s" % spec_name(r["spec"]))
    print("monitor : %s" % (prob or "ok"))
    try:
        c, recs, _ = validate(res)
        print("model   : %s" % (c or "trace is accepted by the model"))
    except common.BuildError as e:
        print("model   : driver unavailable (%s)" % e)
    try:
        pc, _ = validate_pool(res, POOL_FACTOR[0])
        print("pool    : %s" % (pc or "trace is accepted by the pool model"))
    except Exception as e:
        print("pool    : %r" % (e,))
    for g in res["guides"]:
        print("  guide ended: %s" % g)
    for e in res["ev"]:
        if e[1] != "load":
            print("  " + " ".join(e))
    return 1 if prob else 0
