"""C14 — flow graph conserves messages, honours node limits; wait_for_all means idle (DESIGN.md §3 C14).

Ties (all against $VERIF_REPO's current headers; every line of C14's mechanism is header code):
  E-MOCK  harness/c14/mock.cpp: the real node classes on a mock r1 task pool whose scheduling decisions come from
          the script; per-operation results, events, pending tasks, wait-vertex count and white-box node state are
          compared line by line with the Lean interpreter `drv_c14 c14sim` (built from FuncInput.step, bcastM,
          InputNode.step, ContinueNode.step — the functions the theorems are about); real broadcast_cache /
          round_robin_cache against `c14cache` exhaustively for <= 6 successors.
  E-REAL  harness/c14/real.cpp: real libtbb, 2-4 external putter threads, arenas of 2-8, generated topologies
          (chain, fan-out, fan-in, diamond, limiter feedback cycle, input_node sources, rejecting stages behind
          buffers), implementation-side monitors only.
"""
import json
import os
import re
import subprocess

import common
from common import BuildError, REPO, cxx_build, drv, first_diff, gen_write, log, sh

STUBS = "harness/common/r1_stubs.cpp"


# ---------------------------------------------------------------------------------------------------
# E-GEN: the slot tests, the decrement and the forwarder-flag updates of function_input_base's handlers are
# re-extracted from the source text on every run; FuncInput.step is defined over them (Generated/C14.lean)
# ---------------------------------------------------------------------------------------------------
NODE_IMPL = os.path.join(REPO, "include/oneapi/tbb/detail/_flow_graph_node_impl.h")
CMP = {"<": "<", "<=": "≤", ">": ">", ">=": "≥", "==": "=", "!=": "≠"}
PRISTINE_GUARD = "decide (conc < maxc)"


def _strip_comments(s):
    s = re.sub(r"//[^\n]*", "", s)
    return re.sub(r"/\*.*?\*/", "", s, flags=re.S)


def _guard(txt):
    """`my_concurrency OP my_max_concurrency` (either order) -> Lean Bool over `conc maxc`; None if not of that shape"""
    m = re.fullmatch(r"\s*(my_concurrency|my_max_concurrency)\s*(<=|>=|==|!=|<|>)\s*(my_concurrency|my_max_concurrency)\s*", txt or "")
    if not m or m.group(1) == m.group(3):
        return None
    nm = {"my_concurrency": "conc", "my_max_concurrency": "maxc"}
    return "decide (%s %s %s)" % (nm[m.group(1)], CMP[m.group(2)], nm[m.group(3)])


def extract_handlers(path):
    src = _strip_comments(open(path).read())
    res = {}
    m = re.search(r"enum\s+op_type\s*\{([^}]*)\}", src)
    res["opTypes"] = [x.strip() for x in m.group(1).split(",") if x.strip()] if m else None
    m = re.search(r"void\s+internal_try_put_task\s*\(\s*operation_type\s*\*\s*op\s*\)\s*\{(.*?)\n    \}", src, re.S)
    body = m.group(1) if m else ""
    g = re.search(r"if\s*\(([^()]*)\)\s*\{\s*\+\+my_concurrency\s*;", body)
    res["tryputFree"] = _guard(g.group(1)) if g else None
    res["tryputQueues"] = bool(re.search(r"else\s+if\s*\(\s*my_queue\s*&&\s*my_queue->push\(", body))
    res["tryputOutcomes"] = [list(x) for x in re.findall(r"op->bypass_t\s*=\s*(\w+)\s*;\s*op->status\.store\(\s*(\w+)", body)]
    m = re.search(r"case\s+app_body_bypass\s*:\s*\{(.*?)\}\s*break\s*;", src, re.S)
    body = m.group(1) if m else ""
    g = re.search(r"if\s*\(([^()]*)\)\s*tmp->bypass_t\s*=\s*perform_queued_requests\(\)\s*;", body)
    res["doneFree"] = _guard(g.group(1)) if g else None
    pre = body[:g.start()] if g else body
    res["doneDecrement"] = len(re.findall(r"--my_concurrency\s*;", pre))
    m = re.search(r"void\s+internal_forward\s*\(\s*operation_type\s*\*\s*op\s*\)\s*\{(.*?)\n    \}", src, re.S)
    body = m.group(1) if m else ""
    g = re.search(r"if\s*\(([^()]*)\)\s*op->bypass_t\s*=\s*perform_queued_requests\(\)\s*;", body)
    res["fwdFree"] = _guard(g.group(1)) if g else None
    res["fwdClearsBusy"] = bool(re.search(r"else\s*\{\s*forwarder_busy\s*=\s*false\s*;\s*op->status\.store\(\s*FAILED", body))
    m = re.search(r"case\s+occupy_concurrency\s*:(.*?)break\s*;", src, re.S)
    body = m.group(1) if m else ""
    g = re.search(r"if\s*\(([^()]*)\)\s*\{\s*\+\+my_concurrency\s*;\s*tmp->status\.store\(\s*SUCCEEDED", body)
    res["occupyFree"] = _guard(g.group(1)) if g else None
    m = re.search(r"case\s+reg_pred\s*:(.*?)break\s*;", src, re.S)
    body = m.group(1) if m else ""
    res["regPredSetsBusy"] = bool(re.search(r"if\s*\(\s*!\s*forwarder_busy\s*\)\s*\{\s*forwarder_busy\s*=\s*true\s*;\s*spawn_forward_task\(\)\s*;", body))
    m = re.search(r"graph_task\*\s+perform_queued_requests\s*\(\s*\)\s*\{(.*?)return new_task;", src, re.S)
    res["pqrIncrements"] = len(re.findall(r"\+\+my_concurrency", m.group(1))) if m else None
    return res


def gen(ck):
    try:
        h = extract_handlers(NODE_IMPL)
    except OSError as e:
        h = {}
        ck.oblige("gen:function_input_base handlers readable", "generated", False, str(e))
    ck.extra["generated_handlers"] = h
    body = ""
    for k in ("tryputFree", "occupyFree", "doneFree", "fwdFree"):
        g = h.get(k)
        ck.oblige("gen:%s translated" % k, "generated", g is not None, "slot test of the handler: %s" % g)
        # an unreadable guard becomes one about which nothing can be proved
        body += "def %s (conc maxc : Nat) : Bool := %s\n" % (k, g if g is not None else "decide (conc < maxc ∧ (conc + maxc) % 2 = 0)")
    body += "def doneDecrement : Nat := %d\n" % (h.get("doneDecrement") or 0)
    body += "def fwdClearsBusy : Bool := %s\n" % ("true" if h.get("fwdClearsBusy") else "false")
    body += "def regPredSetsBusy : Bool := %s\n" % ("true" if h.get("regPredSetsBusy") else "false")
    gen_write("C14", body)
    ck.oblige("gen:op_type = the six modelled handlers", "generated",
              h.get("opTypes") == ["reg_pred", "rem_pred", "try_fwd", "tryput_bypass", "app_body_bypass", "occupy_concurrency"], h.get("opTypes"))
    ck.oblige("gen:internal_try_put_task outcomes = task/SUCCEEDED, SUCCESSFULLY_ENQUEUED/SUCCEEDED (queue push), nullptr/FAILED", "generated",
              h.get("tryputQueues") and h.get("tryputOutcomes") == [["new_task", "SUCCEEDED"], ["SUCCESSFULLY_ENQUEUED", "SUCCEEDED"], ["nullptr", "FAILED"]],
              h.get("tryputOutcomes"))
    ck.oblige("gen:perform_queued_requests increments my_concurrency on both branches", "generated", h.get("pqrIncrements") == 2, h.get("pqrIncrements"))


# ---------------------------------------------------------------------------------------------------
# builds
# ---------------------------------------------------------------------------------------------------
def build_mock():
    return cxx_build("C14", "mock", ["harness/c14/mock.cpp", STUBS], flags=["-O1", "-g", "-fno-access-control"])


def tbb_lib_dir():
    """libtbb of the tree under test; a worktree without _build falls back to /repo/_build (C14 is header-only code)."""
    if os.path.isdir(os.path.join(REPO, "_build")):
        d = common.ensure_repo_built(targets=("tbb",))
        if d:
            return d
    b = "/repo/_build"
    for d in sorted(os.listdir(b)) if os.path.isdir(b) else []:
        if os.path.exists(os.path.join(b, d, "libtbb.so")):
            return os.path.join(b, d)
    raise BuildError("no built libtbb found (neither %s/_build nor /repo/_build)" % REPO)


def build_real():
    d = tbb_lib_dir()
    return cxx_build("C14", "real", ["harness/c14/real.cpp"], flags=["-O1", "-g", "-fno-access-control", "-pthread"],
                     libs=["-L" + d, "-ltbb", "-Wl,-rpath," + d, "-pthread"])


# ---------------------------------------------------------------------------------------------------
# E-MOCK: topology and script generation (the harness is driven interactively so that the generator
# always knows which tasks are pending; the finished script then goes to the Lean model in one batch)
# ---------------------------------------------------------------------------------------------------
class Inter:
    def __init__(self, exe):
        self.p = subprocess.Popen([exe], stdin=subprocess.PIPE, stdout=subprocess.PIPE, text=True, bufsize=1)
        self.lines, self.outs = [], []

    def send(self, line):
        self.p.stdin.write(line + "\n")
        self.p.stdin.flush()
        import select
        rdy, _, _ = select.select([self.p.stdout], [], [], 30)
        if not rdy:
            self.p.kill()
            raise RuntimeError("mock harness hangs on line %d: %r after %r" % (len(self.lines), line, self.lines[-30:]))
        out = self.p.stdout.readline()
        if not out:
            rc = self.p.wait()
            raise RuntimeError("mock harness died (rc=%s) on line %d: %r" % (rc, len(self.lines), line))
        out = out.rstrip("\n")
        self.lines.append(line)
        self.outs.append(out)
        return out

    def close(self):
        try:
            self.p.stdin.close()
            self.p.wait(timeout=20)
        except Exception:
            self.p.kill()
        return self.p.returncode


def parse_out(o):
    f = o.split(" | ")
    if len(f) != 5:
        return None
    vc = f[3].split()
    return {"res": f[0], "ev": [] if f[1] == "-" else f[1].split(), "pool": [] if f[2] == "-" else f[2].split(),
            "v": int(vc[0][2:]), "c": vc[1] == "c=1", "nodes": f[4].split(" ; ")}


def gen_topology(rng):
    """returns (setup lines, meta) ; node ids are assigned in order: inputs, bcs, conts, funcs, sinks (edges go up)."""
    nodes = []   # dicts: kind, ...
    shape = rng.choice(["any", "any", "any", "accepting", "accepting", "pull", "cont"])
    n_in = rng.choice([0, 0, 1, 1, 2]) if shape != "cont" else rng.choice([0, 1])
    if shape == "pull":
        n_in = rng.choice([1, 1, 2])
    for k in range(n_in):
        first = 100 * (k + 1)
        nodes.append({"kind": "input", "first": first, "stop": first + rng.choice([1, 2, 3, 4])})
    n_bc = rng.choice([1, 2, 3]) if shape == "cont" else rng.choice([0, 0, 0, 1])
    for _ in range(n_bc):
        nodes.append({"kind": "bc"})
    n_cont = (rng.choice([1, 2]) if n_bc else 0)
    for _ in range(n_cont):
        nodes.append({"kind": "cont", "lw": rng.choice([0, 0, 1])})
    n_f = rng.choice([1, 2, 2, 3, 3, 4])
    n_px = rng.choice([0, 0, 1, 1, 2]) if shape != "pull" else rng.choice([1, 1, 2])
    px_base = len(nodes)
    for _ in range(n_px):
        nodes.append({"kind": "proxy", "tgt": px_base + n_px + rng.randrange(n_f)})
    for _ in range(n_f):
        if shape == "accepting":
            maxc, pol = rng.choice([(0, "q"), (0, "r"), (1, "q"), (1, "q"), (2, "q"), (3, "q")])
        elif shape == "pull":
            maxc, pol = rng.choice([(1, "r"), (1, "r"), (2, "r"), (1, "q"), (0, "r")])
        else:
            maxc, pol = rng.choice([0, 1, 1, 1, 2, 2, 3]), rng.choice(["q", "r", "r"])
        if rng.random() < 0.2:
            nodes.append({"kind": "mfunc", "maxc": maxc, "pol": pol})
        else:
            nodes.append({"kind": "func", "maxc": maxc, "pol": pol, "lw": 1 if rng.random() < 0.3 else 0})
    n_s = rng.choice([0, 1, 1, 2])
    for _ in range(n_s):
        nodes.append({"kind": "sink", "rejmod": rng.choice([0, 0, 0, 2, 3, 1]), "regok": rng.choice([0, 1])})
    lines = []
    for i, nd in enumerate(nodes):
        k = nd["kind"]
        if k == "input":
            lines.append("node %d input %d %d" % (i, nd["first"], nd["stop"]))
        elif k == "bc":
            lines.append("node %d bc" % i)
        elif k == "cont":
            lines.append("node %d cont %d" % (i, nd["lw"]))
        elif k == "func":
            lines.append("node %d func %d %s %d" % (i, nd["maxc"], nd["pol"], nd["lw"]))
        elif k == "mfunc":
            lines.append("node %d mfunc %d %s" % (i, nd["maxc"], nd["pol"]))
        elif k == "proxy":
            lines.append("node %d proxy %d" % (i, nd["tgt"]))
        else:
            lines.append("node %d sink %d %d" % (i, nd["rejmod"], nd["regok"]))
    edges = set()
    isend = [i for i, nd in enumerate(nodes) if nd["kind"] in ("input", "cont", "func", "mfunc")]
    irecv = [i for i, nd in enumerate(nodes) if nd["kind"] in ("func", "mfunc", "sink", "proxy")]
    for r in irecv:
        cands = [p for p in isend if p < r]
        if not cands:
            continue
        for p in rng.sample(cands, min(len(cands), rng.choice([1, 1, 2, 3]))):
            if rng.random() < 0.85:
                edges.add((p, r))
    for p in isend:   # every sender gets at least one successor when possible
        if not any(e[0] == p for e in edges):
            cands = [r for r in irecv if r > p]
            if cands:
                edges.add((p, rng.choice(cands)))
    bcs = [i for i, nd in enumerate(nodes) if nd["kind"] == "bc"]
    conts = [i for i, nd in enumerate(nodes) if nd["kind"] == "cont"]
    for c in conts:
        for b in bcs:
            if rng.random() < 0.7:
                edges.add((b, c))
    def res(x):
        return nodes[x]["tgt"] if nodes[x]["kind"] == "proxy" else x
    seen_e, uniq = set(), []
    for (a, b) in sorted(edges):
        if (a, res(b)) in seen_e:
            continue
        seen_e.add((a, res(b)))
        uniq.append((a, b))
    edges = uniq
    if rng.random() < 0.5:
        rng.shuffle(edges)
    for (a, b) in edges:
        lines.append("edge %d %d" % (a, b))
    return lines, {"nodes": nodes, "edges": edges, "shape": shape}


def gen_script(rng, exe, nops):
    setup, meta = gen_topology(rng)
    it = Inter(exe)
    try:
        for l in setup:
            it.send(l)
        st = parse_out(it.send("go"))
        nodes = meta["nodes"]
        funcs = [i for i, nd in enumerate(nodes) if nd["kind"] in ("func", "mfunc")]
        inputs = [i for i, nd in enumerate(nodes) if nd["kind"] == "input"]
        sinks = [i for i, nd in enumerate(nodes) if nd["kind"] == "sink"]
        cputs = [i for i, nd in enumerate(nodes) if nd["kind"] in ("bc", "cont")]
        proxies = [i for i, nd in enumerate(nodes) if nd["kind"] == "proxy"]
        holds = set()
        activated = set()
        next_id = [1]
        resv = [0]
        risky = rng.random() < 0.3      # scripts with cancel / throw / reset

        def one():
            r = rng.random()
            pool = st["pool"] if st else []
            if proxies and pool and rng.random() < 0.12:
                px = rng.choice(proxies)
                cands = [t for t in pool if t.startswith("b%d." % nodes[px]["tgt"])]
                if cands:
                    return "hook %d %s" % (px, rng.choice(cands))
            if pool and r < 0.45:
                return "run " + rng.choice(pool)
            if pool and r < 0.52:
                return ("begin " if rng.random() < 0.5 else "end ") + rng.choice(pool)
            if funcs and r < 0.78:
                next_id[0] += 1
                tgt = rng.choice(funcs + (sinks if rng.random() < 0.1 else []))
                return "put %d %d" % (tgt, next_id[0] - 1)
            if inputs and r < 0.84:
                i = rng.choice(inputs)
                activated.add(i)
                return "activate %d" % i
            if cputs and r < 0.90:
                return "cput %d" % rng.choice(cputs)
            if sinks and r < 0.94:
                s = rng.choice(sinks)
                if s in holds and rng.random() < 0.7:
                    holds.discard(s)
                    return rng.choice(["srel %d" % s, "scon %d" % s])
                return rng.choice(["mode %d %d" % (s, rng.choice([0, 1, 2, 3])), "sget %d" % s, "sres %d" % s, "sres %d" % s, "srel %d" % s, "scon %d" % s])
            if r < 0.955:
                if resv[0] and rng.random() < 0.6:
                    resv[0] -= 1
                    return "release"
                resv[0] += 1
                return "reserve"
            if r < 0.975:
                return "wfa"
            if risky and r < 0.985:
                return "cancel"
            if risky and r < 0.993 and pool:
                return "throw " + rng.choice(pool)
            if risky and r < 0.996:
                return "reset"
            return rng.choice(["run b9.9", "frob 1", "put 99 1", "end f0", "release", "put 0"])

        for _ in range(nops):
            l = one()
            if l == "release" and resv[0] < 0:
                resv[0] = 0
            o = it.send(l)
            st = parse_out(o) or st
            if l.startswith("sres ") and o.startswith("1 |"):
                holds.add(int(l.split()[1]))
        # drain
        for _ in range(300):
            if not st or not st["pool"]:
                break
            st = parse_out(it.send("run " + rng.choice(st["pool"]))) or st
        for _ in range(resv[0] + 1):
            o = it.send("release")
            if o == "bad-op":
                it.lines.pop()
                it.outs.pop()
                break
        it.send("wfa")
    finally:
        rc = it.close()
    return it.lines, it.outs, meta, rc


def run_lines_on_impl(exe, lines):
    rc, out, err = sh([exe], input="\n".join(lines) + "\n", timeout=60)
    return out.split("\n")[:-1] if out.endswith("\n") else out.split("\n"), rc, err


# ---------------------------------------------------------------------------------------------------
# implementation-side monitors for mock runs (do not use the model)
# ---------------------------------------------------------------------------------------------------
def path_counts(meta):
    n = len(meta["nodes"])
    succ = {i: [] for i in range(n)}
    for (a, b) in meta["edges"]:
        if meta["nodes"][b]["kind"] == "proxy":
            b = meta["nodes"][b]["tgt"]
        succ[a].append(b)
    memo = {}

    def paths(a, b):
        if a == b:
            return 1
        k = (a, b)
        if k not in memo:
            memo[k] = sum(paths(x, b) for x in succ[a])
        return memo[k]
    return paths


def mock_monitors(meta, lines, outs):
    """returns list of (key, text) property violations observed on the implementation."""
    bad = []
    nodes = meta["nodes"]
    paths = path_counts(meta)
    maxc = {i: nd["maxc"] for i, nd in enumerate(nodes) if nd["kind"] in ("func", "mfunc")}
    origin = {}        # message id -> origin node (accepted external put) ; generated ids / continue outputs by range
    bcount = {}        # (node, msg) -> number of body invocations
    ocount = {}        # (sink, msg) -> number of offers
    resv = 0
    going = False
    cancelled_before = False
    begun = []
    prev_pool = []
    risky = False
    for li, (l, o) in enumerate(zip(lines, outs)):
        w = l.split()
        if o == "bad-op" or o == "ok" and not going and w[0] != "go":
            continue
        st = parse_out(o)
        if st is None:
            continue
        if w[0] == "go":
            going = True
        if w[0] in ("cancel", "throw", "reset"):
            risky = True
        if w[0] == "reserve":
            resv += 1
        if w[0] == "release":
            resv -= 1
        if w[0] == "put" and st["res"] == "1":
            origin[int(w[2])] = int(w[1])
        # (e) no body starts from a task that the dispatcher takes after cancellation
        # (tasks of equal name are interchangeable: same accounting as the harness' dispatcher)
        if w[0] == "begin" and begun.count(w[1]) < prev_pool.count(w[1]) and not cancelled_before:
            begun.append(w[1])
        if w[0] in ("end", "run", "throw"):
            if w[0] == "run" and not cancelled_before and begun.count(w[1]) < prev_pool.count(w[1]):
                begun.append(w[1])
            if w[0] == "throw" and w[1] not in begun:
                begun.append(w[1])
            was_begun = w[1] in begun
            if was_begun:
                begun.remove(w[1])
            if cancelled_before and not was_begun and any(e[0] in "BCG" for e in st["ev"]):
                bad.append(("body-after-cancel", "line %d `%s` after cancellation started bodies: %s" % (li, l, " ".join(st["ev"]))))
        prev_pool = st["pool"]
        for e in st["ev"]:
            if e[0] == "B":
                n, m = e[1:].rstrip("!").split(":")
                bcount[(int(n), int(m))] = bcount.get((int(n), int(m)), 0) + 1
            elif e[0] == "O":
                n, m, _a = e[1:].split(":")
                ocount[(int(n), int(m))] = ocount.get((int(n), int(m)), 0) + 1
        # (a) concurrency limit: live body tasks + white-box counter
        for n, mc in maxc.items():
            if mc == 0:
                continue
            live = sum(1 for t in st["pool"] if t.startswith("b%d." % n))
            conc = int(st["nodes"][n].split(":c")[1].split()[0])
            if live > mc or conc > mc:
                bad.append(("concurrency-limit", "line %d `%s`: node %d (limit %d) has %d live body tasks, my_concurrency=%d" % (li, l, n, mc, live, conc)))
        # (d) wait_for_all may only return when idle
        if st["v"] == 0 and (st["pool"] or resv > 0):
            bad.append(("wait-not-idle", "line %d `%s`: wait vertex is 0 with pending tasks %s / %d reservations: wait_for_all would return" % (li, l, st["pool"], resv)))
        if w[0] == "wfa" and st["res"].startswith("ret") and (st["pool"] or resv > 0):
            bad.append(("wait-not-idle", "line %d: wait_for_all returned with pending tasks %s" % (li, st["pool"])))
        if w[0] == "wfa" and st["res"].startswith("ret"):
            cancelled_before = False
        else:
            cancelled_before = st["c"]
    # final state: idle graph must let wait_for_all return
    last = parse_out(outs[-1]) if outs else None
    if last and not last["pool"] and resv == 0 and last["v"] != 0:
        bad.append(("wait-never-returns", "graph is idle (no task, no reservation) but the wait vertex is %d: wait_for_all cannot return" % last["v"]))

    # (g) a buffering sender whose receivers are all real function nodes is never left holding a message when the graph is idle
    if last and not last["pool"] and not risky:
        succ_of = {}
        for (a, b) in meta["edges"]:
            succ_of.setdefault(a, []).append(nodes[b]["tgt"] if nodes[b]["kind"] == "proxy" else b)
        for i, nd in enumerate(nodes):
            if nd["kind"] != "input" or not any(l == "activate %d" % i for l in lines):
                continue
            ss = succ_of.get(i, [])
            if not ss or not all(nodes[x]["kind"] in ("func", "mfunc") for x in ss):
                continue
            for v in range(nd["first"], nd["stop"]):
                if not any(bcount.get((x, v), 0) for x in ss):
                    bad.append(("stranded-message", "graph idle (no pending task) but item %d of input_node %d was never delivered to any of its successors %s: %s" % (v, i, ss, last["nodes"][i])))
                    break

    def origin_of(m):
        if m in origin:
            return origin[m]
        for i, nd in enumerate(nodes):
            if nd["kind"] == "input" and nd["first"] <= m < nd["stop"]:
                return i
            if nd["kind"] == "cont" and 1000 * i <= m < 1000 * (i + 1) and i > 0:
                return i
        return None
    # (b)/(c) never more often than there are paths (a rejected put gives no origin: 0 paths)
    for (n, m), c in sorted(bcount.items()):
        og = origin_of(m)
        mx = paths(og, n) if og is not None else 0
        if c > mx:
            bad.append(("duplicate-or-phantom", "node %d ran its body %d times for message %d (at most %d path(s) from its origin %s)" % (n, c, m, mx, og)))
    for (n, m), c in sorted(ocount.items()):
        og = origin_of(m)
        mx = (paths(og, n) if og is not None else 0) + sum(1 for l, o in zip(lines, outs) if l == "put %d %d" % (n, m))
        if c > mx and not risky:
            # a sink with regok can be re-offered the same cached item of an input_node: only count accepted offers there
            pass
    # exactly once in accepting graphs without cancellation: every accepted external message reaches every node on every path
    accepting = all(nd["kind"] not in ("func", "mfunc") or nd["pol"] == "q" or nd["maxc"] == 0 for nd in nodes)
    # a scripted sink that rejects AND registers the sender as predecessor takes over the edge (pull mode): not an accepting receiver
    moded = set(int(l.split()[1]) for l in lines if l.startswith("mode ") and len(l.split()) == 3 and l.split()[1].isdigit())
    accepting = accepting and all(nd["kind"] != "sink" or nd["regok"] == 0 or (nd["rejmod"] == 0 and i not in moded) for i, nd in enumerate(nodes))
    drained = last is not None and not last["pool"]
    if accepting and not risky and drained:
        for m, og in sorted(origin.items()):
            if nodes[og]["kind"] not in ("func", "mfunc"):
                continue
            for n, nd in enumerate(nodes):
                if nd["kind"] in ("func", "mfunc") and paths(og, n) != bcount.get((n, m), 0):
                    bad.append(("lost-message", "accepting graph, drained: message %d accepted by node %d ran %d time(s) at node %d, expected %d" % (m, og, bcount.get((n, m), 0), n, paths(og, n))))
                if nd["kind"] == "sink" and paths(og, n) != ocount.get((n, m), 0):
                    bad.append(("lost-message", "accepting graph, drained: message %d accepted by node %d was offered %d time(s) to sink %d, expected %d" % (m, og, ocount.get((n, m), 0), n, paths(og, n))))
    return bad


# ---------------------------------------------------------------------------------------------------
# E-MOCK driver
# ---------------------------------------------------------------------------------------------------
CORPUS = [
    # serial queueing -> serial rejecting -> sink : rejection flips the edge to pull, forwarder polls, edge flips back
    ["node 0 func 1 q 0", "node 1 func 1 r 0", "node 2 sink 0 0", "edge 0 1", "edge 1 2", "go",
     "put 0 1", "put 0 2", "put 0 3", "run b0.1", "run b0.2", "run b1.1", "run b0.3", "run f1", "run b1.3", "wfa"],
    # input_node -> rejecting serial node: the rejected item stays cached and is pulled later
    ["node 0 input 100 103", "node 1 func 1 r 0", "node 2 sink 0 0", "edge 0 1", "edge 1 2", "go",
     "activate 0", "run p0", "run p0", "run f1", "run b1.100", "run p0", "run b1.101", "run p0", "run b1.102", "run p0", "wfa"],
    # lightweight chain with a concurrency-1 lightweight node in the middle
    ["node 0 func 0 q 1", "node 1 func 1 r 1", "node 2 func 2 q 0", "node 3 sink 2 1", "edge 0 1", "edge 1 2", "edge 2 3", "edge 0 3", "go",
     "put 0 1", "put 0 2", "run b2.1", "put 1 4", "run b2.2", "run b2.4", "wfa"],
    # cancellation: pending tasks are cancelled, the begun one completes
    ["node 0 func 2 q 0", "node 1 sink 0 0", "edge 0 1", "go", "put 0 1", "put 0 2", "put 0 3", "begin b0.1", "cancel",
     "end b0.2", "end b0.1", "end b0.3", "wfa", "reset", "put 0 5", "run b0.5", "wfa"],
    # exception in a body
    ["node 0 func 1 q 0", "node 1 sink 0 0", "edge 0 1", "go", "put 0 1", "put 0 2", "throw b0.1", "wfa", "reset", "put 0 3", "run b0.3", "wfa"],
    # continue node with three predecessors, non-lightweight and lightweight
    ["node 0 bc", "node 1 bc", "node 2 bc", "node 3 cont 0", "node 4 cont 1", "node 5 sink 0 0", "edge 0 3", "edge 1 3", "edge 2 3", "edge 0 4", "edge 1 4",
     "edge 3 5", "edge 4 5", "go", "cput 0", "cput 1", "cput 2", "run c3", "cput 0", "cput 0", "cput 2", "cput 1", "run c3", "cput 3", "wfa"],
    # reserve_wait keeps wait_for_all blocked
    ["node 0 func 1 q 0", "go", "reserve", "wfa", "put 0 1", "run b0.1", "wfa", "release", "wfa"],
    # sink pulling from an input node with reservation
    ["node 0 input 100 102", "node 1 sink 1 1", "edge 0 1", "go", "activate 0", "run p0", "sres 1", "srel 1", "run p0", "sget 1", "sres 1", "run p0", "scon 1", "sget 1", "run p0", "run p0", "wfa"],
    # the rejection window: the target's body completes between the rejected try_put_task and register_predecessor (proxy hook)
    ["node 0 input 100 103", "node 1 proxy 2", "node 2 func 1 r 0", "node 3 sink 0 0", "edge 0 1", "edge 2 3", "go",
     "put 2 1", "activate 0", "hook 1 b2.1", "run p0", "wfa", "run f2", "run b2.100", "run p0", "run p0", "hook 1 b2.101", "run p0", "run p0",
     "run f2", "run b2.102", "run p0", "run p0", "wfa"],
    # the same window after an earlier forwarder round: only a forwarder_busy flag that was cleared lets register_predecessor spawn
    # the forwarder that fetches item 200 (R is idle, the edge is in pull mode, nothing else would ever pull)
    ["node 0 input 100 101", "node 1 input 200 201", "node 2 proxy 3", "node 3 func 1 r 0", "node 4 sink 0 0", "edge 0 3", "edge 1 2", "edge 3 4", "go",
     "put 3 1", "activate 0", "run p0", "run f3", "run b3.1", "run b3.100", "put 3 2", "activate 1", "hook 2 b3.2", "run p1", "run p0", "run p0",
     "run f3", "run b3.200", "run p1", "run p1", "wfa"],
    # multifunction node
    ["node 0 mfunc 1 q", "node 1 func 1 r 0", "node 2 sink 3 1", "edge 0 1", "edge 0 2", "edge 1 2", "go",
     "put 0 3", "put 0 6", "put 0 7", "run b0.3", "run b0.6", "run b1.3", "run f1", "run b0.7", "run b1.7", "wfa"],
]


def compare_script(lines, outs):
    """None if the model agrees with the implementation outputs, else (index, impl, model)."""
    mo = drv("c14sim", "\n".join(lines) + "\n")
    d = first_diff(outs, mo)
    if d is None:
        return None
    return (d, outs[d] if d < len(outs) else "<missing>", mo[d] if d < len(mo) else "<missing>")


def shrink_script(exe, lines, still_bad):
    """greedy line removal keeping `still_bad(lines)` true"""
    cur = list(lines)
    changed = True
    rounds = 0
    while changed and rounds < 6:
        changed = False
        rounds += 1
        i = len(cur) - 1
        while i >= 0:
            if cur[i].startswith("node ") or cur[i] == "go":
                i -= 1
                continue
            cand = cur[:i] + cur[i + 1:]
            try:
                if still_bad(cand):
                    cur = cand
                    changed = True
            except Exception:
                pass
            i -= 1
    return cur


def meta_of_lines(lines):
    nodes, edges = [], []
    for l in lines:
        w = l.split()
        if w[0] == "node":
            k = w[2]
            if k == "input":
                nodes.append({"kind": k, "first": int(w[3]), "stop": int(w[4])})
            elif k == "func":
                nodes.append({"kind": k, "maxc": int(w[3]), "pol": w[4], "lw": int(w[5])})
            elif k == "mfunc":
                nodes.append({"kind": k, "maxc": int(w[3]), "pol": w[4]})
            elif k == "cont":
                nodes.append({"kind": k, "lw": int(w[3])})
            elif k == "sink":
                nodes.append({"kind": k, "rejmod": int(w[3]), "regok": int(w[4])})
            elif k == "proxy":
                nodes.append({"kind": k, "tgt": int(w[3])})
            else:
                nodes.append({"kind": k})
        elif w[0] == "edge":
            edges.append((int(w[1]), int(w[2])))
    return {"nodes": nodes, "edges": edges}


def run_mock(ck, exe):
    quick = ck.tier == "quick"
    nscripts = 1500 if quick else 20000
    corr_bad, mon_bad = [], []
    nlines = 0
    scripts = []
    for c in CORPUS:
        outs, rc, err = run_lines_on_impl(exe, c)
        scripts.append((c, outs, meta_of_lines(c), rc))
    for si in range(nscripts):
        try:
            lines, outs, meta, rc = gen_script(ck.rng, exe, ck.rng.choice([12, 25, 40, 60]))
        except RuntimeError as e:
            mon_bad.append((("harness-crash", str(e)), [], None))
            continue
        scripts.append((lines, outs, meta, rc))
    for (lines, outs, meta, rc) in scripts:
        nlines += len(lines)
        kinds = tuple(sorted(set((nd["kind"], nd.get("maxc"), nd.get("pol"), nd.get("lw")) for nd in meta["nodes"])))
        opk = tuple(sorted(set(l.split()[0] for l in lines)))
        ck.count(len(lines), (kinds, opk))
        if rc not in (0, None):
            mon_bad.append((("harness-crash", "mock harness exited with rc=%s" % rc), lines, meta))
        d = compare_script(lines, outs)
        ck.traces_validated += 1
        if d:
            corr_bad.append((d, lines, meta))
        for b in mock_monitors(meta, lines, outs):
            mon_bad.append((b, lines, meta))
    ck.extra["mock"] = {"scripts": len(scripts), "script_lines": nlines}
    if scripts:
        ck.sample({"engine": "E-MOCK", "script": scripts[min(3, len(scripts) - 1)][0][:40], "impl_output_tail": scripts[min(3, len(scripts) - 1)][1][-3:]})
    ck.oblige("corr:E-MOCK real node classes vs Lean interpreter (results, events, pending tasks, wait vertex, white-box node state)",
              "correspondence", not corr_bad,
              "" if not corr_bad else "line %d: impl `%s` model `%s` | script %s" % (corr_bad[0][0][0], corr_bad[0][0][1], corr_bad[0][0][2], corr_bad[0][1]))
    ck.oblige("monitor:E-MOCK concurrency limit, no duplicate/phantom body, exactly-once in accepting graphs, wait vertex 0 => idle, no body after cancel",
              "correspondence", not mon_bad, "" if not mon_bad else "%s | script %s" % (mon_bad[0][0], mon_bad[0][1]))
    # failing-input search: property monitors first, then shrink
    reported = set()
    for (key, text), lines, meta in mon_bad:
        if key in reported or not lines or len(reported) >= 3:
            continue
        reported.add(key)

        def still(ls, key=key):
            outs, rc, err = run_lines_on_impl(exe, ls)
            return any(k == key for (k, _t) in mock_monitors(meta_of_lines(ls), ls, outs))
        small = shrink_script(exe, lines, still)
        outs, rc, err = run_lines_on_impl(exe, small)
        texts = [t for (k, t) in mock_monitors(meta_of_lines(small), small, outs) if k == key]
        ck.counterexample("mock:" + key, texts[0] if texts else text, {"engine": "E-MOCK", "script": small, "monitor": key, "impl_output": outs[-6:]})
    if corr_bad and not mon_bad:
        # the model and the code disagree but no monitor fired on these scripts: search more scripts for a property failure
        found = search_mock(ck, exe, 1500 if quick else 8000)
        if not found:
            d, lines, meta = corr_bad[0]

            def still(ls):
                outs, rc, err = run_lines_on_impl(exe, ls)
                return compare_script(ls, outs) is not None
            small = shrink_script(exe, lines, still)
            ck.extra["corr_diff_min_script"] = small
    return corr_bad, mon_bad


def search_mock(ck, exe, n):
    """more seeds + short scripts, implementation-side monitors only"""
    for si in range(n):
        try:
            lines, outs, meta, rc = gen_script(ck.rng, exe, ck.rng.choice([8, 15, 30, 50]))
        except RuntimeError:
            continue
        bad = mock_monitors(meta, lines, outs)
        if bad:
            key, text = bad[0]

            def still(ls, key=key):
                o, rc, err = run_lines_on_impl(exe, ls)
                return any(k == key for (k, _t) in mock_monitors(meta_of_lines(ls), ls, o))
            small = shrink_script(exe, lines, still)
            o, rc, err = run_lines_on_impl(exe, small)
            texts = [t for (k, t) in mock_monitors(meta_of_lines(small), small, o) if k == key]
            ck.counterexample("mock:" + key, texts[0] if texts else text, {"engine": "E-MOCK", "script": small, "monitor": key, "impl_output": o[-6:]})
            return True
    return False


# ---------------------------------------------------------------------------------------------------
# E-MOCK vs the `Net` machine of the graph-level theorems (graphs of non-lightweight, never-rejecting function nodes)
# ---------------------------------------------------------------------------------------------------
def gen_net_script(rng, exe, nops):
    n = rng.choice([2, 3, 3, 4, 5])
    cfg = [rng.choice([(0, "q"), (0, "r"), (1, "q"), (1, "q"), (2, "q"), (3, "q")]) for _ in range(n)]
    edges = sorted(set((a, b) for a in range(n) for b in range(a + 1, n) if rng.random() < 0.55))
    setup = ["node %d func %d %s 0" % (i, c, p) for i, (c, p) in enumerate(cfg)] + ["edge %d %d" % e for e in edges]
    it = Inter(exe)
    try:
        for l in setup:
            it.send(l)
        st = parse_out(it.send("go"))
        risky = rng.random() < 0.4
        nid, resv, cancelled = 1, 0, False
        for _ in range(nops):
            r = rng.random()
            pool = st["pool"] if st else []
            if pool and r < 0.45:
                l = "run " + rng.choice(pool)
            elif pool and r < 0.55:
                l = ("begin " if rng.random() < 0.5 and not cancelled else "end ") + rng.choice(pool)
            elif r < 0.88 and not cancelled:
                l = "put %d %d" % (rng.randrange(n), nid)
                nid += 1
            elif r < 0.93:
                if resv and rng.random() < 0.6:
                    resv -= 1
                    l = "release"
                else:
                    resv += 1
                    l = "reserve"
            elif risky and r < 0.96:
                l = "cancel"
                cancelled = True
            elif risky and pool and r < 0.985:
                l = "throw " + rng.choice(pool)
            else:
                l = "release" if resv == 0 else "reserve"
                if l == "reserve":
                    resv += 1
            o = it.send(l)
            st = parse_out(o) or st
            if st and st["c"]:
                cancelled = True
        for _ in range(200):
            if not st or not st["pool"]:
                break
            st = parse_out(it.send("run " + rng.choice(st["pool"]))) or st
    finally:
        it.close()
    return it.lines, it.outs, cfg, edges


def net_translate(lines, outs):
    """mock script + implementation outputs -> (net lines, expected net outputs at the compared positions)"""
    net, expect = [], {}
    begun, prev_pool, cancelled = [], [], False

    def nm(t):
        a, b = t[1:].split(".")
        return a + " " + b
    for l, o in zip(lines, outs):
        w = l.split()
        if w[0] == "node":
            net.append("node %s %s %s" % (w[1], w[3], w[4]))
            continue
        if w[0] == "edge":
            net.append(l)
            continue
        if o == "bad-op":
            continue
        st = parse_out(o)
        if st is None:
            continue
        if w[0] in ("go", "cancel", "reserve", "release"):
            net.append(l)
        elif w[0] == "put":
            net.append(l)
        elif w[0] == "begin":
            if begun.count(w[1]) < prev_pool.count(w[1]) and not cancelled:
                begun.append(w[1])
            net.append("start " + nm(w[1]))
        elif w[0] in ("end", "run", "throw"):
            t = w[1]
            if w[0] == "run" and not cancelled and begun.count(t) < prev_pool.count(t):
                begun.append(t)
                net.append("start " + nm(t))
            if w[0] == "throw" and t not in begun:
                begun.append(t)
                net.append("start " + nm(t))
            if w[0] == "end" and not cancelled and t not in begun:
                # the dispatcher takes the task now
                net.append("start " + nm(t))
                begun.append(t)
            was = t in begun
            if was:
                begun.remove(t)
            if w[0] == "throw":
                net.append("throw " + nm(t))
            elif was:
                net.append("finish " + nm(t))
            else:
                net.append("drop " + nm(t))
        else:
            continue
        res = st["res"] if w[0] == "put" else "1"
        expect[len(net) - 1] = "%s | v=%d c=%d | %s" % (res, st["v"], 1 if st["c"] else 0,
                                                      " ; ".join(" ".join(x.split()[:2]) for x in st["nodes"]))
        prev_pool = st["pool"]
        cancelled = st["c"]
    return net, expect


def run_net(ck, exe):
    quick = ck.tier == "quick"
    bad = None
    n = 0
    for si in range(150 if quick else 3000):
        lines, outs, cfg, edges = gen_net_script(ck.rng, exe, ck.rng.choice([10, 25, 45]))
        net, expect = net_translate(lines, outs)
        mo = drv("c14net", "\n".join(net) + "\n")
        n += len(expect)
        ck.count(len(expect), ("net", tuple(cfg), len(edges)))
        ck.traces_validated += 1
        for i, e in sorted(expect.items()):
            if i >= len(mo) or mo[i] != e:
                bad = (lines, net[i], e, mo[i] if i < len(mo) else "<missing>")
                break
        if bad:
            break
    ck.extra["net"] = {"compared_states": n}
    ck.oblige("corr:E-MOCK vs the Net machine of graph_conservation / wait_for_all_idle / no_body_after_cancel (per-node my_concurrency and queue, "
              "wait vertex, cancellation) on graphs of queueing/unlimited function nodes", "correspondence", bad is None,
              "" if bad is None else "net op `%s`: impl `%s` Net `%s` | script %s" % (bad[1], bad[2], bad[3], bad[0]))


def run_cache(ck, exe):
    lines = []
    import itertools
    for kind in ("bc", "rr"):
        for n in range(0, 7 if ck.tier == "quick" else 9):
            for combo in itertools.product("atf", repeat=n):
                lines.append(kind + (" " if combo else "") + " ".join(combo))
    lines += ["bc x", "zz a", "rr a b"]
    rc, out, err = sh([exe, "cache"], input="\n".join(lines) + "\n", timeout=300)
    io = out.split("\n")[:-1]
    mo = drv("c14cache", "\n".join(lines) + "\n")
    d = first_diff(io, mo)
    ck.count(len(lines), ("cache", "exhaustive"))
    ck.oblige("corr:real broadcast_cache / round_robin_cache try_put_task vs bcastM / rrM (offers, remaining successors), exhaustive up to %d successors" % (6 if ck.tier == "quick" else 8),
              "correspondence", d is None and rc == 0, "" if d is None else "`%s`: impl `%s` model `%s`" % (lines[d] if d < len(lines) else "?", io[d] if d < len(io) else "<missing>", mo[d] if d < len(mo) else "<missing>"))
    # implementation-side property monitor: broadcast offers everyone exactly once; round-robin has at most one acceptor, the last one asked
    bad = None
    for l, o in zip(lines, io):
        if o == "bad-op":
            continue
        w = l.split()
        offers = [] if o.split(" | ")[0] == "-" else o.split(" | ")[0].split()
        rem = [] if o.split(" | ")[1] == "-" else o.split(" | ")[1].split(",")
        n = len(w) - 1
        exp_rem = [str(i) for i in range(n) if w[1 + i] != "t"]
        if w[0] == "bc":
            ok = [x[:-1] for x in offers] == [str(i) for i in range(n)] and rem == exp_rem
        else:
            acc = [x for x in offers if x.endswith("a")]
            k = len(offers)
            ok = len(acc) <= 1 and (not acc or offers[-1].endswith("a")) and [x[:-1] for x in offers] == [str(i) for i in range(k)] \
                and (acc or k == n) and rem == [str(i) for i in range(n) if not (i < k and w[1 + i] == "t")]
        if not ok:
            bad = (l, o)
            break
    ck.oblige("monitor:successor caches: broadcast = every successor once in order, round-robin = exactly one acceptor; an edge is erased iff rejected and register_predecessor succeeded",
              "correspondence", bad is None, "" if bad is None else "`%s` -> `%s`" % bad)
    if bad:
        ck.counterexample("cache:" + bad[0].split()[0], "successor cache `%s` produced offers/remaining `%s`" % bad, {"engine": "E-MOCK", "cache_line": bad[0], "impl_output": bad[1]})


# ---------------------------------------------------------------------------------------------------
# E-REAL
# ---------------------------------------------------------------------------------------------------
REAL_TOPOS = ["chain", "fanout", "fanin", "diamond", "limiter", "input", "rejecting", "lightweight", "cancel", "throw", "reserve"]


def real_cases(ck):
    quick = ck.tier == "quick"
    cases = []
    n = 99 if quick else 2200
    for i in range(n):
        topo = REAL_TOPOS[i % len(REAL_TOPOS)]
        cases.append({"topo": topo, "seed": ck.rng.randrange(1 << 30), "putters": ck.rng.choice([2, 3, 4]), "arena": ck.rng.choice([2, 3, 4, 8]),
                      "msgs": ck.rng.choice([50, 200, 600]) if quick else ck.rng.choice([100, 500, 2000]),
                      "depth": ck.rng.choice([1, 2, 3, 5]), "width": ck.rng.choice([2, 3, 4])})
    # the rejection / edge-flip race needs many hand-overs per run: long runs of the pull-protocol topologies
    for i in range(40 if quick else 800):
        cases.append({"topo": ["input", "rejecting", "limiter"][i % 3], "seed": ck.rng.randrange(1 << 30), "putters": ck.rng.choice([2, 4]),
                      "arena": ck.rng.choice([4, 8]), "msgs": ck.rng.choice([2000, 4000]), "depth": 2, "width": 2})
    return cases


def run_real_case(exe, c, timeout=120):
    args = [exe, c["topo"], str(c["seed"]), str(c["putters"]), str(c["arena"]), str(c["msgs"]), str(c["depth"]), str(c["width"])]
    rc, out, err = sh(args, timeout=timeout)
    res = None
    for l in out.split("\n"):
        if l.startswith("{"):
            try:
                res = json.loads(l)
            except ValueError:
                pass
    return rc, res, (out + err)[-600:]


def run_real(ck, exe):
    bad = []
    ncases = 0
    for c in real_cases(ck):
        rc, res, tail = run_real_case(exe, c)
        ncases += 1
        if res is None or rc not in (0, 1):
            bad.append((c, {"violations": ["harness rc=%s: %s" % (rc, tail)]}))
            if len(bad) >= 4:
                break
            continue
        ck.count(res.get("bodies", 0), ("real", c["topo"], c["putters"], c["arena"], min(3, res.get("max_live", 0))))
        if res.get("violations"):
            bad.append((c, res))
        if len(bad) >= 4 or (bad and any(x.startswith("hang") for x in bad[-1][1]["violations"]) and len(bad) >= 2):
            break      # enough failing cases to report; do not wait for more (a broken tree may make every case hang)
        if ncases <= 2:
            ck.sample({"engine": "E-REAL", "case": c, "result": {k: res[k] for k in res if k != "violations"}})
    ck.extra["real"] = {"cases": ncases}
    ck.oblige("monitor:E-REAL multi-threaded runs: live bodies <= limit, every accepted message processed exactly once, sink multiset = source multiset, "
              "wait_for_all returns idle, no body after cancel/exception", "correspondence", not bad,
              "" if not bad else "%s | case %s" % (bad[0][1]["violations"][:2], bad[0][0]))
    seen = set()
    for c, res in bad:
        v = res["violations"][0]
        key = "real:" + c["topo"] + ":" + v.split(":")[0].replace(" ", "-")
        if key in seen or len(seen) >= 2:
            continue
        seen.add(key)
        # shrink: fewer messages / threads while it still fails (3 attempts each)
        cur = dict(c)
        fields = (("msgs", [5, 20, 50]), ("putters", [1, 2]), ("arena", [2]), ("depth", [1]), ("width", [2]))
        if v.startswith("hang") or v.startswith("harness"):
            fields = (("msgs", [5]),)       # every attempt costs the watchdog's 10 s
        for field, vals in fields:
            for v2 in vals:
                if v2 >= cur[field]:
                    continue
                t = dict(cur)
                t[field] = v2
                if any((run_real_case(exe, t)[1] or {}).get("violations") for _ in range(3)):
                    cur = t
                    break
        ck.counterexample(key, "%s on topology %s (%d putter threads, arena %d, %d messages)" % (v, cur["topo"], cur["putters"], cur["arena"], cur["msgs"]),
                          {"engine": "E-REAL", "case": cur, "violations": res["violations"][:5], "repeat": 20})
    return bad


# ---------------------------------------------------------------------------------------------------
def run(ck):
    ck.rule = ("E-GEN: slot tests / decrement / forwarder-flag updates of the function_input_base handlers re-extracted from the source text. "
               "E-MOCK: hand-written corpus + seeded random topologies (input nodes, continue sub-graphs, function/multifunction nodes with limit 0-3, "
               "queueing/rejecting, lightweight or not, scripted sinks, proxies that open the window between a rejected try_put_task and "
               "register_predecessor; DAG edges) driven by seeded random scripts of external try_puts, task begin/end in arbitrary order, activate, "
               "cancel, throw, reset, reserve/release, wait_for_all, sink pulls/reservations, hooks, malformed lines; the same on graphs of "
               "never-rejecting function nodes against the Net machine; distinct = distinct (set of node configurations, set of op kinds). "
               "Caches: exhaustive response vectors. E-REAL: 11 topology families x random sizes, 2-4 putter threads, arena 2-8, plus long runs of "
               "the pull-protocol topologies.")
    ck.assumptions += [
        "modelled and proved: function_input_base handlers (all op sequences), broadcast/round-robin try_put_task, continue_receiver counters, input_node "
        "flag protocol, input_node->rejecting-node push/pull switching (all task-level interleavings with foreign try_puts), graphs of queueing/unlimited "
        "function nodes with the wait-context vertex, cancellation and exceptions (all operation-level interleavings)",
        "each aggregator handler / mutex-protected cache operation is one atomic step (justified by the aggregator's serial execution, C13's theorem); "
        "the window between a rejected try_put_task and register_predecessor is covered at node level (any op order) and sampled through proxies",
        "graph_conservation is proved for graphs of function nodes; buffering nodes (queue, join, limiter, ...) are C15's models and appear here only in "
        "E-REAL monitors",
        "not modelled: async_node gateway lifetime, try_put_and_wait metainfo reference counting, priorities (prioritize_task), thread-local reference "
        "vertices (the mock maps them to the graph's vertex), graph::reset with rf_clear_edges/rf_reset_bodies, nodes created while the graph is inactive",
        "E-MOCK replaces r1 (task pool, context, arena) by a scripted single-threaded pool: true parallel overlap of bodies is covered by the theorems "
        "(all op sequences) and sampled by E-REAL",
        "no_body_after_cancel is about tasks taken by the dispatcher after cancellation; a lightweight body invoked inline by an already running task or by "
        "an external try_put is not prevented by the code and is not flagged; an exception thrown in an already cancelled context is dropped by the "
        "dispatcher (wait_for_all then reports cancellation only) and is modelled so"]
    ck.trusted += ["checks/c14.py extract_handlers (E-GEN regexes)", "harness/c14/mock.cpp (mock r1 + white-box dump)", "harness/c14/real.cpp monitors",
                   "checks/c14.py monitors, script generator and Net translation"]
    gen(ck)
    ck.lean_stage()
    mock = build_mock()
    run_cache(ck, mock)
    run_mock(ck, mock)
    run_net(ck, mock)
    real = build_real()
    run_real(ck, real)


def replay(ck, obj):
    r = obj["replay"]
    if r.get("engine") == "E-MOCK" and "script" in r:
        exe = build_mock()
        outs, rc, err = run_lines_on_impl(exe, r["script"])
        bad = mock_monitors(meta_of_lines(r["script"]), r["script"], outs)
        for l, o in zip(r["script"], outs):
            print("%-16s %s" % (l, o))
        for k, t in bad:
            print("MONITOR %s: %s" % (k, t))
        return 1 if any(k == r.get("monitor") for k, _ in bad) or rc != 0 else 0
    if r.get("engine") == "E-MOCK" and "cache_line" in r:
        exe = build_mock()
        rc, out, err = sh([exe, "cache"], input=r["cache_line"] + "\n", timeout=60)
        print(r["cache_line"], "->", out.strip(), "(recorded:", r["impl_output"], ")")
        mo = drv("c14cache", r["cache_line"] + "\n")
        return 0 if out.strip() == mo[0] else 1
    if r.get("engine") == "E-REAL":
        exe = build_real()
        fails = 0
        for i in range(int(r.get("repeat", 20))):
            rc, res, tail = run_real_case(exe, r["case"])
            if res is None or res.get("violations"):
                fails += 1
                print("run %d: %s" % (i, (res or {}).get("violations", [tail])[:2]))
        print("%d/%d runs violate the property" % (fails, int(r.get("repeat", 20))))
        return 1 if fails else 0
    print("unknown replay object")
    return 2
