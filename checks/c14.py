"""C14 — flow graph conserves messages, honours node limits; wait_for_all means idle (DESIGN.md §3 C14).

Ties (all against $VERIF_REPO's current headers; every line of C14's mechanism is header code):
  E-MOCK  harness/c14/mock.cpp: the real node classes on a mock r1 task pool whose scheduling decisions come from
          the script; per-operation results, events, pending tasks, wait-vertex count and white-box node state are
          compared line by line with the Lean interpreter `drv_c14 c14sim` (built from FuncInput.step, bcastM,
          InputNode.step, ContinueNode.step — the functions the theorems are about); real broadcast_cache /
          round_robin_cache against `c14cache` exhaustively for <= 6 successors.
  E-REAL  harness/c14/real.cpp: real libtbb, 2-4 external putter threads, arenas of 2-8, generated topologies
          (chain, fan-out, fan-in, diamond, limiter feedback cycle, input_node sources, rejecting stages behind
          buffers), implementation-side monitors only.
"""
import json
import os
import re
import subprocess

import common
from common import BuildError, REPO, cxx_build, drv, first_diff, gen_write, log, sh

STUBS = "harness/common/r1_stubs.cpp"


# ---------------------------------------------------------------------------------------------------
# E-GEN: the slot tests, the decrement and the forwarder-flag updates of function_input_base's handlers are
# re-extracted from the source text on every run; FuncInput.step is defined over them (Generated/C14.lean)
# ---------------------------------------------------------------------------------------------------
NODE_IMPL = os.path.join(REPO, "include/oneapi/tbb/detail/_flow_graph_node_impl.h")
CMP = {"<": "<", "<=": "≤", ">": ">", ">=": "≥", "==": "=", "!=": "≠"}
PRISTINE_GUARD = "decide (conc < maxc)"


def _strip_comments(s):
    s = re.sub(r"//[^\n]*", "", s)
    return re.sub(r"/\*.*?\*/", "", s, flags=re.S)


def _guard(txt):
    """`my_concurrency OP my_max_concurrency` (either order) -> Lean Bool over `conc maxc`; None if not of that shape"""
    m = re.fullmatch(r"\s*(my_concurrency|my_max_concurrency)\s*(<=|>=|==|!=|<|>)\s*(my_concurrency|my_max_concurrency)\s*", txt or "")
    if not m or m.group(1) == m.group(3):
        return None
    nm = {"my_concurrency": "conc", "my_max_concurrency": "maxc"}
    return "decide (%s %s %s)" % (nm[m.group(1)], CMP[m.group(2)], nm[m.group(3)])


def extract_handlers(path):
    src = _strip_comments(open(path).read())
    res = {}
    m = re.search(r"enum\s+op_type\s*\{([^}]*)\}", src)
    res["opTypes"] = [x.strip() for x in m.group(1).split(",") if x.strip()] if m else None
    m = re.search(r"void\s+internal_try_put_task\s*\(\s*operation_type\s*\*\s*op\s*\)\s*\{(.*?)\n    \}", src, re.S)
    body = m.group(1) if m else ""
    g = re.search(r"if\s*\(([^()]*)\)\s*\{\s*\+\+my_concurrency\s*;", body)
    res["tryputFree"] = _guard(g.group(1)) if g else None
    res["tryputQueues"] = bool(re.search(r"else\s+if\s*\(\s*my_queue\s*&&\s*my_queue->push\(", body))
    res["tryputOutcomes"] = [list(x) for x in re.findall(r"op->bypass_t\s*=\s*(\w+)\s*;\s*op->status\.store\(\s*(\w+)", body)]
    m = re.search(r"case\s+app_body_bypass\s*:\s*\{(.*?)\}\s*break\s*;", src, re.S)
    body = m.group(1) if m else ""
    g = re.search(r"if\s*\(([^()]*)\)\s*tmp->bypass_t\s*=\s*perform_queued_requests\(\)\s*;", body)
    res["doneFree"] = _guard(g.group(1)) if g else None
    pre = body[:g.start()] if g else body
    res["doneDecrement"] = len(re.findall(r"--my_concurrency\s*;", pre))
    m = re.search(r"void\s+internal_forward\s*\(\s*operation_type\s*\*\s*op\s*\)\s*\{(.*?)\n    \}", src, re.S)
    body = m.group(1) if m else ""
    g = re.search(r"if\s*\(([^()]*)\)\s*op->bypass_t\s*=\s*perform_queued_requests\(\)\s*;", body)
    res["fwdFree"] = _guard(g.group(1)) if g else None
    res["fwdClearsBusy"] = bool(re.search(r"else\s*\{\s*forwarder_busy\s*=\s*false\s*;\s*op->status\.store\(\s*FAILED", body))
    m = re.search(r"case\s+occupy_concurrency\s*:(.*?)break\s*;", src, re.S)
    body = m.group(1) if m else ""
    g = re.search(r"if\s*\(([^()]*)\)\s*\{\s*\+\+my_concurrency\s*;\s*tmp->status\.store\(\s*SUCCEEDED", body)
    res["occupyFree"] = _guard(g.group(1)) if g else None
    m = re.search(r"case\s+reg_pred\s*:(.*?)break\s*;", src, re.S)
    body = m.group(1) if m else ""
    res["regPredSetsBusy"] = bool(re.search(r"if\s*\(\s*!\s*forwarder_busy\s*\)\s*\{\s*forwarder_busy\s*=\s*true\s*;\s*spawn_forward_task\(\)\s*;", body))
    m = re.search(r"graph_task\*\s+perform_queued_requests\s*\(\s*\)\s*\{(.*?)return new_task;", src, re.S)
    res["pqrIncrements"] = len(re.findall(r"\+\+my_concurrency", m.group(1))) if m else None
    return res


def gen(ck):
    try:
        h = extract_handlers(NODE_IMPL)
    except OSError as e:
        h = {}
        ck.oblige("gen:function_input_base handlers readable", "generated", False, str(e))
    ck.extra["generated_handlers"] = h
    body = ""
    for k in ("tryputFree", "occupyFree", "doneFree", "fwdFree"):
        g = h.get(k)
        ck.oblige("gen:%s translated" % k, "generated", g is not None, "slot test of the handler: %s" % g)
        # an unreadable guard becomes one about which nothing can be proved
        body += "def %s (conc maxc : Nat) : Bool := %s\n" % (k, g if g is not None else "decide (conc < maxc ∧ (conc + maxc) % 2 = 0)")
    body += "def doneDecrement : Nat := %d\n" % (h.get("doneDecrement") or 0)
    body += "def fwdClearsBusy : Bool := %s\n" % ("true" if h.get("fwdClearsBusy") else "false")
    body += "def regPredSetsBusy : Bool := %s\n" % ("true" if h.get("regPredSetsBusy") else "false")
    gen_write("C14", body)
    ck.oblige("gen:op_type = the six modelled handlers", "generated",
              h.get("opTypes") == ["reg_pred", "rem_pred", "try_fwd", "tryput_bypass", "app_body_bypass", "occupy_concurrency"], h.get("opTypes"))
    ck.oblige("gen:internal_try_put_task outcomes = task/SUCCEEDED, SUCCESSFULLY_ENQUEUED/SUCCEEDED (queue push), nullptr/FAILED", "generated",
              h.get("tryputQueues") and h.get("tryputOutcomes") == [["new_task", "SUCCEEDED"], ["SUCCESSFULLY_ENQUEUED", "SUCCEEDED"], ["nullptr", "FAILED"]],
              h.get("tryputOutcomes"))
    ck.oblige("gen:perform_queued_requests increments my_concurrency on both branches", "generated", h.get("pqrIncrements") == 2, h.get("pqrIncrements"))



# ---------------------------------------------------------------------------------------------------
# E-GEN (a): the structural facts of reservable_predecessor_cache, limiter_node::forward_task and
# input_node::apply_body_bypass / try_reserve_apply_body that the reservation theorems depend on
# (Generated/C14Res.lean; Res.genFlags / Res.genIFlags are built from them, `by decide` checks Flags.ok)
# ---------------------------------------------------------------------------------------------------
CACHE_IMPL = os.path.join(REPO, "include/oneapi/tbb/detail/_flow_graph_cache_impl.h")
FLOW_GRAPH_H = os.path.join(REPO, "include/oneapi/tbb/flow_graph.h")


def _norm(s):
    """comments and preprocessor-conditional metainfo arguments removed, whitespace squeezed"""
    s = _strip_comments(s)
    s = re.sub(r"__TBB_FLOW_GRAPH_METAINFO_ARG\((?:[^()]|\([^()]*\))*\)", "", s)
    s = re.sub(r"#if[^\n]*\n.*?#endif[^\n]*\n", lambda m: "" if "message_metainfo" in m.group(0) or "metainfo" in m.group(0) else m.group(0), s, flags=re.S)
    return re.sub(r"\s+", " ", s)


def _body_after(src, head_re):
    """text of the brace-balanced block that follows the first match of head_re (None if absent)"""
    m = re.search(head_re, src)
    if not m:
        return None
    i = src.find("{", m.end() - 1)
    if i < 0:
        return None
    depth, j = 0, i
    while j < len(src):
        if src[j] == "{":
            depth += 1
        elif src[j] == "}":
            depth -= 1
            if depth == 0:
                return src[i + 1:j]
        j += 1
    return None


def _class_text(src, head_re):
    b = _body_after(src, head_re)
    return b


def extract_reservation(cache_path, fg_path):
    res = {"known": True, "why": []}

    def unknown(msg):
        res["known"] = False
        res["why"].append(msg)
    cache = _norm(open(cache_path).read())
    fg = _norm(open(fg_path).read())
    rc = _class_text(cache, r"class reservable_predecessor_cache\b[^{;]*\{")
    if rc is None:
        unknown("class reservable_predecessor_cache not found")
        rc = ""
    # try_reserve_impl: first locked section
    tr = _body_after(rc, r"bool try_reserve_impl\s*\([^)]*\)\s*\{") or ""
    guard = re.search(r"if\s*\(([^{};]*)\)\s*\{?\s*return false\s*;", tr)
    gtxt = guard.group(1) if guard else ""
    res["reserveChecksSrc"] = bool(re.search(r"reserved_src(\.load\([^)]*\))?", gtxt)) and "!" not in gtxt.split("reserved_src")[0][-2:]
    if not re.search(r"internal_empty\(\)", gtxt):
        unknown("try_reserve_impl: the emptiness test of the first locked section was not recognised: %r" % gtxt)
    if not re.search(r"reserved_src\.store\(\s*pred\b", tr) and not re.search(r"reserved_src\s*=\s*pred\b", tr):
        unknown("try_reserve_impl no longer stores the popped predecessor into reserved_src")
    if not re.search(r"register_successor\(\s*\*pred\s*,\s*\*this->my_owner\s*\)\s*;\s*reserved_src\.store\(\s*nullptr", tr):
        unknown("try_reserve_impl: failed-reserve clean-up (register_successor; reserved_src = nullptr) not recognised")
    if not re.search(r"this->add\(\s*\*pred\s*\)", tr):
        unknown("try_reserve_impl no longer re-adds the predecessor after a successful reserve")
    for name, call in (("release", "try_release"), ("consume", "try_consume")):
        b = _body_after(rc, r"bool %s\s*\(\s*\)\s*\{" % call)
        if b is None:
            unknown("reservable_predecessor_cache::%s not found" % call)
            b = ""
        plain = re.fullmatch(r"\s*reserved_src\.load\([^)]*\)->%s\(\s*\)\s*;\s*reserved_src\.store\(\s*nullptr[^)]*\)\s*;\s*return true\s*;\s*" % call, b)
        tol = re.fullmatch(r"\s*(?:[\w:<>\*\s]+?)\s+(\w+)\s*=\s*reserved_src\.load\([^)]*\)\s*;\s*if\s*\(\s*!\s*\1\s*\)\s*\{?\s*return false\s*;\s*\}?\s*\1->%s\(\s*\)\s*;\s*"
                           r"reserved_src\.store\(\s*nullptr[^)]*\)\s*;\s*return true\s*;\s*" % call, b)
        res[name + "NullTolerant"] = bool(tol)
        if not plain and not tol:
            unknown("reservable_predecessor_cache::%s has an unrecognised body: %r" % (call, b[:200]))
    # limiter_node::forward_task
    lim = _class_text(fg, r"class limiter_node\s*:[^{;]*\{")
    ft = _body_after(lim or "", r"graph_task\s*\*\s*forward_task\s*\(\s*\)\s*\{")
    if ft is None:
        unknown("limiter_node::forward_task not found")
        ft = ""
    mres = re.search(r"if\s*\(\s*\(?\s*my_predecessors\.try_reserve\(\s*\w+\s*\)\s*\)?\s*(?:==\s*true)?\s*\)\s*\{", ft)
    if not mres:
        unknown("forward_task: `if (my_predecessors.try_reserve(v))` not recognised")
        ok_block, rest = "", ft
    else:
        ok_block = _body_after(ft[mres.start():], r"if") or ""
        rest = ft[mres.start() + len(ok_block):]
    mflag = re.search(r"bool\s+(\w+)\s*=\s*false\s*;", ft[:mres.start()] if mres else ft)
    flag = mflag.group(1) if mflag else None
    res["limSetsReserved"] = bool(flag and re.match(r"\s*%s\s*=\s*true\s*;" % re.escape(flag), ok_block))
    mput = re.search(r"if\s*\(\s*\(?\s*(\w+)\s*=\s*my_successors\.try_put_task\(\s*\w+\s*\)\s*\)?\s*(?:!=\s*nullptr)?\s*\)\s*\{", ok_block)
    succ = (_body_after(ok_block[mput.start():], r"if") or "") if mput else ""
    if not mput:
        unknown("forward_task: `if ((rval = my_successors.try_put_task(v)) != nullptr)` not recognised")
    res["limSuccessConsumes"] = bool(re.search(r"(?<![\w(])my_predecessors\.try_consume\(\s*\)\s*;", succ)) and "try_release" not in succ
    if "try_release" in ok_block or len(re.findall(r"try_consume", ft)) > 1:
        unknown("forward_task: unexpected release/consume calls in the success block")
    # failure section = the last brace block of the function
    fail = rest
    g = re.search(r"(if\s*\(\s*(\w+)\s*\)\s*\{?\s*)?my_predecessors\.try_release\(\s*\)\s*;", fail)
    res["limFailReleases"] = bool(g)
    res["limFailGuarded"] = bool(g and g.group(1) and flag and g.group(2) == flag)
    if g and g.group(1) and not res["limFailGuarded"]:
        unknown("forward_task: the failure path's try_release is guarded by something that is not the local reserved flag")
    if "try_consume" in fail:
        unknown("forward_task: try_consume on the failure path")
    # input_node
    inp = _class_text(fg, r"class input_node\s*:[^{;]*\{")
    ra = _body_after(inp or "", r"bool try_reserve_apply_body\s*\([^)]*\)\s*\{")
    if ra is None:
        unknown("input_node::try_reserve_apply_body not found")
        ra = ""
    res["inReserveChecksReserved"] = bool(re.search(r"scoped_lock \w+\(\s*my_mutex\s*\)\s*;\s*if\s*\(\s*my_reserved\s*\)\s*\{?\s*return false\s*;", ra))
    res["inBodyOnlyWhenEmpty"] = bool(re.search(r"if\s*\(\s*!\s*my_has_cached_item\s*\)\s*\{[^{}]*\(\s*\*my_body\s*\)\s*\(", ra)) and len(re.findall(r"\(\s*\*my_body\s*\)\s*\(", ra)) == 1
    if not re.search(r"if\s*\(\s*my_has_cached_item\s*\)\s*\{\s*\w+\s*=\s*my_cached_item\s*;\s*my_reserved\s*=\s*true\s*;\s*return true\s*;", ra):
        unknown("try_reserve_apply_body: `if (my_has_cached_item) { v = my_cached_item; my_reserved = true; return true; }` not recognised")
    ab = _body_after(inp or "", r"graph_task\s*\*\s*apply_body_bypass\s*\(\s*\)\s*\{")
    if ab is None:
        unknown("input_node::apply_body_bypass not found")
        ab = ""
    res["inApplyReturnsOnFail"] = bool(re.search(r"if\s*\(\s*!\s*try_reserve_apply_body\(\s*\w+\s*\)\s*\)\s*\{?\s*return nullptr\s*;", ab))
    mc = re.search(r"graph_task\s*\*\s*(\w+)\s*=\s*my_successors\.try_put_task\(\s*\w+\s*\)\s*;\s*if\s*\(\s*(\w+)\s*\)\s*\{?\s*(try_\w+)\(\s*\)\s*;\s*\}?\s*else\s*\{?\s*(try_\w+)\(\s*\)\s*;", ab)
    res["inApplyConsumesOnAccept"] = bool(mc and mc.group(1) == mc.group(2) and mc.group(3) == "try_consume")
    res["inApplyReleasesOnReject"] = bool(mc and mc.group(1) == mc.group(2) and mc.group(4) == "try_release")
    if not mc:
        unknown("apply_body_bypass: `if (last_task) try_consume(); else try_release();` not recognised")
    return res


RES_FLAGS = ["reserveChecksSrc", "limSetsReserved", "limFailReleases", "limFailGuarded", "limSuccessConsumes", "releaseNullTolerant", "consumeNullTolerant",
             "inReserveChecksReserved", "inBodyOnlyWhenEmpty", "inApplyReturnsOnFail", "inApplyConsumesOnAccept", "inApplyReleasesOnReject"]


def gen_res(ck):
    try:
        r = extract_reservation(CACHE_IMPL, FLOW_GRAPH_H)
    except OSError as e:
        r = {"known": False, "why": [str(e)]}
    ck.extra["generated_reservation"] = r
    ck.oblige("gen:reservation skeleton of reservable_predecessor_cache / limiter_node::forward_task / input_node::apply_body_bypass recognised",
              "generated", r.get("known", False), "; ".join(r.get("why", [])) or str({k: r.get(k) for k in RES_FLAGS}))
    body = "def skeletonKnown : Bool := %s\n" % ("true" if r.get("known") else "false")
    for k in RES_FLAGS:
        body += "def %s : Bool := %s\n" % (k, "true" if r.get(k) else "false")
    gen_write("C14Res", body)


# ---------------------------------------------------------------------------------------------------
# builds
# ---------------------------------------------------------------------------------------------------
def build_mock():
    return cxx_build("C14", "mock", ["harness/c14/mock.cpp", STUBS], flags=["-O1", "-g", "-fno-access-control"])


def tbb_lib_dir():
    """libtbb of the tree under test; a worktree without _build falls back to /repo/_build (C14 is header-only code)."""
    if os.path.isdir(os.path.join(REPO, "_build")):
        d = common.ensure_repo_built(targets=("tbb",))
        if d:
            return d
    b = "/repo/_build"
    for d in sorted(os.listdir(b)) if os.path.isdir(b) else []:
        if os.path.exists(os.path.join(b, d, "libtbb.so")):
            return os.path.join(b, d)
    raise BuildError("no built libtbb found (neither %s/_build nor /repo/_build)" % REPO)


def build_real(preview=False):
    d = tbb_lib_dir()
    return cxx_build("C14", "real_tpw" if preview else "real", ["harness/c14/real.cpp"],
                     flags=["-O1", "-g", "-fno-access-control", "-pthread"] + (["-DTBB_PREVIEW_FLOW_GRAPH_TRY_PUT_AND_WAIT=1"] if preview else []),
                     libs=["-L" + d, "-ltbb", "-Wl,-rpath," + d, "-pthread"])


# ---------------------------------------------------------------------------------------------------
# E-MOCK: topology and script generation (the harness is driven interactively so that the generator
# always knows which tasks are pending; the finished script then goes to the Lean model in one batch)
# ---------------------------------------------------------------------------------------------------
class Inter:
    def __init__(self, exe, args=()):
        self.p = subprocess.Popen([exe] + list(args), stdin=subprocess.PIPE, stdout=subprocess.PIPE, text=True, bufsize=1)
        self.lines, self.outs = [], []

    def send(self, line):
        self.p.stdin.write(line + "\n")
        self.p.stdin.flush()
        import select
        rdy, _, _ = select.select([self.p.stdout], [], [], 30)
        if not rdy:
            self.p.kill()
            raise RuntimeError("mock harness hangs on line %d: %r after %r" % (len(self.lines), line, self.lines[-30:]))
        out = self.p.stdout.readline()
        if not out:
            rc = self.p.wait()
            raise RuntimeError("mock harness died (rc=%s) on line %d: %r" % (rc, len(self.lines), line))
        out = out.rstrip("\n")
        self.lines.append(line)
        self.outs.append(out)
        return out

    def close(self):
        try:
            self.p.stdin.close()
            self.p.wait(timeout=20)
        except Exception:
            self.p.kill()
        return self.p.returncode


def parse_out(o):
    f = o.split(" | ")
    if len(f) != 5:
        return None
    vc = f[3].split()
    return {"res": f[0], "ev": [] if f[1] == "-" else f[1].split(), "pool": [] if f[2] == "-" else f[2].split(),
            "v": int(vc[0][2:]), "c": vc[1] == "c=1", "nodes": f[4].split(" ; ")}


def gen_topology(rng):
    """returns (setup lines, meta) ; node ids are assigned in order: inputs, bcs, conts, funcs, sinks (edges go up)."""
    nodes = []   # dicts: kind, ...
    shape = rng.choice(["any", "any", "any", "accepting", "accepting", "pull", "cont"])
    n_in = rng.choice([0, 0, 1, 1, 2]) if shape != "cont" else rng.choice([0, 1])
    if shape == "pull":
        n_in = rng.choice([1, 1, 2])
    for k in range(n_in):
        first = 100 * (k + 1)
        nodes.append({"kind": "input", "first": first, "stop": first + rng.choice([1, 2, 3, 4])})
    n_bc = rng.choice([1, 2, 3]) if shape == "cont" else rng.choice([0, 0, 0, 1])
    for _ in range(n_bc):
        nodes.append({"kind": "bc"})
    n_cont = (rng.choice([1, 2]) if n_bc else 0)
    for _ in range(n_cont):
        nodes.append({"kind": "cont", "lw": rng.choice([0, 0, 1])})
    n_f = rng.choice([1, 2, 2, 3, 3, 4])
    n_px = rng.choice([0, 0, 1, 1, 2]) if shape != "pull" else rng.choice([1, 1, 2])
    px_base = len(nodes)
    for _ in range(n_px):
        nodes.append({"kind": "proxy", "tgt": px_base + n_px + rng.randrange(n_f)})
    for _ in range(n_f):
        if shape == "accepting":
            maxc, pol = rng.choice([(0, "q"), (0, "r"), (1, "q"), (1, "q"), (2, "q"), (3, "q")])
        elif shape == "pull":
            maxc, pol = rng.choice([(1, "r"), (1, "r"), (2, "r"), (1, "q"), (0, "r")])
        else:
            maxc, pol = rng.choice([0, 1, 1, 1, 2, 2, 3]), rng.choice(["q", "r", "r"])
        rk = rng.random()
        if rk < 0.17:
            nodes.append({"kind": "mfunc", "maxc": maxc, "pol": pol})
        elif rk < 0.30:
            nodes.append({"kind": "async", "maxc": maxc, "pol": pol, "resv": rng.choice([0, 1, 1])})
        else:
            nodes.append({"kind": "func", "maxc": maxc, "pol": pol, "lw": 1 if rng.random() < 0.3 else 0})
    n_s = rng.choice([0, 1, 1, 2])
    for _ in range(n_s):
        nodes.append({"kind": "sink", "rejmod": rng.choice([0, 0, 0, 2, 3, 1]), "regok": rng.choice([0, 1])})
    lines = []
    for i, nd in enumerate(nodes):
        k = nd["kind"]
        if k == "input":
            lines.append("node %d input %d %d" % (i, nd["first"], nd["stop"]))
        elif k == "bc":
            lines.append("node %d bc" % i)
        elif k == "cont":
            lines.append("node %d cont %d" % (i, nd["lw"]))
        elif k == "func":
            lines.append("node %d func %d %s %d" % (i, nd["maxc"], nd["pol"], nd["lw"]))
        elif k == "mfunc":
            lines.append("node %d mfunc %d %s" % (i, nd["maxc"], nd["pol"]))
        elif k == "async":
            lines.append("node %d async %d %s %d" % (i, nd["maxc"], nd["pol"], nd["resv"]))
        elif k == "proxy":
            lines.append("node %d proxy %d" % (i, nd["tgt"]))
        else:
            lines.append("node %d sink %d %d" % (i, nd["rejmod"], nd["regok"]))
    edges = set()
    isend = [i for i, nd in enumerate(nodes) if nd["kind"] in ("input", "cont", "func", "mfunc", "async")]
    irecv = [i for i, nd in enumerate(nodes) if nd["kind"] in ("func", "mfunc", "async", "sink", "proxy")]
    for r in irecv:
        cands = [p for p in isend if p < r]
        if not cands:
            continue
        for p in rng.sample(cands, min(len(cands), rng.choice([1, 1, 2, 3]))):
            if rng.random() < 0.85:
                edges.add((p, r))
    for p in isend:   # every sender gets at least one successor when possible
        if not any(e[0] == p for e in edges):
            cands = [r for r in irecv if r > p]
            if cands:
                edges.add((p, rng.choice(cands)))
    bcs = [i for i, nd in enumerate(nodes) if nd["kind"] == "bc"]
    conts = [i for i, nd in enumerate(nodes) if nd["kind"] == "cont"]
    for c in conts:
        for b in bcs:
            if rng.random() < 0.7:
                edges.add((b, c))
    def res(x):
        return nodes[x]["tgt"] if nodes[x]["kind"] == "proxy" else x
    seen_e, uniq = set(), []
    for (a, b) in sorted(edges):
        if (a, res(b)) in seen_e:
            continue
        seen_e.add((a, res(b)))
        uniq.append((a, b))
    edges = uniq
    if rng.random() < 0.5:
        rng.shuffle(edges)
    for (a, b) in edges:
        lines.append("edge %d %d" % (a, b))
    return lines, {"nodes": nodes, "edges": edges, "shape": shape}


def gen_script(rng, exe, nops, fault=False):
    """fault: a fault schedule — bodies throw / the graph is cancelled at random points of a multi-node graph, wait_for_all + reset follow"""
    setup, meta = gen_topology(rng)
    it = Inter(exe)
    try:
        for l in setup:
            it.send(l)
        st = parse_out(it.send("go"))
        nodes = meta["nodes"]
        funcs = [i for i, nd in enumerate(nodes) if nd["kind"] in ("func", "mfunc", "async")]
        asyncs = [i for i, nd in enumerate(nodes) if nd["kind"] == "async"]
        inputs = [i for i, nd in enumerate(nodes) if nd["kind"] == "input"]
        sinks = [i for i, nd in enumerate(nodes) if nd["kind"] == "sink"]
        cputs = [i for i, nd in enumerate(nodes) if nd["kind"] in ("bc", "cont")]
        proxies = [i for i, nd in enumerate(nodes) if nd["kind"] == "proxy"]
        holds = set()
        activated = set()
        next_id = [1]
        resv = [0]
        risky = fault or rng.random() < 0.3      # scripts with cancel / throw / reset
        after_fault = [False]

        def one():
            r = rng.random()
            pool = st["pool"] if st else []
            if proxies and pool and rng.random() < 0.12:
                px = rng.choice(proxies)
                cands = [t for t in pool if t.startswith("b%d." % nodes[px]["tgt"])]
                if cands:
                    return "hook %d %s" % (px, rng.choice(cands))
            if fault:
                if after_fault[0] and not pool and rng.random() < 0.5:
                    after_fault[0] = False
                    return rng.choice(["wfa", "wfa", "reset"])
                throwable = [t for t in pool if t[0] in "bc"]
                if throwable and rng.random() < 0.10:
                    after_fault[0] = True
                    return "throw " + rng.choice(throwable)
                if rng.random() < 0.03:
                    after_fault[0] = True
                    return "cancel"
            if asyncs and rng.random() < 0.12:
                a = rng.choice(asyncs)
                g = int(st["nodes"][a].rsplit(" g", 1)[1]) if st else 0
                if g and rng.random() < 0.5:
                    return "grel %d" % a
                if g or rng.random() < 0.15:          # normally between reserve_wait and release_wait; sometimes a stray late put
                    next_id[0] += 1
                    return "gput %d %d" % (a, next_id[0] - 1)
            if pool and r < 0.45:
                return "run " + rng.choice(pool)
            if pool and r < 0.52:
                return ("begin " if rng.random() < 0.5 else "end ") + rng.choice(pool)
            if funcs and r < 0.78:
                next_id[0] += 1
                tgt = rng.choice(funcs + (sinks if rng.random() < 0.1 else []))
                return "put %d %d" % (tgt, next_id[0] - 1)
            if inputs and r < 0.84:
                i = rng.choice(inputs)
                activated.add(i)
                return "activate %d" % i
            if cputs and r < 0.90:
                return "cput %d" % rng.choice(cputs)
            if sinks and r < 0.94:
                s = rng.choice(sinks)
                if s in holds and rng.random() < 0.7:
                    holds.discard(s)
                    return rng.choice(["srel %d" % s, "scon %d" % s])
                return rng.choice(["mode %d %d" % (s, rng.choice([0, 1, 2, 3])), "sget %d" % s, "sres %d" % s, "sres %d" % s, "srel %d" % s, "scon %d" % s])
            if r < 0.955:
                if resv[0] and rng.random() < 0.6:
                    resv[0] -= 1
                    return "release"
                resv[0] += 1
                return "reserve"
            if r < 0.975:
                return "wfa"
            if risky and r < 0.985:
                return "cancel"
            if risky and r < 0.993 and pool:
                return "throw " + rng.choice(pool)
            if risky and r < 0.996:
                return "reset"
            return rng.choice(["run b9.9", "frob 1", "put 99 1", "end f0", "release", "put 0"])

        for _ in range(nops):
            l = one()
            if l == "release" and resv[0] < 0:
                resv[0] = 0
            o = it.send(l)
            st = parse_out(o) or st
            if l.startswith("sres ") and o.startswith("1 |"):
                holds.add(int(l.split()[1]))
        # drain
        for _ in range(300):
            if not st or not st["pool"]:
                break
            st = parse_out(it.send("run " + rng.choice(st["pool"]))) or st
        for a in asyncs:      # the foreign threads finish: one late put each, then release_wait
            for _ in range(50):
                g = int(st["nodes"][a].rsplit(" g", 1)[1]) if st else 0
                if not g:
                    break
                if rng.random() < 0.3:
                    next_id[0] += 1
                    st = parse_out(it.send("gput %d %d" % (a, next_id[0] - 1))) or st
                st = parse_out(it.send("grel %d" % a)) or st
        for _ in range(300):
            if not st or not st["pool"]:
                break
            st = parse_out(it.send("run " + rng.choice(st["pool"]))) or st
        for _ in range(resv[0] + 1):
            o = it.send("release")
            if o == "bad-op":
                it.lines.pop()
                it.outs.pop()
                break
        it.send("wfa")
    finally:
        rc = it.close()
    return it.lines, it.outs, meta, rc


def run_lines_on_impl(exe, lines):
    rc, out, err = sh([exe], input="\n".join(lines) + "\n", timeout=60)
    return out.split("\n")[:-1] if out.endswith("\n") else out.split("\n"), rc, err


# ---------------------------------------------------------------------------------------------------
# implementation-side monitors for mock runs (do not use the model)
# ---------------------------------------------------------------------------------------------------
def path_counts(meta):
    n = len(meta["nodes"])
    succ = {i: [] for i in range(n)}
    for (a, b) in meta["edges"]:
        if meta["nodes"][b]["kind"] == "proxy":
            b = meta["nodes"][b]["tgt"]
        if meta["nodes"][a]["kind"] != "async":      # an async node's own task puts nothing to its port; the gateway does
            succ[a].append(b)
    memo = {}

    def paths(a, b):
        if a == b:
            return 1
        k = (a, b)
        if k not in memo:
            memo[k] = sum(paths(x, b) for x in succ[a])
        return memo[k]
    return paths


def mock_monitors(meta, lines, outs):
    """returns list of (key, text) property violations observed on the implementation."""
    bad = []
    nodes = meta["nodes"]
    paths = path_counts(meta)
    maxc = {i: nd["maxc"] for i, nd in enumerate(nodes) if nd["kind"] in ("func", "mfunc", "async")}
    gsucc = {}
    for (ea, eb) in meta["edges"]:
        if nodes[ea]["kind"] == "async":
            gsucc.setdefault(ea, []).append(nodes[eb]["tgt"] if nodes[eb]["kind"] == "proxy" else eb)
    gorigin = {}       # message id put through a gateway -> async node
    origin = {}        # message id -> origin node (accepted external put) ; generated ids / continue outputs by range
    bcount = {}        # (node, msg) -> number of body invocations
    ocount = {}        # (sink, msg) -> number of offers
    resv = 0
    going = False
    cancelled_before = False
    begun = []
    prev_pool = []
    risky = False
    for li, (l, o) in enumerate(zip(lines, outs)):
        w = l.split()
        if o == "bad-op" or o == "ok" and not going and w[0] != "go":
            continue
        st = parse_out(o)
        if st is None:
            continue
        if w[0] == "go":
            going = True
        if w[0] in ("cancel", "throw", "reset"):
            risky = True
        if w[0] == "reserve":
            resv += 1
        if w[0] == "release":
            resv -= 1
        if w[0] == "put" and st["res"] == "1":
            origin[int(w[2])] = int(w[1])
        if w[0] == "gput" and st["res"] == "1":
            gorigin[int(w[2])] = int(w[1])
        if w[0] == "grel":
            resv -= 1
        resv += sum(1 for e in st["ev"] if e.startswith("W"))
        # (e) no body starts from a task that the dispatcher takes after cancellation
        # (tasks of equal name are interchangeable: same accounting as the harness' dispatcher)
        if w[0] == "begin" and begun.count(w[1]) < prev_pool.count(w[1]) and not cancelled_before:
            begun.append(w[1])
        if w[0] in ("end", "run", "throw"):
            if w[0] == "run" and not cancelled_before and begun.count(w[1]) < prev_pool.count(w[1]):
                begun.append(w[1])
            if w[0] == "throw" and w[1] not in begun:
                begun.append(w[1])
            was_begun = w[1] in begun
            if was_begun:
                begun.remove(w[1])
            if cancelled_before and not was_begun and any(e[0] in "ABCG" for e in st["ev"]):
                bad.append(("body-after-cancel", "line %d `%s` after cancellation started bodies: %s" % (li, l, " ".join(st["ev"]))))
        prev_pool = st["pool"]
        for e in st["ev"]:
            if e[0] in "AB":
                n, m = e[1:].rstrip("!").split(":")
                bcount[(int(n), int(m))] = bcount.get((int(n), int(m)), 0) + 1
            elif e[0] == "O":
                n, m, _a = e[1:].split(":")
                ocount[(int(n), int(m))] = ocount.get((int(n), int(m)), 0) + 1
        # (a) concurrency limit: live body tasks + white-box counter
        for n, mc in maxc.items():
            if mc == 0:
                continue
            live = sum(1 for t in st["pool"] if t.startswith("b%d." % n))
            conc = int(st["nodes"][n].split(":c")[1].split()[0])
            if live > mc or conc > mc:
                bad.append(("concurrency-limit", "line %d `%s`: node %d (limit %d) has %d live body tasks, my_concurrency=%d" % (li, l, n, mc, live, conc)))
        # (d) wait_for_all may only return when idle
        if st["v"] == 0 and (st["pool"] or resv > 0):
            bad.append(("wait-not-idle", "line %d `%s`: wait vertex is 0 with pending tasks %s / %d reservations: wait_for_all would return" % (li, l, st["pool"], resv)))
        if w[0] == "wfa" and st["res"].startswith("ret") and (st["pool"] or resv > 0):
            bad.append(("wait-not-idle", "line %d: wait_for_all returned with pending tasks %s" % (li, st["pool"])))
        if w[0] == "wfa" and st["res"].startswith("ret"):
            cancelled_before = False
        else:
            cancelled_before = st["c"]
    # final state: idle graph must let wait_for_all return
    last = parse_out(outs[-1]) if outs else None
    if last and not last["pool"] and resv == 0 and last["v"] != 0:
        bad.append(("wait-never-returns", "graph is idle (no task, no reservation) but the wait vertex is %d: wait_for_all cannot return" % last["v"]))

    # (g) a buffering sender whose receivers are all real function nodes is never left holding a message when the graph is idle
    if last and not last["pool"] and not risky:
        succ_of = {}
        for (a, b) in meta["edges"]:
            succ_of.setdefault(a, []).append(nodes[b]["tgt"] if nodes[b]["kind"] == "proxy" else b)
        for i, nd in enumerate(nodes):
            if nd["kind"] != "input" or not any(l == "activate %d" % i for l in lines):
                continue
            ss = succ_of.get(i, [])
            if not ss or not all(nodes[x]["kind"] in ("func", "mfunc") for x in ss):
                continue
            for v in range(nd["first"], nd["stop"]):
                if not any(bcount.get((x, v), 0) for x in ss):
                    bad.append(("stranded-message", "graph idle (no pending task) but item %d of input_node %d was never delivered to any of its successors %s: %s" % (v, i, ss, last["nodes"][i])))
                    break

    def gpaths(a, n):
        return sum(paths(x, n) for x in gsucc.get(a, []))

    def origin_of(m):
        if m in origin:
            return origin[m]
        for i, nd in enumerate(nodes):
            if nd["kind"] == "input" and nd["first"] <= m < nd["stop"]:
                return i
            if nd["kind"] == "cont" and 1000 * i <= m < 1000 * (i + 1) and i > 0:
                return i
        return None
    # (b)/(c) never more often than there are paths (a rejected put gives no origin: 0 paths)
    for (n, m), c in sorted(bcount.items()):
        og = origin_of(m)
        mx = paths(og, n) if og is not None else 0
        if m in gorigin:
            mx = gpaths(gorigin[m], n)
        if c > mx:
            bad.append(("duplicate-or-phantom", "node %d ran its body %d times for message %d (at most %d path(s) from its origin %s)" % (n, c, m, mx, og)))
    for (n, m), c in sorted(ocount.items()):
        og = origin_of(m)
        mx = (paths(og, n) if og is not None else 0) + sum(1 for l, o in zip(lines, outs) if l == "put %d %d" % (n, m))
        if c > mx and not risky:
            # a sink with regok can be re-offered the same cached item of an input_node: only count accepted offers there
            pass
    # exactly once in accepting graphs without cancellation: every accepted external message reaches every node on every path
    accepting = all(nd["kind"] not in ("func", "mfunc", "async") or nd["pol"] == "q" or nd["maxc"] == 0 for nd in nodes)
    # a scripted sink that rejects AND registers the sender as predecessor takes over the edge (pull mode): not an accepting receiver
    moded = set(int(l.split()[1]) for l in lines if l.startswith("mode ") and len(l.split()) == 3 and l.split()[1].isdigit())
    accepting = accepting and all(nd["kind"] != "sink" or nd["regok"] == 0 or (nd["rejmod"] == 0 and i not in moded) for i, nd in enumerate(nodes))
    drained = last is not None and not last["pool"]
    if accepting and not risky and drained:
        for m, og in sorted(origin.items()):
            if nodes[og]["kind"] not in ("func", "mfunc", "async"):
                continue
            for n, nd in enumerate(nodes):
                if nd["kind"] in ("func", "mfunc", "async") and paths(og, n) != bcount.get((n, m), 0):
                    bad.append(("lost-message", "accepting graph, drained: message %d accepted by node %d ran %d time(s) at node %d, expected %d" % (m, og, bcount.get((n, m), 0), n, paths(og, n))))
                if nd["kind"] == "sink" and paths(og, n) != ocount.get((n, m), 0):
                    bad.append(("lost-message", "accepting graph, drained: message %d accepted by node %d was offered %d time(s) to sink %d, expected %d" % (m, og, ocount.get((n, m), 0), n, paths(og, n))))
    if accepting and not risky and drained:
        for m, a in sorted(gorigin.items()):        # what a gateway put is processed exactly once on every path from the async node's port
            for n, nd in enumerate(nodes):
                if nd["kind"] in ("func", "mfunc", "async") and gpaths(a, n) != bcount.get((n, m), 0):
                    bad.append(("lost-message", "accepting graph, drained: message %d put through the gateway of node %d ran %d time(s) at node %d, expected %d" % (m, a, bcount.get((n, m), 0), n, gpaths(a, n))))
    # what a gateway put is OFFERED to every direct successor of the async node's port that never leaves the successor list (a scripted sink that
    # never takes over the edge; a queueing / unlimited function-like node), whatever the other successors answer -- also in graphs that are not
    # "accepting" as a whole
    for m, a in sorted(gorigin.items()):
        for sidx in gsucc.get(a, []):
            nd = nodes[sidx]
            if nd["kind"] == "sink" and nd.get("regok", 0) == 0 and ocount.get((sidx, m), 0) < 1:
                bad.append(("lost-message", "message %d put through the gateway of async node %d was never offered to its direct successor %d (a sink that never takes over "
                            "the edge), although the put returned true" % (m, a, sidx)))
            if nd["kind"] in ("func", "mfunc", "async") and (nd["pol"] == "q" or nd["maxc"] == 0) and drained and not risky and bcount.get((sidx, m), 0) < 1:
                bad.append(("lost-message", "drained: message %d put through the gateway of async node %d never ran at its direct successor %d (queueing / unlimited: it "
                            "accepts whatever it is offered)" % (m, a, sidx)))
    return bad


# ---------------------------------------------------------------------------------------------------
# E-MOCK driver
# ---------------------------------------------------------------------------------------------------
CORPUS = [
    # serial queueing -> serial rejecting -> sink : rejection flips the edge to pull, forwarder polls, edge flips back
    ["node 0 func 1 q 0", "node 1 func 1 r 0", "node 2 sink 0 0", "edge 0 1", "edge 1 2", "go",
     "put 0 1", "put 0 2", "put 0 3", "run b0.1", "run b0.2", "run b1.1", "run b0.3", "run f1", "run b1.3", "wfa"],
    # input_node -> rejecting serial node: the rejected item stays cached and is pulled later
    ["node 0 input 100 103", "node 1 func 1 r 0", "node 2 sink 0 0", "edge 0 1", "edge 1 2", "go",
     "activate 0", "run p0", "run p0", "run f1", "run b1.100", "run p0", "run b1.101", "run p0", "run b1.102", "run p0", "wfa"],
    # lightweight chain with a concurrency-1 lightweight node in the middle
    ["node 0 func 0 q 1", "node 1 func 1 r 1", "node 2 func 2 q 0", "node 3 sink 2 1", "edge 0 1", "edge 1 2", "edge 2 3", "edge 0 3", "go",
     "put 0 1", "put 0 2", "run b2.1", "put 1 4", "run b2.2", "run b2.4", "wfa"],
    # cancellation: pending tasks are cancelled, the begun one completes
    ["node 0 func 2 q 0", "node 1 sink 0 0", "edge 0 1", "go", "put 0 1", "put 0 2", "put 0 3", "begin b0.1", "cancel",
     "end b0.2", "end b0.1", "end b0.3", "wfa", "reset", "put 0 5", "run b0.5", "wfa"],
    # exception in a body
    ["node 0 func 1 q 0", "node 1 sink 0 0", "edge 0 1", "go", "put 0 1", "put 0 2", "throw b0.1", "wfa", "reset", "put 0 3", "run b0.3", "wfa"],
    # continue node with three predecessors, non-lightweight and lightweight
    ["node 0 bc", "node 1 bc", "node 2 bc", "node 3 cont 0", "node 4 cont 1", "node 5 sink 0 0", "edge 0 3", "edge 1 3", "edge 2 3", "edge 0 4", "edge 1 4",
     "edge 3 5", "edge 4 5", "go", "cput 0", "cput 1", "cput 2", "run c3", "cput 0", "cput 0", "cput 2", "cput 1", "run c3", "cput 3", "wfa"],
    # reserve_wait keeps wait_for_all blocked
    ["node 0 func 1 q 0", "go", "reserve", "wfa", "put 0 1", "run b0.1", "wfa", "release", "wfa"],
    # sink pulling from an input node with reservation
    ["node 0 input 100 102", "node 1 sink 1 1", "edge 0 1", "go", "activate 0", "run p0", "sres 1", "srel 1", "run p0", "sget 1", "sres 1", "run p0", "scon 1", "sget 1", "run p0", "run p0", "wfa"],
    # the rejection window: the target's body completes between the rejected try_put_task and register_predecessor (proxy hook)
    ["node 0 input 100 103", "node 1 proxy 2", "node 2 func 1 r 0", "node 3 sink 0 0", "edge 0 1", "edge 2 3", "go",
     "put 2 1", "activate 0", "hook 1 b2.1", "run p0", "wfa", "run f2", "run b2.100", "run p0", "run p0", "hook 1 b2.101", "run p0", "run p0",
     "run f2", "run b2.102", "run p0", "run p0", "wfa"],
    # the same window after an earlier forwarder round: only a forwarder_busy flag that was cleared lets register_predecessor spawn
    # the forwarder that fetches item 200 (R is idle, the edge is in pull mode, nothing else would ever pull)
    ["node 0 input 100 101", "node 1 input 200 201", "node 2 proxy 3", "node 3 func 1 r 0", "node 4 sink 0 0", "edge 0 3", "edge 1 2", "edge 3 4", "go",
     "put 3 1", "activate 0", "run p0", "run f3", "run b3.1", "run b3.100", "put 3 2", "activate 1", "hook 2 b3.2", "run p1", "run p0", "run p0",
     "run f3", "run b3.200", "run p1", "run p1", "wfa"],
    # async node: the body reserves the gateway; wait_for_all stays blocked until the foreign thread's put was processed AND release_wait
    ["node 0 async 1 q 1", "node 1 func 1 q 0", "node 2 sink 0 0", "edge 0 1", "edge 1 2", "go", "put 0 5", "put 0 6", "run b0.5", "wfa", "gput 0 50",
     "run b0.6", "grel 0", "wfa", "run b1.50", "gput 0 60", "grel 0", "wfa", "run b1.60", "wfa", "grel 0"],
    # async node in front of a rejecting serial node: a gateway put that is rejected is reported as such (no buffering in the gateway)
    ["node 0 async 0 r 1", "node 1 func 1 r 0", "node 2 sink 0 0", "edge 0 1", "edge 1 2", "go", "put 0 1", "run b0.1", "gput 0 10", "gput 0 11", "grel 0",
     "wfa", "run b1.10", "gput 0 12", "run b1.12", "wfa"],
    # the same with two more successors BEHIND the rejecting one on the async node's port: a gateway put that the busy serial node rejects (the edge
    # flips, the node leaves the successor list) is still offered to every successor after it
    ["node 0 async 0 r 1", "node 1 func 1 r 0", "node 2 sink 0 0", "node 3 sink 0 0", "node 4 sink 0 0", "edge 0 1", "edge 0 3", "edge 0 4", "edge 1 2", "go",
     "put 0 1", "run b0.1", "gput 0 10", "gput 0 11", "grel 0", "wfa", "run b1.10", "gput 0 12", "run b1.12", "wfa"],
    # multifunction node
    ["node 0 mfunc 1 q", "node 1 func 1 r 0", "node 2 sink 3 1", "edge 0 1", "edge 0 2", "edge 1 2", "go",
     "put 0 3", "put 0 6", "put 0 7", "run b0.3", "run b0.6", "run b1.3", "run f1", "run b0.7", "run b1.7", "wfa"],
]


def compare_script(lines, outs):
    """None if the model agrees with the implementation outputs, else (index, impl, model)."""
    mo = drv("c14sim", "\n".join(lines) + "\n")
    d = first_diff(outs, mo)
    if d is None:
        return None
    return (d, outs[d] if d < len(outs) else "<missing>", mo[d] if d < len(mo) else "<missing>")


def shrink_script(exe, lines, still_bad):
    """greedy line removal keeping `still_bad(lines)` true"""
    cur = list(lines)
    changed = True
    rounds = 0
    while changed and rounds < 6:
        changed = False
        rounds += 1
        i = len(cur) - 1
        while i >= 0:
            if cur[i].split()[0] in ("node", "go", "lim", "snd", "inp", "edge"):
                i -= 1
                continue
            cand = cur[:i] + cur[i + 1:]
            try:
                if still_bad(cand):
                    cur = cand
                    changed = True
            except Exception:
                pass
            i -= 1
    return cur


def meta_of_lines(lines):
    nodes, edges = [], []
    for l in lines:
        w = l.split()
        if w[0] == "node":
            k = w[2]
            if k == "input":
                nodes.append({"kind": k, "first": int(w[3]), "stop": int(w[4])})
            elif k == "func":
                nodes.append({"kind": k, "maxc": int(w[3]), "pol": w[4], "lw": int(w[5])})
            elif k == "mfunc":
                nodes.append({"kind": k, "maxc": int(w[3]), "pol": w[4]})
            elif k == "async":
                nodes.append({"kind": k, "maxc": int(w[3]), "pol": w[4], "resv": int(w[5])})
            elif k == "cont":
                nodes.append({"kind": k, "lw": int(w[3])})
            elif k == "sink":
                nodes.append({"kind": k, "rejmod": int(w[3]), "regok": int(w[4])})
            elif k == "proxy":
                nodes.append({"kind": k, "tgt": int(w[3])})
            else:
                nodes.append({"kind": k})
        elif w[0] == "edge":
            edges.append((int(w[1]), int(w[2])))
    return {"nodes": nodes, "edges": edges}


def run_mock(ck, exe):
    quick = ck.tier == "quick"
    nscripts = 1500 if quick else 20000
    corr_bad, mon_bad = [], []
    nlines = 0
    scripts = []
    for c in CORPUS:
        outs, rc, err = run_lines_on_impl(exe, c)
        scripts.append((c, outs, meta_of_lines(c), rc))
    for si in range(nscripts):
        try:
            lines, outs, meta, rc = gen_script(ck.rng, exe, ck.rng.choice([12, 25, 40, 60]), fault=(si % 5 == 4))
        except RuntimeError as e:
            mon_bad.append((("harness-crash", str(e)), [], None))
            continue
        scripts.append((lines, outs, meta, rc))
    for (lines, outs, meta, rc) in scripts:
        nlines += len(lines)
        kinds = tuple(sorted(set((nd["kind"], nd.get("maxc"), nd.get("pol"), nd.get("lw")) for nd in meta["nodes"])))
        opk = tuple(sorted(set(l.split()[0] for l in lines)))
        ck.count(len(lines), (kinds, opk))
        if rc not in (0, None):
            mon_bad.append((("harness-crash", "mock harness exited with rc=%s" % rc), lines, meta))
        d = compare_script(lines, outs)
        ck.traces_validated += 1
        if d:
            corr_bad.append((d, lines, meta))
        for b in mock_monitors(meta, lines, outs):
            mon_bad.append((b, lines, meta))
    ck.extra["mock"] = {"scripts": len(scripts), "script_lines": nlines,
                        "fault_schedule_scripts": sum(1 for (ls, _o, _m, _r) in scripts if any(l.startswith("throw ") or l == "cancel" for l in ls)),
                        "bodies_thrown": sum(1 for (_l, os_, _m, _r) in scripts for o in os_ if o.count(" | ") == 4 and "!" in o.split(" | ")[1])}
    if scripts:
        ck.sample({"engine": "E-MOCK", "script": scripts[min(3, len(scripts) - 1)][0][:40], "impl_output_tail": scripts[min(3, len(scripts) - 1)][1][-3:]})
    ck.oblige("corr:E-MOCK real node classes vs Lean interpreter (results, events, pending tasks, wait vertex, white-box node state)",
              "correspondence", not corr_bad,
              "" if not corr_bad else "line %d: impl `%s` model `%s` | script %s" % (corr_bad[0][0][0], corr_bad[0][0][1], corr_bad[0][0][2], corr_bad[0][1]))
    ck.oblige("monitor:E-MOCK concurrency limit, no duplicate/phantom body, exactly-once in accepting graphs, wait vertex 0 => idle, no body after cancel",
              "correspondence", not mon_bad, "" if not mon_bad else "%s | script %s" % (mon_bad[0][0], mon_bad[0][1]))
    # failing-input search: property monitors first, then shrink
    reported = set()
    for (key, text), lines, meta in mon_bad:
        if key in reported or not lines or len(reported) >= 3:
            continue
        reported.add(key)

        def still(ls, key=key):
            outs, rc, err = run_lines_on_impl(exe, ls)
            return any(k == key for (k, _t) in mock_monitors(meta_of_lines(ls), ls, outs))
        small = shrink_script(exe, lines, still)
        outs, rc, err = run_lines_on_impl(exe, small)
        texts = [t for (k, t) in mock_monitors(meta_of_lines(small), small, outs) if k == key]
        ck.counterexample("mock:" + key, texts[0] if texts else text, {"engine": "E-MOCK", "script": small, "monitor": key, "impl_output": outs[-6:]})
    if corr_bad and not mon_bad:
        # the model and the code disagree but no monitor fired on these scripts: search more scripts for a property failure
        found = search_mock(ck, exe, 1500 if quick else 8000)
        if not found:
            d, lines, meta = corr_bad[0]

            def still(ls):
                outs, rc, err = run_lines_on_impl(exe, ls)
                return compare_script(ls, outs) is not None
            small = shrink_script(exe, lines, still)
            ck.extra["corr_diff_min_script"] = small
    return corr_bad, mon_bad


def search_mock(ck, exe, n):
    """more seeds + short scripts, implementation-side monitors only"""
    for si in range(n):
        try:
            lines, outs, meta, rc = gen_script(ck.rng, exe, ck.rng.choice([8, 15, 30, 50]))
        except RuntimeError:
            continue
        bad = mock_monitors(meta, lines, outs)
        if bad:
            key, text = bad[0]

            def still(ls, key=key):
                o, rc, err = run_lines_on_impl(exe, ls)
                return any(k == key for (k, _t) in mock_monitors(meta_of_lines(ls), ls, o))
            small = shrink_script(exe, lines, still)
            o, rc, err = run_lines_on_impl(exe, small)
            texts = [t for (k, t) in mock_monitors(meta_of_lines(small), small, o) if k == key]
            ck.counterexample("mock:" + key, texts[0] if texts else text, {"engine": "E-MOCK", "script": small, "monitor": key, "impl_output": o[-6:]})
            return True
    return False


# ---------------------------------------------------------------------------------------------------
# E-MOCK vs the `Net` machine of the graph-level theorems (graphs of non-lightweight, never-rejecting function nodes)
# ---------------------------------------------------------------------------------------------------
def gen_net_script(rng, exe, nops):
    n = rng.choice([2, 3, 3, 4, 5])
    cfg = [rng.choice([(0, "q"), (0, "r"), (1, "q"), (1, "q"), (2, "q"), (3, "q")]) for _ in range(n)]
    edges = sorted(set((a, b) for a in range(n) for b in range(a + 1, n) if rng.random() < 0.55))
    setup = ["node %d func %d %s 0" % (i, c, p) for i, (c, p) in enumerate(cfg)] + ["edge %d %d" % e for e in edges]
    it = Inter(exe)
    try:
        for l in setup:
            it.send(l)
        st = parse_out(it.send("go"))
        risky = rng.random() < 0.4
        nid, resv, cancelled = 1, 0, False
        for _ in range(nops):
            r = rng.random()
            pool = st["pool"] if st else []
            if pool and r < 0.45:
                l = "run " + rng.choice(pool)
            elif pool and r < 0.55:
                l = ("begin " if rng.random() < 0.5 and not cancelled else "end ") + rng.choice(pool)
            elif r < 0.88 and not cancelled:
                l = "put %d %d" % (rng.randrange(n), nid)
                nid += 1
            elif r < 0.93:
                if resv and rng.random() < 0.6:
                    resv -= 1
                    l = "release"
                else:
                    resv += 1
                    l = "reserve"
            elif risky and r < 0.96:
                l = "cancel"
                cancelled = True
            elif risky and pool and r < 0.985:
                l = "throw " + rng.choice(pool)
            else:
                l = "release" if resv == 0 else "reserve"
                if l == "reserve":
                    resv += 1
            o = it.send(l)
            st = parse_out(o) or st
            if st and st["c"]:
                cancelled = True
        for _ in range(200):
            if not st or not st["pool"]:
                break
            st = parse_out(it.send("run " + rng.choice(st["pool"]))) or st
    finally:
        it.close()
    return it.lines, it.outs, cfg, edges


def net_translate(lines, outs):
    """mock script + implementation outputs -> (net lines, expected net outputs at the compared positions)"""
    net, expect = [], {}
    begun, prev_pool, cancelled = [], [], False

    def nm(t):
        a, b = t[1:].split(".")
        return a + " " + b
    for l, o in zip(lines, outs):
        w = l.split()
        if w[0] == "node":
            net.append("node %s %s %s" % (w[1], w[3], w[4]))
            continue
        if w[0] == "edge":
            net.append(l)
            continue
        if o == "bad-op":
            continue
        st = parse_out(o)
        if st is None:
            continue
        if w[0] in ("go", "cancel", "reserve", "release"):
            net.append(l)
        elif w[0] == "put":
            net.append(l)
        elif w[0] == "begin":
            if begun.count(w[1]) < prev_pool.count(w[1]) and not cancelled:
                begun.append(w[1])
            net.append("start " + nm(w[1]))
        elif w[0] in ("end", "run", "throw"):
            t = w[1]
            if w[0] == "run" and not cancelled and begun.count(t) < prev_pool.count(t):
                begun.append(t)
                net.append("start " + nm(t))
            if w[0] == "throw" and t not in begun:
                begun.append(t)
                net.append("start " + nm(t))
            if w[0] == "end" and not cancelled and t not in begun:
                # the dispatcher takes the task now
                net.append("start " + nm(t))
                begun.append(t)
            was = t in begun
            if was:
                begun.remove(t)
            if w[0] == "throw":
                net.append("throw " + nm(t))
            elif was:
                net.append("finish " + nm(t))
            else:
                net.append("drop " + nm(t))
        else:
            continue
        res = st["res"] if w[0] == "put" else "1"
        expect[len(net) - 1] = "%s | v=%d c=%d | %s" % (res, st["v"], 1 if st["c"] else 0,
                                                      " ; ".join(" ".join(x.split()[:2]) for x in st["nodes"]))
        prev_pool = st["pool"]
        cancelled = st["c"]
    return net, expect


def run_net(ck, exe):
    quick = ck.tier == "quick"
    bad = None
    n = 0
    for si in range(150 if quick else 3000):
        lines, outs, cfg, edges = gen_net_script(ck.rng, exe, ck.rng.choice([10, 25, 45]))
        net, expect = net_translate(lines, outs)
        mo = drv("c14net", "\n".join(net) + "\n")
        n += len(expect)
        ck.count(len(expect), ("net", tuple(cfg), len(edges)))
        ck.traces_validated += 1
        for i, e in sorted(expect.items()):
            if i >= len(mo) or mo[i] != e:
                bad = (lines, net[i], e, mo[i] if i < len(mo) else "<missing>")
                break
        if bad:
            break
    ck.extra["net"] = {"compared_states": n}
    ck.oblige("corr:E-MOCK vs the Net machine of graph_conservation / wait_for_all_idle / no_body_after_cancel (per-node my_concurrency and queue, "
              "wait vertex, cancellation) on graphs of queueing/unlimited function nodes", "correspondence", bad is None,
              "" if bad is None else "net op `%s`: impl `%s` Net `%s` | script %s" % (bad[1], bad[2], bad[3], bad[0]))


def run_cache(ck, exe):
    lines = []
    import itertools
    for kind in ("bc", "rr"):
        for n in range(0, 7 if ck.tier == "quick" else 9):
            for combo in itertools.product("atf", repeat=n):
                lines.append(kind + (" " if combo else "") + " ".join(combo))
    lines += ["bc x", "zz a", "rr a b"]
    rc, out, err = sh([exe, "cache"], input="\n".join(lines) + "\n", timeout=300)
    io = out.split("\n")[:-1]
    mo = drv("c14cache", "\n".join(lines) + "\n")
    d = first_diff(io, mo)
    ck.count(len(lines), ("cache", "exhaustive"))
    ck.oblige("corr:real broadcast_cache / round_robin_cache try_put_task vs bcastM / rrM (offers, remaining successors), exhaustive up to %d successors" % (6 if ck.tier == "quick" else 8),
              "correspondence", d is None and rc == 0, "" if d is None else "`%s`: impl `%s` model `%s`" % (lines[d] if d < len(lines) else "?", io[d] if d < len(io) else "<missing>", mo[d] if d < len(mo) else "<missing>"))
    # implementation-side property monitor: broadcast offers everyone exactly once; round-robin has at most one acceptor, the last one asked
    bad = None
    for l, o in zip(lines, io):
        if o == "bad-op":
            continue
        w = l.split()
        offers = [] if o.split(" | ")[0] == "-" else o.split(" | ")[0].split()
        rem = [] if o.split(" | ")[1] == "-" else o.split(" | ")[1].split(",")
        n = len(w) - 1
        exp_rem = [str(i) for i in range(n) if w[1 + i] != "t"]
        if w[0] == "bc":
            ok = [x[:-1] for x in offers] == [str(i) for i in range(n)] and rem == exp_rem
        else:
            acc = [x for x in offers if x.endswith("a")]
            k = len(offers)
            ok = len(acc) <= 1 and (not acc or offers[-1].endswith("a")) and [x[:-1] for x in offers] == [str(i) for i in range(k)] \
                and (acc or k == n) and rem == [str(i) for i in range(n) if not (i < k and w[1 + i] == "t")]
        if not ok:
            bad = (l, o)
            break
    ck.oblige("monitor:successor caches: broadcast = every successor once in order, round-robin = exactly one acceptor; an edge is erased iff rejected and register_predecessor succeeded",
              "correspondence", bad is None, "" if bad is None else "`%s` -> `%s`" % bad)
    if bad:
        ck.counterexample("cache:" + bad[0].split()[0], "successor cache `%s` produced offers/remaining `%s`" % bad, {"engine": "E-MOCK", "cache_line": bad[0], "impl_output": bad[1]})



# ---------------------------------------------------------------------------------------------------
# E-MOCK (a): reservation protocol — real limiter_node / input_node on the mock r1 with nested windows
# (harness/c14/res.cpp) vs `c14res` / `c14inp`, plus implementation-side monitors
# ---------------------------------------------------------------------------------------------------
def build_res():
    return cxx_build("C14", "res", ["harness/c14/res.cpp", STUBS], flags=["-O1", "-g", "-fno-access-control"])


def run_script(exe, args, lines, timeout=20):
    """-> (output lines, rc) ; rc 124 = hang"""
    rc, out, err = sh([exe] + args, input="\n".join(lines) + "\n", timeout=timeout)
    outs = out.split("\n")[:-1] if out.endswith("\n") else out.split("\n")
    return outs, rc


def res_parse(o):
    f = o.split(" | ")
    if len(f) < 4:
        return None
    st = {"res": f[0], "ev": [] if f[1] == "-" else f[1].split()}
    for kv in (f[2] + " " + f[3]).split():
        k, _, v = kv.partition("=")
        st[k] = v
    st["snd"] = f[4].split(" ; ") if len(f) > 4 else []
    return st


RES_CORPUS = [
    # one sender, threshold 1: reserve, deliver, consume; rejected offer releases and the item is delivered later
    ["lim 1", "snd 0", "go", "sput 0 100", "sput 0 101", "ans r", "regpred 0", "run", "run", "dec", "run", "dec", "run"],
    # the seeded window: attempt 0 is inside sender 0's try_reserve (reserved_src = 0) when the decrementer starts attempt 1 (the
    # second pull-mode sender keeps check_conditions() true); attempt 1's try_reserve fails; it must leave attempt 0's reservation alone
    ["lim 2", "snd 0", "snd 1", "go", "sput 0 100", "sput 0 101", "sput 1 200", "regpred 0", "regpred 1", "hook res 0", "run", "dec", "resume",
     "run", "run", "run", "dec", "run", "run"],
    # the same window entered from a pending forward task and from register_predecessor; the nested attempt is itself suspended
    ["lim 3", "snd 0", "snd 1", "snd 2", "go", "sput 0 1", "sput 1 2", "sput 2 3", "regpred 0", "regpred 1", "hook res 0", "hook res 1", "run", "run",
     "regpred 2", "run", "resume", "resume", "run", "run", "run", "run"],
    # empty senders: the failed reserve re-registers the sender in push mode and clears reserved_src
    ["lim 2", "snd 0", "snd 1", "go", "regpred 0", "regpred 1", "sput 1 7", "run", "run", "dec"],
    # push path interleaved with a suspended pull attempt
    ["lim 2", "snd 0", "go", "sput 0 5", "regpred 0", "hook res 0", "run", "put 9", "ans r", "put 10", "resume", "dec", "dec", "run", "run"],
    ["frob", "lim 2", "lim x", "snd 1", "snd 0", "resume", "go", "go", "run", "resume", "sput 3 1", "hook res 9", "dec"],
]
INP_CORPUS = [
    # put task 0 is inside the successors' try_put_task (item 5 reserved) while put task 1 runs: it returns at once
    ["inp 5 8", "go", "act", "hook put", "run", "run", "resume", "run", "run", "run", "run"],
    # rejected: released, pulled by the external successor; reservation by the external successor blocks the put task
    ["inp 5 7", "go", "act", "ans r", "run", "xget", "run", "xres", "run", "xres", "run", "xrel", "run", "xres", "xcon", "run", "run", "run"],
    ["inp 1 2", "go", "hook put", "act", "run", "xget", "xres", "act", "resume", "run", "run", "xget"],
    ["frob", "inp 1", "go", "xrel", "resume", "run", "act", "act"],
]


def gen_res_script(rng, exe, nops):
    it = Inter(exe)
    try:
        th = rng.choice([0, 1, 1, 2, 2, 2, 3, 3])
        ns = rng.choice([1, 2, 2, 3, 3])
        it.send("lim %d" % th)
        for i in range(ns):
            it.send("snd %d" % i)
        st = res_parse(it.send("go"))
        nid = [100]

        def one():
            r = rng.random()
            q = [] if st["q"] == "-" else [int(x) for x in st["q"].split(",")]
            rs = None if st["r"] == "-" else int(st["r"])
            susp = [] if st["susp"] == "-" else st["susp"].split(",")
            pend = int(st["pend"])
            if r < 0.22:
                nid[0] += 1
                return "sput %d %d" % (rng.randrange(ns), nid[0])
            if r < 0.36:
                cands = [p for p in range(ns) if p not in q and p != rs]
                if cands:
                    return "regpred %d" % rng.choice(cands)
            if r < 0.50 and pend:
                return "run"
            if r < 0.62:
                return "dec"
            if r < 0.74:
                return "hook res %d" % rng.randrange(ns)
            if r < 0.86 and susp:
                return "resume"
            if r < 0.91:
                return "ans " + rng.choice("ar")
            if r < 0.97:
                nid[0] += 1
                return "put %d" % nid[0]
            return rng.choice(["run", "resume", "frob", "sput 9 1", "regpred 7", "hook put"])
        for _ in range(nops):
            o = it.send(one())
            st = res_parse(o) or st
        for _ in range(60):     # unwind and drain
            if st["susp"] != "-":
                st = res_parse(it.send("resume")) or st
            elif int(st["pend"]):
                st = res_parse(it.send("run")) or st
            else:
                break
    finally:
        rc = it.close()
    return it.lines, it.outs, rc


def gen_inp_script(rng, exe, nops):
    it = Inter(exe, ["inp"])
    try:
        first = rng.choice([1, 10, 100])
        it.send("inp %d %d" % (first, first + rng.choice([0, 1, 2, 3, 5])))
        st = res_parse(it.send("go"))
        xholds = False
        for _ in range(nops):
            r = rng.random()
            susp = st["susp"] != "-"
            pend = int(st["pend"])
            if r < 0.10 and not susp:
                l = "act"
            elif r < 0.45 and pend:
                l = "run"
            elif r < 0.57:
                l = "hook put"
            elif r < 0.70 and susp:
                l = "resume"
            elif r < 0.78:
                l = "ans " + rng.choice("ar")
            elif r < 0.86:
                l = "xget"
            elif r < 0.93:
                l = ("xrel" if rng.random() < 0.5 else "xcon") if xholds else "xres"
            else:
                l = rng.choice(["act", "run", "resume", "xrel", "frob"])
            o = it.send(l)
            stn = res_parse(o)
            if stn:
                st = stn
                if l == "xres" and stn["res"] == "1":
                    xholds = True
                if l in ("xrel", "xcon"):
                    xholds = False
        for _ in range(60):
            if st["susp"] != "-":
                st = res_parse(it.send("resume")) or st
            elif xholds:
                st = res_parse(it.send("xrel")) or st
                xholds = False
            elif int(st["pend"]):
                st = res_parse(it.send("run")) or st
            else:
                break
    finally:
        rc = it.close()
    return it.lines, it.outs, rc


def res_monitors(lines, outs):
    """implementation-side monitors of the reservation protocol (limiter mode); values put into senders are unique"""
    bad = []
    owner = {}       # sender -> (op, value) currently reserved
    delivered = {}   # value -> count
    deliv_by = {}    # op -> set of values accepted by the successors since its reservation
    arrived = {}     # sender -> list
    consumed = {}    # sender -> list
    last = None
    for li, (l, o) in enumerate(zip(lines, outs)):
        w = l.split()
        st = res_parse(o) if o != "bad-op" else None
        if st is None:
            continue
        if w[0] == "sput":
            arrived.setdefault(int(w[1]), []).append(int(w[2]))
        for e in st["ev"]:
            m = re.fullmatch(r"(res|rel|con|rs|put)(-?\d+):(\d+)(?::(-|\d+|a|r))?", e)
            if not m:
                continue
            k, op, x, y = m.group(1), int(m.group(2)), int(m.group(3)), m.group(4)
            if k == "res" and y != "-":
                if x in owner:
                    bad.append(("double-reservation", "line %d `%s`: operation %d reserved item %s of sender %d while operation %d holds a reservation there" % (li, l, op, y, x, owner[x][0])))
                owner[x] = (op, int(y))
                deliv_by[op] = set()
            elif k in ("rel", "con"):
                if x not in owner or owner[x][0] != op:
                    bad.append(("reservation-not-owner", "line %d `%s`: operation %d called try_%s on sender %d, whose reservation %s" % (
                        li, l, op, "release" if k == "rel" else "consume", x, ("belongs to operation %d" % owner[x][0]) if x in owner else "nobody holds")))
                else:
                    v = owner[x][1]
                    if k == "con":
                        consumed.setdefault(x, []).append(v)
                        if v not in deliv_by.get(op, ()):
                            bad.append(("consumed-undelivered", "line %d `%s`: operation %d consumed item %d of sender %d that no successor accepted (lost)" % (li, l, op, v, x)))
                    elif v in deliv_by.get(op, ()):
                        bad.append(("released-after-delivery", "line %d `%s`: operation %d released item %d of sender %d after a successor accepted it (it will be delivered again)" % (li, l, op, v, x)))
                    del owner[x]
            elif k == "put" and y == "a" and op >= 0:
                delivered[x] = delivered.get(x, 0) + 1
                deliv_by.setdefault(op, set()).add(x)
                if delivered[x] > 1:
                    bad.append(("duplicate-delivery", "line %d `%s`: value %d was accepted by the successors %d times" % (li, l, x, delivered[x])))
        if "!" in o.split(" | ")[-1]:
            bad.append(("reservation-not-owner", "line %d `%s`: a sender saw try_release/try_consume without holding a reservation: %s" % (li, l, o.split(" | ")[-1])))
        # an operation that finished must not keep a reservation
        busy = set() if st["susp"] == "-" else set(int(x) for x in st["susp"].split(","))
        for x, (op, v) in list(owner.items()):
            if op not in busy and st["res"] in ("done", "ok", "0", "1"):
                bad.append(("reservation-leaked", "line %d `%s`: operation %d returned but item %d of sender %d is still reserved (delivered=%s): it can never be forwarded again" % (
                    li, l, op, v, x, v in deliv_by.get(op, ()))))
                del owner[x]
        if st["susp"] == "-" and st.get("r", "-") != "-" and st["res"] in ("done", "ok", "0", "1"):
            bad.append(("reservation-leaked", "line %d `%s`: no operation is in progress but reserved_src is still set (sender %s)" % (li, l, st["r"])))
        last = st
    if last is not None and last["susp"] == "-":
        for x, arr in arrived.items():
            items = []
            for sd in last["snd"]:
                i, _, rest = sd.partition(":")
                if int(i) == x:
                    rest = rest.rstrip("^!*")
                    items = [] if rest == "-" else [int(t) for t in rest.split(",")]
            if consumed.get(x, []) + items != arr:
                bad.append(("sender-conservation", "sender %d: arrived %s != consumed %s + remaining %s" % (x, arr, consumed.get(x, []), items)))
            for v in consumed.get(x, []):
                if delivered.get(v, 0) != 1:
                    bad.append(("consumed-undelivered", "item %d of sender %d was consumed but delivered %d time(s)" % (v, x, delivered.get(v, 0))))
    return bad


def inp_monitors(lines, outs):
    """input_node: each generated id is generated once, offered-and-accepted at most once, taken exactly once or still cached"""
    bad = []
    gen, acc, taken = [], {}, []
    holder = None
    xitem = None
    last = None
    for li, (l, o) in enumerate(zip(lines, outs)):
        st = res_parse(o) if o != "bad-op" else None
        if st is None:
            continue
        for e in st["ev"]:
            if e.startswith("G") and e != "Gstop":
                v = int(e[1:])
                if v in gen:
                    bad.append(("body-twice", "line %d `%s`: the body generated id %d again" % (li, l, v)))
                if st["r"] == "1" and holder is not None:
                    bad.append(("body-while-reserved", "line %d `%s`: the body ran while the cached item was reserved" % (li, l)))
                gen.append(v)
            m = re.fullmatch(r"O(\d+):(\d+):([ar])", e)
            if m:
                op, v = int(m.group(1)), int(m.group(2))
                if holder is not None and holder != op:
                    bad.append(("reservation-not-owner", "line %d `%s`: put task %d offered item %d while %s holds the reservation" % (li, l, op, v, holder)))
                if m.group(3) == "a":
                    acc[v] = acc.get(v, 0) + 1
                    if acc[v] > 1:
                        bad.append(("duplicate-delivery", "line %d `%s`: id %d accepted by the successors %d times" % (li, l, v, acc[v])))
            if e.startswith("T") and e != "T-":
                taken.append(int(e[1:]))
            if e.startswith("R") and e != "R-":
                holder = "ext"
                xitem = int(e[1:])
        w = l.split()
        if w[0] in ("xrel", "xcon") and st["res"] == "ok":
            holder = None
        if st["susp"] == "-" and holder is None and st["r"] == "1":
            bad.append(("reservation-leaked", "line %d `%s`: no put task is in progress and the external successor holds nothing, but my_reserved is still set: "
                        "the cached item %s can never be delivered" % (li, l, st["i"])))
        if w[0] == "xcon" and st["res"] == "ok":
            taken.append(xitem)
        last = st
    if gen != list(range(gen[0], gen[0] + len(gen))) if gen else False:
        bad.append(("body-twice", "generated ids are not consecutive: %s" % gen))
    if last is not None and last["susp"] == "-":
        cached = [int(last["i"])] if last["h"] == "1" else []
        for v in gen:
            if not acc.get(v, 0) and v not in taken and v not in cached:
                bad.append(("generated-item-lost", "id %d was produced by the body but was neither accepted by a successor, nor taken by the external successor, nor is it cached" % v))
                break
    for v in taken:
        if acc.get(v, 0):
            bad.append(("duplicate-delivery", "id %d was accepted by the successors and also handed to the external successor" % v))
    return bad


def run_res(ck, exe):
    quick = ck.tier == "quick"
    for mode, args, corpus, genf, monf, model, n in (
            ("res", [], RES_CORPUS, gen_res_script, res_monitors, "c14res", 500 if quick else 8000),
            ("inp", ["inp"], INP_CORPUS, gen_inp_script, inp_monitors, "c14inp", 300 if quick else 5000)):
        scripts = []
        for c in corpus:
            outs, rc = run_script(exe, args, c)
            scripts.append((c, outs, rc))
        crash = []
        for _ in range(n):
            try:
                lines, outs, rc = genf(ck.rng, exe, ck.rng.choice([8, 16, 30, 50]))
            except RuntimeError as e:
                crash.append(str(e))
                continue
            scripts.append((lines, outs, rc))
        corr_bad, mon_bad = [], []
        for lines, outs, rc in scripts:
            ck.count(len(lines), (mode, tuple(sorted(set(l.split()[0] for l in lines))), sum(1 for o in outs if o.startswith("susp")) > 0,
                                  sum(1 for l in lines if l.startswith("snd "))))
            ck.traces_validated += 1
            if rc not in (0, None):
                mon_bad.append((("harness-crash", "harness exited with rc=%s (124 = hang: an operation never returned)" % rc), lines))
            try:
                mo = drv(model, "\n".join(lines) + "\n")
                d = first_diff(outs, mo)
                if d is not None:
                    corr_bad.append((d, outs[d] if d < len(outs) else "<missing>", mo[d] if d < len(mo) else "<missing>", lines))
            except BuildError as e:
                corr_bad.append((0, "<model driver unavailable>", str(e)[-200:], lines))
            for b in monf(lines, outs):
                mon_bad.append((b, lines))
        for c in crash[:1]:
            mon_bad.append((("harness-crash", c), []))
        ck.extra["res_" + mode] = {"scripts": len(scripts), "with_nested_windows": sum(1 for _l, o, _r in scripts if any(x.startswith("susp") for x in o))}
        ck.sample({"engine": "E-MOCK", "mode": mode, "script": scripts[1][0], "impl_output_tail": scripts[1][1][-3:]})
        what = ("real limiter_node + reservable_predecessor_cache" if mode == "res" else "real input_node put tasks + external reserving successor")
        ck.oblige("corr:E-MOCK %s with nested windows vs Lean `%s` (events with operation ids, counters, my_q, reserved_src, sender / node state)" % (what, model),
                  "correspondence", not corr_bad,
                  "" if not corr_bad else "line %d: impl `%s` model `%s` | script %s" % corr_bad[0])
        ck.oblige("monitor:E-MOCK %s: only the reserver releases/consumes, consumed iff delivered, delivered at most once, no reservation leaked" % what,
                  "correspondence", not mon_bad, "" if not mon_bad else "%s | script %s" % (mon_bad[0][0], mon_bad[0][1]))
        reported = set()
        for (key, text), lines in mon_bad:
            if key in reported or not lines or len(reported) >= 2:
                continue
            reported.add(key)

            def still(ls, key=key):
                o, rc = run_script(exe, args, ls)
                return (key == "harness-crash" and rc not in (0, None)) or any(k == key for (k, _t) in monf(ls, o))
            small = shrink_script(exe, lines, still)
            o, rc = run_script(exe, args, small)
            texts = [t for (k, t) in monf(small, o) if k == key]
            ck.counterexample(mode + ":" + key, texts[0] if texts else text, {"engine": "E-MOCK", "mode": mode, "script": small, "monitor": key, "impl_output": o[-6:]})



# ---------------------------------------------------------------------------------------------------
# (b) wait-context vertex + thread reference vertices + gateway references
# ---------------------------------------------------------------------------------------------------
TASK_H = os.path.join(REPO, "include/oneapi/tbb/detail/_task.h")
FG_IMPL_H = os.path.join(REPO, "include/oneapi/tbb/detail/_flow_graph_impl.h")
WAIT_FLAGS = ["refReserveOnZero", "refReleaseOnZero", "taskCtorReserves", "taskFinalizeReleases", "reserveWaitReserves", "releaseWaitReleases", "waitWhilePositive"]


def extract_wait(task_h, impl_h, fg_h):
    res = {"known": True, "why": []}

    def unknown(msg):
        res["known"] = False
        res["why"].append(msg)
    task = _norm(open(task_h).read())
    impl = _norm(open(impl_h).read())
    fg = _norm(open(fg_h).read())
    rv = _class_text(task, r"class reference_vertex\s*:[^{;]*\{") or ""
    b = _body_after(rv, r"void reserve\s*\([^)]*\)\s*(?:override)?\s*\{") or ""
    res["refReserveOnZero"] = bool(re.fullmatch(r"\s*if\s*\(\s*m_ref_count\.fetch_add\([^;{}]*\)\s*==\s*0\s*\)\s*\{\s*my_parent->reserve\(\s*\)\s*;\s*\}\s*", b))
    b = _body_after(rv, r"void release\s*\([^)]*\)\s*(?:override)?\s*\{") or ""
    m = re.search(r"(\w+)\s*=\s*m_ref_count\.fetch_sub\(\s*(?:static_cast<[^>]*>\()?\s*(\w+)\s*\)?\s*\)\s*-\s*(?:static_cast<[^>]*>\()?\s*(\w+)\s*\)?\s*;\s*if\s*\(\s*(\w+)\s*==\s*0\s*\)\s*\{\s*(\w+)->release\(\s*\)\s*;", b)
    res["refReleaseOnZero"] = bool(m and m.group(1) == m.group(4) and m.group(2) == m.group(3))
    if not (res["refReserveOnZero"] and res["refReleaseOnZero"]) and "fetch_" not in rv:
        unknown("reference_vertex::reserve/release not recognised")
    wc = _class_text(task, r"class wait_context\s*\{") or ""
    b = _body_after(wc, r"bool continue_execution\s*\(\s*\)\s*const\s*\{") or ""
    m = re.search(r"(\w+)\s*=\s*m_ref_count\.load\([^)]*\)\s*;.*return\s+(\w+)\s*>\s*0\s*;", b)
    res["waitWhilePositive"] = bool(m and m.group(1) == m.group(2))
    # graph_task constructor / finalize
    ctor = _body_after(impl, r"inline graph_task::graph_task\s*\([^)]*\)\s*:[^{]*\{") or ""
    m = re.search(r"my_reference_vertex\s*=\s*is_this_thread_in_graph_arena\(\s*\w+\s*\)\s*\?\s*r1::get_thread_reference_vertex\(\s*(\w+)\s*\)\s*:\s*(\w+)\s*;", ctor)
    res["taskCtorReserves"] = bool(m and m.group(1) == m.group(2) and re.search(r"my_reference_vertex->reserve\(\s*\)\s*;", ctor[m.end():]))
    fin = _body_after(impl, r"inline void graph_task::finalize\s*\([^)]*\)\s*\{") or ""
    m = re.search(r"(\w+)\s*=\s*my_reference_vertex\s*;\s*destruct_and_deallocate<\w+>\(\s*\w+\s*\)\s*;\s*(\w+)->release\(\s*\)\s*;", fin)
    res["taskFinalizeReleases"] = bool(m and m.group(1) == m.group(2))
    b = _body_after(fg, r"inline void graph::reserve_wait\s*\(\s*\)\s*\{") or ""
    res["reserveWaitReserves"] = bool(re.search(r"my_wait_context_vertex\.reserve\(\s*\)\s*;", b)) and "release" not in b.replace("fgt_release", "")
    b = _body_after(fg, r"inline void graph::release_wait\s*\(\s*\)\s*\{") or ""
    res["releaseWaitReleases"] = bool(re.search(r"my_wait_context_vertex\.release\(\s*\)\s*;", b)) and ".reserve(" not in b
    gw = _class_text(fg, r"class receiver_gateway_impl\s*:[^{;]*\{") or ""
    b1 = _body_after(gw, r"void reserve_wait\s*\(\s*\)\s*(?:override)?\s*\{") or ""
    b2 = _body_after(gw, r"void release_wait\s*\(\s*\)\s*(?:override)?\s*\{") or ""
    if not re.search(r"my_node->my_graph\.reserve_wait\(\s*\)\s*;", b1):
        res["reserveWaitReserves"] = False
    if not re.search(r"\b(\w+)->release_wait\(\s*\)\s*;", b2):
        res["releaseWaitReleases"] = False
    wfa = _body_after(impl, r"void wait_for_all\s*\(\s*\)\s*\{") or ""
    if not re.search(r"d1::wait\(\s*my_wait_context_vertex\.get_context\(\)\s*,\s*\*my_context\s*\)", wfa):
        unknown("graph::wait_for_all no longer waits on my_wait_context_vertex")
    return res


def gen_wait(ck):
    try:
        r = extract_wait(TASK_H, FG_IMPL_H, FLOW_GRAPH_H)
    except OSError as e:
        r = {"known": False, "why": [str(e)]}
    ck.extra["generated_wait"] = r
    ck.oblige("gen:wait tree skeleton (reference_vertex, wait_context::continue_execution, graph_task ctor/finalize, reserve_wait/release_wait, gateway) recognised",
              "generated", r.get("known", False), "; ".join(r.get("why", [])) or str({k: r.get(k) for k in WAIT_FLAGS}))
    body = "def skeletonKnown : Bool := %s\n" % ("true" if r.get("known") else "false")
    for k in WAIT_FLAGS:
        body += "def %s : Bool := %s\n" % (k, "true" if r.get(k) else "false")
    gen_write("C14Wait", body)


def build_limshim():
    return cxx_build("C14", "limshim", ["harness/c14/limshim.cpp", common.SHIM_SRC, STUBS], flags=["-O1", "-g", "-fno-access-control"] + common.SHIM_FLAGS)


def run_limshim(ck, exe):
    """E-SHIM: real limiter_node, real threads, every spin_mutex acquisition a scheduling point; implementation-side monitors only"""
    quick = ck.tier == "quick"
    n = 250 if quick else 4000
    bad = None
    runs = 0
    for (T, TH, NS, NI) in ((3, 2, 2, 3), (4, 3, 3, 2), (2, 1, 1, 4), (3, 2, 1, 4), (4, 2, 2, 2)):
        seed0 = ck.rng.randrange(1 << 30)
        rc, out, err = sh([exe, "rand", str(seed0), str(n), str(T), str(TH), str(NS), str(NI)], timeout=900)
        lines = out.split("\n")
        for l in lines:
            if l.startswith("done "):
                runs += int(l.split()[1].split("=")[1])
        ck.count(n, ("limshim", T, TH, NS, NI))
        if rc != 0 and bad is None:
            seed, mon, sched = None, "harness rc=%s %s" % (rc, (out + err)[-200:]), []
            for l in lines:
                if l.startswith("run ") and seed is None:
                    seed = int(l.split()[1])
                elif l.startswith("mon ") and mon.startswith("harness"):
                    mon = l[4:]
                elif l.startswith("sched") and not sched:
                    sched = l.split()[1:]
            bad = (mon, {"engine": "E-SHIM", "harness": "limshim", "seed": seed, "params": [T, TH, NS, NI], "schedule": sched})
    ck.extra["limshim"] = {"runs": runs}
    ck.oblige("monitor:E-SHIM real limiter_node with real threads at every mutex-section boundary: only the reserving thread releases/consumes, accepted at most once, "
              "consumed iff accepted, nothing left reserved, per-sender conservation", "correspondence", bad is None and runs > 0, "" if bad is None else bad[0])
    if bad is not None and bad[1]["seed"] is not None:
        key = "limshim:" + (bad[0].split(":")[0].replace("VIOLATION ", "").replace(" ", "-") if bad[0].startswith("VIOLATION") else "crash")
        ck.counterexample(key, bad[0], bad[1])


def build_wt():
    return cxx_build("C14", "wt", ["harness/c14/wt.cpp", common.SHIM_SRC, STUBS], flags=["-O1", "-g", "-fno-access-control"] + common.SHIM_FLAGS)


def run_wt(ck, exe):
    quick = ck.tier == "quick"
    nseeds = 400 if quick else 6000
    seed0 = ck.rng.randrange(1 << 30)
    corr_bad, mon_bad = None, None
    nruns = nev = 0
    for (T, nops, n) in ((2, 6, nseeds // 4), (3, 8, nseeds // 2), (4, 10, nseeds // 4)):
        rc, out, err = sh([exe, str(seed0), str(n), str(T), str(nops)], timeout=600)
        if rc != 0:
            mon_bad = mon_bad or ("harness rc=%s: %s" % (rc, (out + err)[-300:]), None)
        seed0 += n
        cur, seed = None, None
        for l in out.split("\n"):
            w = l.split()
            if not w:
                continue
            if w[0] == "run":
                cur, seed = [], (int(w[1]), int(w[2]))
            elif w[0] in ("final", "sched"):
                continue
            elif w[0] == "mon":
                if w[1] != "ok" and mon_bad is None:
                    mon_bad = (l[4:], {"seed": seed[0], "threads": seed[1], "ops": nops, "trace": list(cur)})
            elif w[0] == "end":
                nruns += 1
                nev += len(cur)
                ck.count(len(cur), ("wt", T, tuple(sorted(set(x.split()[0] for x in cur)))))
                ck.traces_validated += 1
                if corr_bad is None:
                    script = ["threads %d" % seed[1]] + [" ".join(x.split()[:-1]) for x in cur]
                    try:
                        mo = drv("c14wt", "\n".join(script) + "\n")
                    except BuildError as e:
                        corr_bad = ("model driver unavailable: %s" % str(e)[-200:], None)
                        continue
                    for i, x in enumerate(cur):
                        old = int(x.split()[-1])
                        got = mo[i + 1].split(" | ")[0] if i + 1 < len(mo) else "<missing>"
                        exp = ("cont" if old > 0 else "ret") if x.startswith("T") else str(old)
                        if got != exp:
                            corr_bad = ("seed %d: access %d `%s`: the real code read %s, the model says `%s`" % (seed[0], i, x, exp, got),
                                        {"seed": seed[0], "threads": seed[1], "ops": nops, "trace": list(cur)})
                            break
            elif cur is not None:
                cur.append(l)
    ck.extra["wt"] = {"runs": nruns, "atomic_accesses_replayed": nev}
    ck.oblige("corr:E-SHIM real wait_context_vertex + reference_vertex under the controlled scheduler vs Lean `c14wt` (every atomic access reads the value the model predicts)",
              "correspondence", corr_bad is None and nruns > 0, "" if corr_bad is None else corr_bad[0])
    ck.oblige("monitor:E-SHIM wait_for_all's test never reads 0 while a completed reserve_wait / fully constructed task is outstanding",
              "correspondence", mon_bad is None, "" if mon_bad is None else mon_bad[0])
    for key, b in (("wt:early-return", mon_bad), ("wt:count-diverges", corr_bad)):
        if b is not None and b[1] is not None and key == "wt:early-return":
            ck.counterexample(key, b[0], {"engine": "E-SHIM", "harness": "wt", **b[1]})



# ---------------------------------------------------------------------------------------------------
# (c) try_put_and_wait: order / balance facts of the metainfo-carrying paths (Generated/C14Meta.lean)
# ---------------------------------------------------------------------------------------------------
BODY_IMPL_H = os.path.join(REPO, "include/oneapi/tbb/detail/_flow_graph_body_impl.h")
ITEM_BUF_H = os.path.join(REPO, "include/oneapi/tbb/detail/_flow_graph_item_buffer_impl.h")
JOIN_IMPL_H = os.path.join(REPO, "include/oneapi/tbb/detail/_flow_graph_join_impl.h")
META_FLAGS = ["taskPutBeforeFinalize", "pqrCopyBeforePop", "bufferPutBeforeDestroy", "joinPutBeforeAccepted", "limiterPutBeforeConsume",
              "slotReservesOnCopy", "slotReleasesOnDestroy", "taskReservesOnCopy", "taskReleasesOnFinalize", "tpwWaitsOnOwnVertex"]


def _norm_meta(s):
    """comments removed, preprocessor lines dropped (both branches kept), the METAINFO_ARG macro expanded, whitespace squeezed"""
    s = _strip_comments(s)
    s = re.sub(r"__TBB_FLOW_GRAPH_METAINFO_ARG\(((?:[^()]|\([^()]*\))*)\)", r", \1", s)
    s = re.sub(r"^\s*#[^\n]*$", "", s, flags=re.M)
    return re.sub(r"\s+", " ", s)


def _before(txt, a, b):
    ma, mb = re.search(a, txt or ""), re.search(b, txt or "")
    return bool(ma and mb and ma.start() < mb.start())


def extract_meta():
    res = {"known": True, "why": []}

    def unknown(msg):
        res["known"] = False
        res["why"].append(msg)
    body = _norm_meta(open(BODY_IMPL_H).read())
    node = _norm_meta(open(NODE_IMPL).read())
    fg = _norm_meta(open(FLOW_GRAPH_H).read())
    ib = _norm_meta(open(ITEM_BUF_H).read())
    jn = _norm_meta(open(JOIN_IMPL_H).read())
    impl = _norm_meta(open(FG_IMPL_H).read())
    t = _class_text(body, r"class apply_body_task_bypass\s*:[^{;]*\{") or ""
    ex = _body_after(t, r"d1::task\s*\*\s*execute\s*\([^)]*\)\s*override\s*\{")
    if ex is None:
        unknown("apply_body_task_bypass::execute not found")
    res["taskPutBeforeFinalize"] = _before(ex, r"call_apply_body_bypass\(\s*\)", r"finalize<") and len(re.findall(r"finalize<", ex or "")) == 1
    pq = _body_after(node, r"graph_task\s*\*\s*perform_queued_requests\s*\(\s*\)\s*\{")
    if pq is None:
        unknown("perform_queued_requests not found")
    res["pqrCopyBeforePop"] = _before(pq, r"create_body_task\(\s*my_queue->front\(\)\s*,\s*my_queue->front_metainfo\(\)\s*\)", r"my_queue->pop\(\s*\)")
    ok = True
    n = 0
    for m in re.finditer(r"void try_put_and_add_task\s*\([^)]*\)\s*\{", fg):
        b = _body_after(fg[m.start():], r"void try_put_and_add_task") or ""
        n += 1
        mm = re.search(r"graph_task\s*\*\s*(\w+)\s*=\s*(?:this->)?my_successors\.try_put_task\(\s*this->(back|front|prio)\(\)\s*,\s*this->(back|front|prio)_metainfo\(\)\s*\)\s*;\s*if\s*\(\s*(\w+)\s*\)\s*\{(.*)\}", b)
        ok = ok and bool(mm and mm.group(1) == mm.group(4) and mm.group(2) == mm.group(3) and
                         re.search(r"prio_pop\(\s*\)" if mm.group(2) == "prio" else r"this->destroy_%s\(\s*\)" % mm.group(2), mm.group(5)))
    res["bufferPutBeforeDestroy"] = ok and n >= 2
    if n < 2:
        unknown("buffer_node / queue_node try_put_and_add_task not found")
    fw = re.search(r"case do_fwrd_bypass\s*:\s*\{(.*?)forwarder_busy\s*=\s*false", jn)
    fwt = fw.group(1) if fw else None
    if fwt is None:
        unknown("join_node_base do_fwrd_bypass not found")
    mm = re.search(r"graph_task\s*\*\s*(\w+)\s*=\s*my_successors\.try_put_task\(\s*\w+\s*,\s*\w+\s*\)\s*;.*?if\s*\(\s*(\w+)\s*\)\s*\{\s*tuple_accepted\(\s*\)\s*;\s*\}\s*else\s*\{\s*tuple_rejected\(\s*\)", fwt or "")
    res["joinPutBeforeAccepted"] = bool(mm and mm.group(1) == mm.group(2)) and _before(fwt, r"try_to_make_tuple\(", r"my_successors\.try_put_task\(")
    lim = _class_text(fg, r"class limiter_node\s*:[^{;]*\{")
    ft = _body_after(lim or "", r"graph_task\s*\*\s*forward_task\s*\(\s*\)\s*\{")
    res["limiterPutBeforeConsume"] = _before(ft, r"my_successors\.try_put_task\(", r"my_predecessors\.try_consume\(") and \
        _before(ft, r"my_predecessors\.try_reserve\(\s*\w+\s*,\s*\w+\s*\)", r"my_successors\.try_put_task\(\s*\w+\s*,\s*\w+\s*\)")
    sm = re.search(r"void set_my_item\s*\(\s*size_t \w+\s*,\s*const item_type\s*&\s*\w+\s*,\s*const message_metainfo\s*&\s*(\w+)\s*\)\s*\{", ib)
    b = _body_after(ib[sm.start():], r"void set_my_item") if sm else None
    if b is None:
        unknown("item_buffer::set_my_item(const&, const message_metainfo&) not found")
    res["slotReservesOnCopy"] = bool(b and re.search(r"message_metainfo\(\s*%s\s*\)\s*;\s*for\s*\(\s*auto\s*&?\s*(\w+)\s*:\s*%s\.waiters\(\)\s*\)\s*\{\s*\1->reserve\(\s*1\s*\)\s*;" % (sm.group(1), sm.group(1)), b))
    b = _body_after(ib, r"void destroy_item\s*\([^)]*\)\s*\{")
    res["slotReleasesOnDestroy"] = bool(b and re.search(r"for\s*\(\s*auto\s*&?\s*(\w+)\s*:\s*\w+\.metainfo\.waiters\(\)\s*\)\s*\{\s*\1->release\(\s*1\s*\)\s*;", b))
    tt = _class_text(impl, r"class trackable_messages_graph_task\s*:[^{;]*\{") or ""
    ctor = _body_after(tt, r"trackable_messages_graph_task\s*\([^)]*const std::forward_list<d1::wait_context_vertex\*>\s*&\s*\w+\s*\)\s*:[^{]*\{")
    res["taskReservesOnCopy"] = bool(ctor and re.search(r"for\s*\(\s*auto\s*&?\s*\w+\s*:\s*my_msg_wait_context_vertices\s*\)\s*\{.*?(\w+)->reserve\(\s*1\s*\)\s*;", ctor))
    fin = _body_after(tt, r"void finalize\s*\([^)]*\)\s*\{")
    res["taskReleasesOnFinalize"] = bool(fin and len(re.findall(r"for\s*\(\s*auto\s*&?\s*(\w+)\s*:\s*\w+\s*\)\s*\{\s*\1->release\(\s*1\s*\)\s*;", fin)) == 2 and
                                        _before(fin, r"graph_task::finalize<", r"->release\("))
    tp = _body_after(fg, r"bool try_put_and_wait\s*\(\s*const T\s*&\s*\w+\s*\)\s*\{")
    mm = re.search(r"d1::wait_context_vertex (\w+)\s*\{\s*\}\s*;\s*bool (\w+)\s*=\s*internal_try_put\(\s*\w+\s*,\s*message_metainfo\s*\{\s*message_metainfo::waiters_type\s*\{\s*&\s*(\w+)\s*\}\s*\}\s*\)\s*;\s*"
                   r"if\s*\(\s*(\w+)\s*\)\s*\{.*?d1::wait\(\s*(\w+)\.get_context\(\)", tp or "")
    res["tpwWaitsOnOwnVertex"] = bool(mm and mm.group(1) == mm.group(3) == mm.group(5) and mm.group(2) == mm.group(4))
    if tp is None:
        unknown("receiver::try_put_and_wait not found")
    return res


def gen_meta(ck):
    try:
        r = extract_meta()
    except OSError as e:
        r = {"known": False, "why": [str(e)]}
    ck.extra["generated_meta"] = r
    ck.oblige("gen:try_put_and_wait skeleton (trackable task ctor/finalize, item_buffer set/destroy, task / queue / buffer / join / limiter forwarding order, try_put_and_wait) recognised",
              "generated", r.get("known", False), "; ".join(r.get("why", [])) or str({k: r.get(k) for k in META_FLAGS}))
    body = "def skeletonKnown : Bool := %s\n" % ("true" if r.get("known") else "false")
    for k in META_FLAGS:
        body += "def %s : Bool := %s\n" % (k, "true" if r.get(k) else "false")
    gen_write("C14Meta", body)



def build_meta():
    return cxx_build("C14", "meta", ["harness/c14/meta.cpp", STUBS], flags=["-O1", "-g", "-fno-access-control", "-DTBB_PREVIEW_FLOW_GRAPH_TRY_PUT_AND_WAIT=1"])


def meta_parse(o):
    f = o.split(" | ")
    if len(f) != 5:
        return None
    st = {"res": f[0], "ev": [] if f[1] == "-" else f[1].split(), "pool": [] if f[2] == "-" else [x.split(":", 1) for x in f[2].split()], "w": {}, "h": []}
    if f[3] != "-":
        for x in f[3].split():
            k, _, v = x.partition("=")
            c, _, m = v.partition("/")
            st["w"][int(k[1:])] = (int(c), int(m))
    if f[4] != "-":
        for x in f[4].split():
            k, m, l = x.split(":")
            st["h"].append((k, [int(t) for t in m.split("+")], [] if l == "-" else [int(t) for t in l.split(",")]))
    return st


META_CORPUS = [
    # tracked put through a serial queueing node, a queue_node, a rejecting serial node (pull), a sink; an unrelated message in between
    ["node 0 func 1 q", "node 1 queue", "node 2 func 1 r", "node 3 sink 0", "edge 0 1", "edge 1 2", "edge 2 3", "go",
     "tpw 0 7", "put 0 8", "tpw 0 9", "run k1", "run k0", "run k2", "run k3", "run k4", "run k5", "run k6", "run k7", "run k8", "run k9", "run k10", "run k11"],
    # join of a tracked and an untracked message, then a limiter fed by a queue
    ["node 0 func 0 q", "node 1 func 0 q", "node 2 join", "node 3 queue", "node 4 limiter 1", "node 5 func 1 q", "node 6 sink 0",
     "edge 0 2 0", "edge 1 2 1", "edge 2 3", "edge 3 4", "edge 4 5", "edge 5 6", "go",
     "tpw 0 5", "put 1 6", "tpw 0 15", "tpw 1 16", "run k1", "run k2", "run k3", "run k4", "run k0", "run k5", "run k6", "run k7", "run k8", "run k9", "dec 4",
     "run k10", "run k11", "run k12", "run k13", "run k14"],
]


def gen_meta_script(rng, exe, nops):
    it = Inter(exe)
    try:
        nodes = []
        lines = []
        use_join = rng.random() < 0.4
        entries = [0]
        nodes.append("func %d q" % rng.choice([0, 1, 1, 2]))
        if use_join:
            nodes.append("func %d q" % rng.choice([0, 1]))
            entries.append(1)
            nodes.append("join")
        for _ in range(rng.choice([1, 2, 3])):
            k = rng.choice(["funcq", "queue", "queue+funcr", "queue+limiter", "funcq"])
            if k == "funcq":
                nodes.append("func %d q" % rng.choice([0, 1, 2]))
            elif k == "queue":
                nodes.append("queue")
            elif k == "queue+funcr":
                nodes += ["queue", "func %d r" % rng.choice([1, 1, 2])]
            else:
                nodes += ["queue", "limiter %d" % rng.choice([1, 2])]
        nodes.append("sink %d" % rng.choice([0, 0, 0, 3]))
        for i, nd in enumerate(nodes):
            it.send("node %d %s" % (i, nd))
        start = 0
        if use_join:
            it.send("edge 0 2 0")
            it.send("edge 1 2 1")
            start = 2
        for i in range(start, len(nodes) - 1):
            it.send("edge %d %d" % (i, i + 1))
        st = meta_parse(it.send("go"))
        lims = [i for i, nd in enumerate(nodes) if nd.startswith("limiter")]
        nid = [10]
        for _ in range(nops):
            r = rng.random()
            if st["pool"] and r < 0.5:
                l = "run " + rng.choice(st["pool"])[0]
            elif r < 0.68:
                nid[0] += 1
                l = "tpw %d %d" % (rng.choice(entries), nid[0])
            elif r < 0.84:
                nid[0] += 1
                l = "put %d %d" % (rng.choice(entries), nid[0])
            elif r < 0.93 and lims:
                l = "dec %d" % rng.choice(lims)
            elif r < 0.97:
                l = "mode %d %d" % (len(nodes) - 1, rng.choice([0, 0, 2, 3]))
            else:
                l = rng.choice(["run k999", "frob", "tpw 99 1", "dec 0"])
            st = meta_parse(it.send(l)) or st
        st = meta_parse(it.send("mode %d 0" % (len(nodes) - 1))) or st
        for _ in range(400):      # drain: run everything, decrement the limiters while something is stuck behind them
            if st["pool"]:
                st = meta_parse(it.send("run " + st["pool"][0][0])) or st
            elif st["h"] and lims:
                before = st
                for lm in lims:
                    st = meta_parse(it.send("dec %d" % lm)) or st
                if not st["pool"]:
                    break
            else:
                break
    finally:
        rc = it.close()
    return it.lines, it.outs, rc


def meta_monitors(lines, outs):
    from collections import Counter
    bad = []
    tpw = set()
    derived = {}      # message -> Counter of tracked puts it derives from
    prev = None
    for li, (l, o) in enumerate(zip(lines, outs)):
        w = l.split()
        st = meta_parse(o) if o != "bad-op" else None
        if st is None:
            continue
        created = None
        if w[0] == "tpw" and st["res"] == "1":
            tpw.add(int(w[2]))
            derived[int(w[2])] = Counter([int(w[2])])
            created = int(w[2])
        for e in st["ev"]:
            m = re.fullmatch(r"J\d+:(\d+)\+(\d+)", e)
            if m:
                a, b = int(m.group(1)), int(m.group(2))
                derived[a] = derived.get(a, Counter()) + derived.get(b, Counter())
        # every holder carries exactly the vertices of the puts its message derives from
        for (k, msgs, ws) in st["h"]:
            exp = Counter()
            for m in msgs:
                exp += derived.get(m, Counter())
            if Counter(ws) != exp:
                miss = exp - Counter(ws)
                extra = Counter(ws) - exp
                if miss:
                    bad.append(("descendant-untracked", "line %d `%s`: the %s holding message %s derives from tracked put(s) %s but does not carry their vertex: try_put_and_wait would not wait for it"
                                % (li, l, "task" if k == "T" else "slot", msgs, sorted(miss))))
                if extra:
                    bad.append(("unrelated-tracked", "line %d `%s`: the %s holding message %s carries the vertex of put(s) %s it does not derive from: try_put_and_wait would wait for an unrelated message"
                                % (li, l, "task" if k == "T" else "slot", msgs, sorted(extra))))
        for wid, (c, mn) in st["w"].items():
            own = sum(ws.count(wid) for (_k, _m, ws) in st["h"])
            if c != own:
                bad.append(("count-mismatch", "line %d `%s`: vertex of put %d has reference count %d but the live holders own %d reference(s)%s" % (
                    li, l, wid, c, own, ": try_put_and_wait would return early" if c < own else ": try_put_and_wait would never return")))
            if prev is not None and wid != created and wid in prev["w"]:
                before = sum(ws.count(wid) for (_k, _m, ws) in prev["h"])
                if before > 0 and own > 0 and mn <= 0:
                    bad.append(("transient-zero", "line %d `%s`: the reference count of put %d dropped to %d in the middle of the operation although a descendant exists before and after it: "
                                "a concurrent try_put_and_wait would return early" % (li, l, wid, mn)))
        prev = st
    return bad


def run_meta(ck, exe):
    quick = ck.tier == "quick"
    scripts = []
    for c in META_CORPUS:
        outs, rc = run_script(exe, [], c)
        scripts.append((c, outs, rc))
    for _ in range(250 if quick else 4000):
        try:
            scripts.append(gen_meta_script(ck.rng, exe, ck.rng.choice([10, 20, 35])))
        except RuntimeError as e:
            scripts.append(([], [], str(e)))
    mon_bad, snap_bad = [], None
    snaps, ntpw = [], 0
    for lines, outs, rc in scripts:
        if rc not in (0, None):
            mon_bad.append((("harness-crash", "harness rc=%s" % rc), lines))
            continue
        ck.count(len(lines), ("meta", tuple(sorted(set(l.split()[2] for l in lines if l.startswith("node ")))), tuple(sorted(set(l.split()[0] for l in lines)))))
        ck.traces_validated += 1
        ntpw += sum(1 for l, o in zip(lines, outs) if l.startswith("tpw") and o.startswith("1 |"))
        for b in meta_monitors(lines, outs):
            mon_bad.append((b, lines))
        for l, o in zip(lines, outs):
            st = meta_parse(o) if o != "bad-op" else None
            if st and st["w"]:
                snaps.append(("snap " + " ".join("%d=%d" % (k, v[0]) for k, v in sorted(st["w"].items())) + " | " +
                              " ".join("%s:%d:%s" % (k, m[0], ",".join(map(str, ws)) or "-") for (k, m, ws) in st["h"]), lines, l))
    try:
        mo = drv("c14meta", "\n".join(x[0] for x in snaps) + "\n") if snaps else []
        for (sn, lines, l), r in zip(snaps, mo):
            if r != "ok":
                snap_bad = ("`%s` -> %s | %s" % (l, r, sn), lines)
                break
    except BuildError as e:
        snap_bad = ("model driver unavailable: %s" % str(e)[-200:], [])
    ck.extra["meta"] = {"scripts": len(scripts), "tracked_puts": ntpw, "snapshots_checked": len(snaps)}
    ck.sample({"engine": "E-MOCK", "mode": "meta", "script": scripts[0][0][:30], "impl_output_tail": scripts[0][1][-2:]})
    ck.oblige("corr:E-MOCK try_put_and_wait: white-box snapshots of the real nodes (vertex counts, pending trackable tasks, occupied slots with their metainfo) "
              "satisfy the model's invariant count = references owned by holders, evaluated by Lean `c14meta`", "correspondence", snap_bad is None and bool(snaps),
              "" if snap_bad is None else snap_bad[0])
    ck.oblige("monitor:E-MOCK try_put_and_wait: every holder of a descendant carries the put's vertex and nothing else does, the count never touches 0 while a descendant "
              "exists, nothing is left referenced when the graph is drained", "correspondence", not mon_bad, "" if not mon_bad else "%s | script %s" % (mon_bad[0][0], mon_bad[0][1]))
    reported = set()
    for (key, text), lines in mon_bad:
        if key in reported or not lines or len(reported) >= 2:
            continue
        reported.add(key)

        def still(ls, key=key):
            o, rc = run_script(exe, [], ls)
            return any(k == key for (k, _t) in meta_monitors(ls, o))
        small = shrink_script(exe, lines, still)
        o, rc = run_script(exe, [], small)
        texts = [t for (k, t) in meta_monitors(small, o) if k == key]
        ck.counterexample("meta:" + key, texts[0] if texts else text, {"engine": "E-MOCK", "mode": "meta", "script": small, "monitor": key, "impl_output": o[-4:]})


# ---------------------------------------------------------------------------------------------------
# E-REAL
# ---------------------------------------------------------------------------------------------------
REAL_TOPOS = ["chain", "fanout", "fanin", "diamond", "limiter", "input", "rejecting", "lightweight", "cancel", "throw", "reserve", "async"]
FAULT_TOPOS = ["chain", "fanout", "fanin", "diamond", "limiter", "rejecting", "async"]


def real_cases(ck):
    quick = ck.tier == "quick"
    cases = []
    n = 99 if quick else 2200
    for i in range(n):
        topo = REAL_TOPOS[i % len(REAL_TOPOS)]
        cases.append({"topo": topo, "seed": ck.rng.randrange(1 << 30), "putters": ck.rng.choice([2, 3, 4]), "arena": ck.rng.choice([2, 3, 4, 8]),
                      "msgs": ck.rng.choice([50, 200, 600]) if quick else ck.rng.choice([100, 500, 2000]),
                      "depth": ck.rng.choice([1, 2, 3, 5]), "width": ck.rng.choice([2, 3, 4])})
    # fault schedules on multi-node graphs: body k of node j throws / the graph is cancelled after k starts
    for i in range(36 if quick else 900):
        topo = FAULT_TOPOS[i % len(FAULT_TOPOS)]
        fault = ("throw:%d:%d" % (ck.rng.randrange(4), ck.rng.randrange(600))) if ck.rng.random() < 0.65 and topo != "async" else "cancel:%d" % ck.rng.choice([1, 5, 20, 60])
        cases.append({"topo": topo, "seed": ck.rng.randrange(1 << 30), "putters": ck.rng.choice([2, 3, 4]), "arena": ck.rng.choice([2, 4, 8]),
                      "msgs": ck.rng.choice([50, 200, 600]), "depth": ck.rng.choice([1, 2, 3]), "width": ck.rng.choice([2, 3]), "fault": fault})
    # try_put_and_wait (preview build of the same harness)
    for i in range(24 if quick else 500):
        cases.append({"topo": "tpw", "seed": ck.rng.randrange(1 << 30), "putters": ck.rng.choice([1, 2, 3]), "arena": ck.rng.choice([4, 8]),
                      "msgs": ck.rng.choice([10, 60, 200]), "depth": 1, "width": 2, "preview": True})
    # the rejection / edge-flip race needs many hand-overs per run: long runs of the pull-protocol topologies
    for i in range(40 if quick else 800):
        cases.append({"topo": ["input", "rejecting", "limiter"][i % 3], "seed": ck.rng.randrange(1 << 30), "putters": ck.rng.choice([2, 4]),
                      "arena": ck.rng.choice([4, 8]), "msgs": ck.rng.choice([2000, 4000]), "depth": 2, "width": 2})
    return cases


def run_real_case(exe, c, timeout=120):
    if isinstance(exe, dict):
        exe = exe["preview" if c.get("preview") else "plain"]
    args = [exe, c["topo"], str(c["seed"]), str(c["putters"]), str(c["arena"]), str(c["msgs"]), str(c["depth"]), str(c["width"])]
    if c.get("fault"):
        args.append(c["fault"])
    rc, out, err = sh(args, timeout=timeout)
    res = None
    for l in out.split("\n"):
        if l.startswith("{"):
            try:
                res = json.loads(l)
            except ValueError:
                pass
    return rc, res, (out + err)[-600:]


def run_real(ck, exe):
    bad = []
    ncases = 0
    for c in real_cases(ck):
        rc, res, tail = run_real_case(exe, c)
        ncases += 1
        if res is None or rc not in (0, 1):
            bad.append((c, {"violations": ["harness rc=%s: %s" % (rc, tail)]}))
            if len(bad) >= 4:
                break
            continue
        ck.count(res.get("bodies", 0), ("real", c["topo"], c["putters"], c["arena"], min(3, res.get("max_live", 0)), (c.get("fault") or "").split(":")[0]))
        if res.get("violations"):
            bad.append((c, res))
        if len(bad) >= 4 or (bad and any(x.startswith("hang") for x in bad[-1][1]["violations"]) and len(bad) >= 2):
            break      # enough failing cases to report; do not wait for more (a broken tree may make every case hang)
        if ncases <= 2:
            ck.sample({"engine": "E-REAL", "case": c, "result": {k: res[k] for k in res if k != "violations"}})
    ck.extra["real"] = {"cases": ncases}
    ck.oblige("monitor:E-REAL multi-threaded runs: live bodies <= limit, every accepted message processed exactly once, sink multiset = source multiset, "
              "wait_for_all returns idle, no body after cancel/exception", "correspondence", not bad,
              "" if not bad else "%s | case %s" % (bad[0][1]["violations"][:2], bad[0][0]))
    seen = set()
    for c, res in bad:
        v = res["violations"][0]
        key = "real:" + c["topo"] + ":" + v.split(":")[0].replace(" ", "-") + (":fault" if c.get("fault") else "")
        if key in seen or len(seen) >= 2:
            continue
        seen.add(key)
        # shrink: fewer messages / threads while it still fails (3 attempts each)
        cur = dict(c)
        fields = (("msgs", [5, 20, 50]), ("putters", [1, 2]), ("arena", [2]), ("depth", [1]), ("width", [2]))
        if v.startswith("hang") or v.startswith("harness"):
            fields = (("msgs", [5]),)       # every attempt costs the watchdog's 10 s
        for field, vals in fields:
            for v2 in vals:
                if v2 >= cur[field]:
                    continue
                t = dict(cur)
                t[field] = v2
                if any((run_real_case(exe, t)[1] or {}).get("violations") for _ in range(3)):
                    cur = t
                    break
        ck.counterexample(key, "%s on topology %s (%d putter threads, arena %d, %d messages)" % (v, cur["topo"], cur["putters"], cur["arena"], cur["msgs"]),
                          {"engine": "E-REAL", "case": cur, "violations": res["violations"][:5], "repeat": 20})
    return bad


# ---------------------------------------------------------------------------------------------------
def run(ck):
    ck.rule = ("E-GEN: slot tests / decrement / forwarder-flag updates of the function_input_base handlers re-extracted from the source text. "
               "E-MOCK: hand-written corpus + seeded random topologies (input nodes, continue sub-graphs, function/multifunction nodes with limit 0-3, "
               "queueing/rejecting, lightweight or not, scripted sinks, proxies that open the window between a rejected try_put_task and "
               "register_predecessor; DAG edges) driven by seeded random scripts of external try_puts, task begin/end in arbitrary order, activate, "
               "cancel, throw, reset, reserve/release, wait_for_all, sink pulls/reservations, hooks, malformed lines; the same on graphs of "
               "never-rejecting function nodes against the Net machine; distinct = distinct (set of node configurations, set of op kinds). "
               "Caches: exhaustive response vectors. E-REAL: 11 topology families x random sizes, 2-4 putter threads, arena 2-8, plus long runs of "
               "the pull-protocol topologies, fault schedules (body k of node j throws / cancel after k starts) on 7 multi-node topologies, async_node with "
               "foreign threads that put and release late, try_put_and_wait (preview build) with a blocked unrelated message. "
               "Reservation protocol: E-GEN of the statement skeleton of reservable_predecessor_cache / limiter_node::forward_task / input_node::apply_body_bypass; "
               "E-MOCK real limiter_node / input_node with scripted senders and successor, hooks that suspend an operation inside a sender's try_reserve / the "
               "successor's try_put_task so that further forward attempts (decrementer, pending forward tasks, register_predecessor, the push path) / put tasks run "
               "nested inside the window; corpus + seeded random scripts; distinct = (mode, op kinds, has nested window, number of senders). "
               "Wait tree: E-SHIM real wait_context_vertex + reference_vertex, 2-4 threads, random programs, seeded random schedules, every atomic access replayed by the "
               "model. try_put_and_wait: E-MOCK (preview macro) chains of function / queue / join / limiter nodes, tracked and plain puts, scripted task order, "
               "white-box snapshots of every holder of a vertex reference.")
    ck.assumptions += [
        "modelled and proved: function_input_base handlers (all op sequences), broadcast/round-robin try_put_task, continue_receiver counters, input_node "
        "flag protocol, input_node->rejecting-node push/pull switching (all task-level interleavings with foreign try_puts), graphs of queueing/unlimited "
        "function nodes with the wait-context vertex, cancellation and exceptions (all operation-level interleavings)",
        "each aggregator handler / mutex-protected cache operation is one atomic step (justified by the aggregator's serial execution, C13's theorem); "
        "the window between a rejected try_put_task and register_predecessor is covered at node level (any op order) and sampled through proxies",
        "graph_conservation is proved for graphs of function nodes; buffering nodes (queue, join, limiter, ...) are C15's models and appear here only in "
        "E-REAL monitors",
        "modelled and proved (this extension): the reservation protocol of reservable_predecessor_cache with any number of concurrent "
        "limiter_node::forward_task invocations at the granularity of the mutex-protected sections (single owner, failed attempts touch nothing, consumed iff "
        "delivered, at most once), input_node put tasks + an external reserving successor; the wait tree (graph vertex + per-thread reference vertices, one step "
        "per atomic access) with reserve_wait/release_wait and foreign-created tasks (gateway); try_put_and_wait metainfo reference counting at holder "
        "granularity along the task / queue->task / buffer / join / limiter paths; after cancellation only in-flight bodies finish",
        "the reservation theorems are about the model instantiated with the flags regenerated from the source text; the senders obey the reservation "
        "contract of a reservable sender (C15's buffer_reservation_safe for the real buffers); the window inside my_successors.try_put_task is closed to other "
        "limiter operations by the successor cache's lock (check_conditions takes it), so it is atomic in the model and cannot be opened by the mock",
        "try_put_and_wait: holder creation (a loop of reserve(1)) and destruction (a loop of release(1)) are single steps; multifunction_node output ports, "
        "async gateways and limiter decrementers do not carry metainfo (modelled as untracked hops, excluded from the theorem); continue_node / overwrite_node / "
        "write_once_node metainfo is not modelled; receiver::try_put_and_wait itself runs only in E-REAL (the mock drives try_put_task with a harness-owned vertex)",
        "wait_for_all is assumed to return exactly when wait_context::continue_execution() reads 0 (C01/C02 own the dispatcher's wait loop); "
        "the mock maps thread reference vertices to the graph's vertex, the real reference_vertex protocol is tied by E-SHIM (harness/c14/wt.cpp) and by C01",
        "not modelled: priorities (prioritize_task), graph::reset with rf_clear_edges/rf_reset_bodies, nodes created while the graph is inactive, reserving join_node "
        "ports as users of the cache (their handler serialises try_reserve/release/consume on the aggregator; C15 owns the join contract)",
        "E-MOCK replaces r1 (task pool, context, arena) by a scripted single-threaded pool: true parallel overlap of bodies is covered by the theorems "
        "(all op sequences) and sampled by E-REAL",
        "no_body_after_cancel is about tasks taken by the dispatcher after cancellation; a lightweight body invoked inline by an already running task or by "
        "an external try_put is not prevented by the code and is not flagged; an exception thrown in an already cancelled context is dropped by the "
        "dispatcher (wait_for_all then reports cancellation only) and is modelled so"]
    ck.trusted += ["checks/c14.py extract_reservation / extract_wait / extract_meta (E-GEN regexes over the statement skeletons)",
                   "harness/c14/res.cpp (stub senders / successor, nested windows)", "harness/c14/wt.cpp (trace extraction)", "harness/c14/meta.cpp (white-box holder snapshot)",
                   "checks/c14.py extract_handlers (E-GEN regexes)", "harness/c14/mock.cpp (mock r1 + white-box dump)", "harness/c14/real.cpp monitors",
                   "checks/c14.py monitors, script generator and Net translation"]
    gen(ck)
    gen_res(ck)
    gen_wait(ck)
    gen_meta(ck)
    ck.lean_stage()
    run_res(ck, build_res())
    run_limshim(ck, build_limshim())
    run_wt(ck, build_wt())
    run_meta(ck, build_meta())
    mock = build_mock()
    run_cache(ck, mock)
    run_mock(ck, mock)
    run_net(ck, mock)
    run_real(ck, {"plain": build_real(), "preview": build_real(preview=True)})


def replay(ck, obj):
    r = obj["replay"]
    if r.get("engine") == "E-MOCK" and r.get("mode") == "meta":
        exe = build_meta()
        outs, rc = run_script(exe, [], r["script"])
        bad = meta_monitors(r["script"], outs)
        for l, o in zip(r["script"], outs):
            print("%-16s %s" % (l, o))
        for k, t in bad:
            print("MONITOR %s: %s" % (k, t))
        return 1 if any(k == r.get("monitor") for k, _ in bad) or rc != 0 else 0
    if r.get("engine") == "E-SHIM" and r.get("harness") == "limshim":
        exe = build_limshim()
        rc, out, err = sh([exe, "replay", str(r["seed"]), "1"] + [str(x) for x in r["params"]] + [str(x) for x in r["schedule"]], timeout=120)
        print(out[:2000])
        return 1 if "VIOLATION" in out or rc not in (0,) else 0
    if r.get("engine") == "E-SHIM" and r.get("harness") == "wt":
        exe = build_wt()
        rc, out, err = sh([exe, str(r["seed"]), "1", str(r["threads"]), str(r["ops"])], timeout=120)
        print(out)
        return 1 if "VIOLATION" in out or rc != 0 else 0
    if r.get("engine") == "E-MOCK" and r.get("mode") in ("res", "inp"):
        exe = build_res()
        args = ["inp"] if r["mode"] == "inp" else []
        outs, rc = run_script(exe, args, r["script"])
        bad = (res_monitors if r["mode"] == "res" else inp_monitors)(r["script"], outs)
        for l, o in zip(r["script"], outs):
            print("%-16s %s" % (l, o))
        for k, t in bad:
            print("MONITOR %s: %s" % (k, t))
        return 1 if any(k == r.get("monitor") for k, _ in bad) or rc != 0 else 0
    if r.get("engine") == "E-MOCK" and "script" in r:
        exe = build_mock()
        outs, rc, err = run_lines_on_impl(exe, r["script"])
        bad = mock_monitors(meta_of_lines(r["script"]), r["script"], outs)
        for l, o in zip(r["script"], outs):
            print("%-16s %s" % (l, o))
        for k, t in bad:
            print("MONITOR %s: %s" % (k, t))
        return 1 if any(k == r.get("monitor") for k, _ in bad) or rc != 0 else 0
    if r.get("engine") == "E-MOCK" and "cache_line" in r:
        exe = build_mock()
        rc, out, err = sh([exe, "cache"], input=r["cache_line"] + "\n", timeout=60)
        print(r["cache_line"], "->", out.strip(), "(recorded:", r["impl_output"], ")")
        mo = drv("c14cache", r["cache_line"] + "\n")
        return 0 if out.strip() == mo[0] else 1
    if r.get("engine") == "E-REAL":
        exe = build_real(preview=bool(r["case"].get("preview")))
        fails = 0
        for i in range(int(r.get("repeat", 20))):
            rc, res, tail = run_real_case(exe, r["case"])
            if res is None or res.get("violations"):
                fails += 1
                print("run %d: %s" % (i, (res or {}).get("violations", [tail])[:2]))
        print("%d/%d runs violate the property" % (fails, int(r.get("repeat", 20))))
        return 1 if fails else 0
    print("unknown replay object")
    return 2
