"""C01 — every submitted task runs exactly once; a wait covers all of its work (DESIGN.md §3 C01).

Theorems (lean/TbbVerif/Props/C01.lean) are about protocol models at atomic-access granularity (Model/C01.lean):
Deque (arena_slot), Proxy + Mailbox (mailbox.h), Stream (task_stream.h), Vertex (wait_context / reference_vertex),
Fold (partitioner.h join tree).

Tie: E-SHIM on the whole instrumented runtime (common.shim_runtime_objects()).
 (i) component scenarios (white box): the real arena_slot / task_proxy / mail_outbox / task_stream / reference_vertex /
     fold_tree code runs under seeded random schedules and bounded-preemption DFS; the access-level trace on the
     protocol's variables is replayed, access by access, on the Lean models (kind, values, CAS outcome, results);
     implementation-side monitors (exactly-once, freed-once, no access after free, released-once) are independent of it.
 (ii) end-to-end task programs on the instrumented runtime under random schedules with ghost-counter monitors.
 (iii) composition: the same kind of programs with the runtime's entry points interposed (harness/c01/disp.cpp); every
     task-level event (submit to which container, proxy claim side, take by whom, execute/cancel, release, zero-crossing,
     wait return, slot enter/leave, proxy free) is validated as an enabled transition of the Lean `Dispatch` model
     (Model/C01Dispatch.lean, driver c01dp) — theorems dispatch_exactly_once / dispatch_no_loss / wait_covers_transitive /
     wait_covers_nested / any_taker.
 (iv) store buffers: the memory orders at the deque's two Dekker sites are regenerated from the trace (Generated/C01.lean
     dequeOrders), `deque_last_task_arbitration_tso` is stated over them; the executable TSO model (driver c01tso) is the
     failing-input search when `fencesOK` no longer holds.
 Generated facts: constants, dequeOrders / dequeSites, dispatchOrder (the order in which local_wait_for_all /
 receive_or_steal_task look for work, re-extracted from the source text of src/tbb/task_dispatcher.h).
"""
import json
import os
import re

import common
from common import REPO, BuildError, cxx_build, drv, gen_write, log, sh

PID = "C01"

# mangled names of the r1 entry points the component harnesses interpose with -Wl,--wrap
WRAP_DEALLOC_ED = "_ZN3tbb6detail2r110deallocateERNS0_2d117small_object_poolEPvmRKNS2_14execution_dataE"
WRAP_DEALLOC = "_ZN3tbb6detail2r110deallocateERNS0_2d117small_object_poolEPvm"
WRAP_NOTIFY = "_ZN3tbb6detail2r114notify_waitersEm"
WRAP_ALLOC_ED = "_ZN3tbb6detail2r18allocateERPNS0_2d117small_object_poolEmRKNS2_14execution_dataE"
WRAP_ALLOC = "_ZN3tbb6detail2r18allocateERPNS0_2d117small_object_poolEm"
WRAP_SPAWN2 = "_ZN3tbb6detail2r15spawnERNS0_2d14taskERNS2_18task_group_contextE"
WRAP_SPAWN3 = "_ZN3tbb6detail2r15spawnERNS0_2d14taskERNS2_18task_group_contextEt"
WRAP_SUBMIT = "_ZN3tbb6detail2r16submitERNS0_2d14taskERNS2_18task_group_contextEPNS1_5arenaEm"
WRAP_ENQ2 = "_ZN3tbb6detail2r17enqueueERNS0_2d14taskEPNS2_15task_arena_baseE"
WRAP_ENQ3 = "_ZN3tbb6detail2r17enqueueERNS0_2d14taskERNS2_18task_group_contextEPNS2_15task_arena_baseE"
WRAP_EAW = "_ZN3tbb6detail2r116execute_and_waitERNS0_2d14taskERNS2_18task_group_contextERNS2_12wait_contextES6_"
WRAP_WAIT = "_ZN3tbb6detail2r14waitERNS0_2d112wait_contextERNS2_18task_group_contextE"
DISP_WRAPS = (WRAP_SPAWN2, WRAP_SPAWN3, WRAP_SUBMIT, WRAP_ENQ2, WRAP_ENQ3, WRAP_EAW, WRAP_WAIT, WRAP_NOTIFY,
              WRAP_ALLOC_ED, WRAP_ALLOC, WRAP_DEALLOC_ED, WRAP_DEALLOC)


def build(name, wraps=()):
    objs = common.shim_runtime_objects()
    # common.cxx_build relinks only when one of the harness' own translation units changed; a rebuilt runtime object
    # (edit in /repo/src/tbb or /repo/include) keeps its file name, so force the relink here
    exe = os.path.join(common.BUILD, PID, name)
    try:
        if any(os.path.getmtime(o) >= os.path.getmtime(exe) for o in objs):
            os.remove(exe + ".link.json")
    except OSError:
        pass
    return cxx_build(PID, name, ["harness/c01/%s.cpp" % name, common.SHIM_SRC],
                     flags=["-O1", "-g", "-fno-access-control", "-I" + REPO + "/src"] + common.SHIM_FLAGS,
                     libs=objs + ["-ldl"] + ["-Wl,--wrap=" + w for w in wraps])


# --------------------------------------------------------------------------------------------------
# generated constants
# --------------------------------------------------------------------------------------------------

def function_body(text, signature_re):
    """the text of the first function whose definition matches signature_re (brace matching), or ''"""
    m = re.search(signature_re, text)
    if not m:
        return ""
    i = text.find("{", m.end())
    if i < 0:
        return ""
    depth, j = 0, i
    while j < len(text):
        if text[j] == "{":
            depth += 1
        elif text[j] == "}":
            depth -= 1
            if depth == 0:
                return text[i:j + 1]
        j += 1
    return ""


def strip_comments(text):
    text = re.sub(r"/\*.*?\*/", " ", text, flags=re.S)
    return re.sub(r"//[^\n]*", " ", text)


def dispatch_order():
    """The order in which the real dispatcher looks for work, re-extracted from the SOURCE TEXT of
    src/tbb/task_dispatcher.h: local_wait_for_all (bypass loop, slot.get_task, receive_or_steal_task) followed by the
    else-if chain of receive_or_steal_task (inbox, resume stream, fifo stream, steal, critical)."""
    text = strip_comments(open(os.path.join(REPO, "src/tbb/task_dispatcher.h")).read())
    lw = function_body(text, r"template\s*<\s*bool\s+ITTPossible\s*,\s*typename\s+Waiter\s*>\s*d1::task\*\s+task_dispatcher::local_wait_for_all\s*\(")
    rs = function_body(text, r"d1::task\*\s+task_dispatcher::receive_or_steal_task\s*\(")
    outer = [("bypass", r"while\s*\(\s*t\s*!=\s*nullptr\s*\)"), ("local", r"slot\.get_task\s*\("), ("@steal_loop", r"receive_or_steal_task\s*<")]
    inner = [("mailbox", r"get_inbox_or_critical_task\s*\("), ("resume", r"get_stream_or_critical_task\s*\([^;{]*resume_stream"),
             ("fifo", r"get_stream_or_critical_task\s*\([^;{]*fifo_stream"), ("steal", r"steal_or_get_critical\s*\("),
             ("critical", r"else\s*\{\s*t\s*=\s*get_critical_task\s*\(")]

    def positions(body, pats):
        found = []
        for name, pat in pats:
            m = re.search(pat, body)
            if m:
                found.append((m.start(), name))
        return [n for _, n in sorted(found)]
    o, i = positions(lw, outer), positions(rs, inner)
    order = []
    for n in o:
        if n == "@steal_loop":
            order += i
        else:
            order.append(n)
    return order


def deque_sites(exe):
    """Memory orders actually executed at the two Dekker sites of the deque (E-SHIM trace of the real arena_slot code):
    owner side: in get_task, the last access that MODIFIES `tail` before a load of `head`; thief side: in steal_task, the
    last access that MODIFIES `head` before a load of `tail`; plus whether a seq_cst fence lies between the two."""
    sites, table = {"owner": [], "thief": []}, set()
    for si, sc in enumerate(DEQUE_CORPUS[:4]):
        rc, out, err = sh([exe, "rand", str(90 + si), "6"], input=deque_text(sc), timeout=300)
        for r in parse_runs(out):
            ords = r.get("ord", [])
            fences = r.get("fence", [])
            last_mod = {}               # tid -> (index, kind, order) of the last modification of its own bound
            for i, e in enumerate(r["ev"]):
                tid, var, kind = e[0], e[1], e[2]
                role = "owner" if tid == 0 else "thief"
                o = ords[i] if i < len(ords) else "?"
                table.add((role, var, kind, o))
                mine, other = ("tail", "head") if role == "owner" else ("head", "tail")
                if var == mine and kind != "load":
                    last_mod[tid] = (i, kind, o)
                elif var == other and kind == "load" and tid in last_mod:
                    j, k2, o2 = last_mod.pop(tid)
                    fenced = any(ft == tid and fo == "sc" and j < fi <= i for fi, ft, fo in fences)
                    sites[role].append((k2, o2, fenced))
    return sites, sorted(table)


def gen(ck):
    exe = cxx_build(PID, "consts", ["harness/c01/consts.cpp"], flags=["-O1", "-fno-access-control", "-I" + REPO + "/src"])
    rc, out, err = sh([exe], timeout=60)
    if rc != 0:
        raise BuildError("consts failed: " + err[-500:])
    c = json.loads(out)
    ck.extra["generated_constants"] = c
    body = "".join("def %s : Nat := %d\n" % (k, v) for k, v in sorted(c.items()))
    order = dispatch_order()
    ck.extra["dispatch_order_from_source"] = order
    body += "def dispatchOrder : List String := [%s]\n" % ", ".join('"%s"' % n for n in order)
    ck.oblige("gen:dispatch order extracted from src/tbb/task_dispatcher.h (local_wait_for_all + receive_or_steal_task: every one of the 7 "
              "look-up sites found once, bypass loop first)", "generated",
              sorted(order) == sorted(["bypass", "local", "mailbox", "resume", "fifo", "steal", "critical"]) and order[0] == "bypass",
              "found: " + " ".join(order))
    sites, table = deque_sites(build("deque"))
    rmw = ("fadd", "fsub", "xchg", "cas", "for", "fand", "fxor")

    def side(lst):
        if not lst:
            return False, False
        return (all(k in rmw and o == "sc" for k, o, _ in lst), all(f for _, _, f in lst))
    (dec_rmw, dec_fence), (inc_rmw, inc_fence) = side(sites["owner"]), side(sites["thief"])
    ck.extra["deque_dekker_sites"] = {"owner(tail then head)": sorted(set(sites["owner"])), "thief(head then tail)": sorted(set(sites["thief"])),
                                      "pairs_observed": [len(sites["owner"]), len(sites["thief"])]}
    body += "def dequeOrders : TbbVerif.C01.DequeTso.Orders := ⟨%s, %s, %s, %s⟩\n" % tuple("true" if b else "false" for b in (dec_rmw, dec_fence, inc_rmw, inc_fence))
    body += "def dequeSites : List (String × String × String × String) := [%s]\n" % ", ".join('("%s", "%s", "%s", "%s")' % t for t in table)
    ck.oblige("gen:deque Orders regenerated from the E-SHIM trace (owner: tail-update then head-load, thief: head-update then tail-load; both sides observed)",
              "generated", bool(sites["owner"]) and bool(sites["thief"]), "pairs observed: owner %d thief %d" % (len(sites["owner"]), len(sites["thief"])))
    ck.extra["deque_orders"] = {"decRmw": dec_rmw, "decFence": dec_fence, "incRmw": inc_rmw, "incFence": inc_fence}
    gen_write(PID, body, imports=("TbbVerif.Core.Cint", "TbbVerif.Model.C01Tso"))
    return c


# --------------------------------------------------------------------------------------------------
# run output parsing / generic replay
# --------------------------------------------------------------------------------------------------

def parse_runs(out):
    runs, cur = [], None
    for l in out.split("\n"):
        w = l.split()
        if not w:
            continue
        if w[0] == "run":
            cur = {"ev": [], "res": {}, "mon": "", "sched": [], "x": {}, "snap": []}
        elif cur is None:
            continue
        elif w[0] == "e":
            cur["ev"].append((int(w[1]), w[2], w[3], w[4], w[5], w[6]))
            cur.setdefault("ord", []).append(w[7] if len(w) > 7 else "?")
        elif w[0] == "f":
            cur.setdefault("fence", []).append((len(cur["ev"]), int(w[1]), w[2]))
        elif w[0] == "snap":
            # white-box content of task_pool_ptr[head..tail) after an owner operation, with its position in the trace
            cur["snap"].append((len(cur["ev"]), " ".join(w[1:])))
        elif w[0] == "res":
            cur["res"][int(w[1])] = w[2:]
        elif w[0] == "mon":
            cur["mon"] = " ".join(w[1:])
        elif w[0] == "sched":
            cur["sched"] = w[1:]
        elif w[0] == "end":
            runs.append(cur)
            cur = None
        else:
            cur["x"].setdefault(w[0], []).append(w[1:])
    return runs


def model_replay(model, setup, events, results, nthreads, final=None, snaps=()):
    """Feed one observed access trace to a Lean model.  `setup`: driver lines describing the scenario; `events`:
    [(tid, var, kind, a, b, ok)]; `results`: {tid: [result strings in completion order]}; `snaps`: [(position in
    `events`, "head tail cells...")] white-box snapshots of the array content, compared with the model's `dump` at the
    same position.  Returns None if the model performs the same accesses, holds the same content and produces the same
    results, else a description of the FIRST divergence."""
    snaps = sorted(snaps, key=lambda x: x[0])
    lines, what, k = ["reset"] + setup, [], 0          # what[j] describes line 1+len(setup)+j: ("snap", text, n) | ("ev", index)
    for i in range(len(events) + 1):
        while k < len(snaps) and snaps[k][0] == i:
            what.append(("snap", snaps[k][1], k))
            lines.append("dump")
            k += 1
        if i < len(events):
            what.append(("ev", i))
            lines.append("s %d" % events[i][0])
    lines.append("state")
    out = drv(model, "\n".join(lines) + "\n")
    for i, o in enumerate(out[:1 + len(setup)]):
        if o != "ok":
            return "model rejected scenario line %r: %s" % ((["reset"] + setup)[i], o)
    out = out[1 + len(setup):]
    if len(out) < len(what) + 1:
        return "model output truncated"
    got = {}
    left = {}
    for j, wh in enumerate(what):
        if wh[0] == "snap":
            if out[j].split() != wh[1].split():
                return ("content of task_pool_ptr[head..tail) after owner operation %d (head tail cells): implementation [%s], model [%s]"
                        % (wh[2], wh[1], out[j]))
            continue
        i = wh[1]
        e = events[i]
        m = [x.strip() for x in out[j].split("|")]
        exp = "%s %s %s %s %s" % (e[1], e[2], e[3], e[4], e[5])
        if m[0] != exp:
            return "access %d (thread %d): implementation [%s], model [%s]" % (i, e[0], exp, m[0])
        left[e[0]] = m[1]
        if len(m) > 2 and m[2].startswith("r "):
            got.setdefault(e[0], []).append(m[2][2:])
    for t in range(nthreads):
        want = [("none" if r == "-1" else r) for r in results.get(t, [])]
        if got.get(t, []) != want:
            return "thread %d results: implementation %s, model %s" % (t, want, got.get(t, []))
        if t in left and left[t] != "0":
            return "thread %d: the model has %s operations left at the end of the trace" % (t, left[t])
    st = out[len(what)]
    if final:
        d = final(st)
        if d:
            return d
    return None


# --------------------------------------------------------------------------------------------------
# Deque
# --------------------------------------------------------------------------------------------------

def deque_scenario(rng, kind):
    """owner program (spawn/get mix) + thief programs.  kinds: small (DFS-able), mixed, growth (k > 64 spawns),
    iso (isolation tags: omitted tasks, holes)."""
    nid = [0]

    def sp(iso=0):
        nid[0] += 1
        return "s%d:%d" % (nid[0], iso)
    owner = []
    if kind == "small":
        n = rng.randrange(1, 4)
        owner = [sp() for _ in range(n)] + ["g0"] * rng.randrange(1, n + 2)
        rng.shuffle(owner)
        thieves = [["0"] * rng.randrange(1, 3) for _ in range(rng.choice([1, 1, 2]))]
    elif kind == "growth":
        k = rng.randrange(66, 150)
        for _ in range(k):
            owner.append(sp(rng.choice([0, 0, 0, 1])))
            if rng.random() < 0.15:
                owner.append("g%d" % rng.choice([0, 0, 1]))
        owner += ["g0"] * rng.randrange(0, 8)
        thieves = [[str(rng.choice([0, 0, 0, 1])) for _ in range(rng.randrange(len(owner) // 2, 2 * len(owner)))] for _ in range(rng.choice([1, 2, 3]))]
    elif kind == "iso":
        for _ in range(rng.randrange(3, 14)):
            r = rng.random()
            if r < 0.55:
                owner.append(sp(rng.choice([0, 1, 1, 2])))
            else:
                owner.append("g%d" % rng.choice([0, 1, 2, 2]))
        thieves = [[str(rng.choice([0, 1, 2])) for _ in range(rng.randrange(2, 3 * len(owner)))] for _ in range(rng.choice([1, 2, 3]))]
    else:
        for _ in range(rng.randrange(3, 16)):
            owner.append(sp() if rng.random() < 0.55 else "g0")
        thieves = [["0"] * rng.randrange(2, 3 * len(owner)) for _ in range(rng.choice([1, 2, 3]))]
    return {"owner": owner, "thieves": thieves}


def deque_text(sc):
    return "owner " + " ".join(sc["owner"]) + "\n" + "".join("thief " + " ".join(t) + "\n" for t in sc["thieves"])


def deque_setup(sc, consts):
    return ["cfg %d %d" % (consts["minTaskPoolSize"], consts["poolGranule"]), "owner " + " ".join(sc["owner"])] + \
           ["thief " + " ".join(t) for t in sc["thieves"]]


DEQUE_CORPUS = [
    # the last-task window: one task, owner pops while one / two thieves steal
    {"owner": ["s1:0", "g0"], "thieves": [["0"]]},
    {"owner": ["s1:0", "g0", "g0"], "thieves": [["0", "0"]]},
    {"owner": ["s1:0", "s2:0", "g0", "g0"], "thieves": [["0"], ["0"]]},
    {"owner": ["s1:0", "g0", "s2:0", "g0"], "thieves": [["0", "0"]]},
    # isolation: omitted tasks, hole punching, head/tail restoration
    {"owner": ["s1:1", "s2:0", "g2", "g0"], "thieves": [["0"]]},
    {"owner": ["s1:1", "s2:2", "g1", "g0"], "thieves": [["2", "0"]]},
]


def run_deque(ck, consts):
    quick = ck.tier == "quick"
    exe = build("deque")
    rng = ck.rng
    scs = list(DEQUE_CORPUS)
    for kind, n in (("small", 6 if quick else 40), ("mixed", 8 if quick else 60), ("iso", 8 if quick else 60), ("growth", 3 if quick else 20)):
        scs += [dict(deque_scenario(rng, kind), kind=kind) for _ in range(n)]
    nrand = 12 if quick else 40
    bad_corr, bad_mon, nruns, nsnap = [], [], 0, 0
    for si, sc in enumerate(scs):
        rc, out, err = sh([exe, "rand", str(ck.seed * 1000 + si), str(nrand)], input=deque_text(sc), timeout=600)
        runs = parse_runs(out)
        for r in runs:
            nruns += 1
            nth = 1 + len(sc["thieves"])
            ck.count(1, ("deque", sc.get("kind", "corpus"), nth, tuple(sorted(set((e[1], e[2], e[5]) for e in r["ev"]))), tuple(len(v) for v in r["res"].values())))
            if r["mon"] != "ok":
                bad_mon.append((sc, r))
            d = model_replay("c01dq", deque_setup(sc, consts), r["ev"], r["res"], nth, snaps=r["snap"],
                             final=lambda st: None if st.split()[3] == "0" else "the model read a junk cell / broke the lock protocol")
            nsnap += len(r["snap"])
            ck.traces_validated += 1
            if d:
                bad_corr.append((sc, r, d))
        if rc not in (0, 1, 3) or (not runs and rc != 0):
            bad_mon.append((sc, {"mon": "harness crashed rc=%d %s" % (rc, err[-300:]), "sched": []}))
        if si in (0, len(DEQUE_CORPUS)) and runs:
            ck.sample({"component": "deque", "scenario": sc, "trace_head": runs[0]["ev"][:14], "results": runs[0]["res"]})
    # bounded-preemption exhaustive exploration with the exactly-once monitor
    dfs_runs = 0
    dfs_scs = DEQUE_CORPUS[:3] if quick else DEQUE_CORPUS
    for sc in dfs_scs:
        rc, out, err = sh([exe, "dfs", "2" if quick else "3", "6000" if quick else "150000"], input=deque_text(sc), timeout=1700)
        m = re.search(r"summary runs=(\d+) bad=(\d+)", out)
        if m:
            dfs_runs += int(m.group(1))
        if rc != 0 or not m or m.group(2) != "0":
            rs = parse_runs(out)
            bad_mon.append((sc, rs[-1] if rs else {"mon": "harness rc=%d %s" % (rc, (out + err)[-300:]), "sched": []}))
    ck.evaluations += dfs_runs
    ck.extra.setdefault("schedules", {})["deque"] = {"random_runs": nruns, "dfs_runs": dfs_runs, "scenarios": len(scs),
                                                     "content_snapshots_compared": nsnap}
    ok_corr = ck.oblige("corr:deque head/tail/task_pool access trace replays on the Lean Deque model (accesses, values, returned task ids; white-box content of task_pool_ptr[head..tail) after every owner operation)",
                        "correspondence", not bad_corr,
                        "" if not bad_corr else "%s | scenario %s | sched %s" % (bad_corr[0][2], deque_text(bad_corr[0][0]).replace("\n", " / "), " ".join(bad_corr[0][1]["sched"])))
    ck.oblige("monitor:deque every spawned task handed out exactly once (get_task / steal_task / final drain), no cell in [head,tail) refers to a task twice or to a task already handed out, no deadlock",
              "correspondence", not bad_mon, "" if not bad_mon else "%s | scenario %s" % (bad_mon[0][1]["mon"], deque_text(bad_mon[0][0]).replace("\n", " / ")))
    if bad_mon:
        report_cex(ck, "deque", bad_mon[0][0], bad_mon[0][1], deque_text(bad_mon[0][0]))
    elif not ok_corr:
        # the correspondence broke: search the implementation for a property failure (more DFS, all scenarios involved)
        found = None
        cands = ([b[0] for b in bad_corr[:4]] + DEQUE_CORPUS)[:4 if quick else 12]
        for sc in cands:
            if len(sc["owner"]) > 8 or len(sc["thieves"]) > 2:
                continue
            rc, out, err = sh([exe, "dfs", "3", "40000" if quick else "400000"], input=deque_text(sc), timeout=240 if quick else 1500)
            m = re.search(r"summary runs=(\d+) bad=(\d+)", out)
            if m and m.group(2) != "0":
                rs = parse_runs(out)
                if rs:
                    found = (sc, rs[-1])
                    break
        if found:
            report_cex(ck, "deque", found[0], found[1], deque_text(found[0]))


# --------------------------------------------------------------------------------------------------
# generic component family: scenarios x (random schedules + replay on the model) + DFS with monitors
# --------------------------------------------------------------------------------------------------

def run_family(ck, comp, exe, model, scs, corpus_n, text_of, setup_of, nthreads_of, nrand, dfs, what_corr, what_mon, final=None,
               results_of=None):
    quick = ck.tier == "quick"
    bad_corr, bad_mon, nruns = [], [], 0
    for si, sc in enumerate(scs):
        rc, out, err = sh([exe, "rand", str(ck.seed * 1000 + si), str(nrand)], input=text_of(sc), timeout=600)
        runs = parse_runs(out)
        for r in runs:
            nruns += 1
            nth = nthreads_of(sc)
            ck.count(1, (comp, sc.get("kind", "corpus"), nth, tuple(sorted(set((re.sub(r"\d+", "", e[1]), e[2], e[5]) for e in r["ev"]))), tuple(len(v) for v in r["res"].values())))
            if r["mon"] != "ok":
                bad_mon.append((sc, r))
            if model:
                res = results_of(sc, r) if results_of else r["res"]
                d = model_replay(model, setup_of(sc, r), r["ev"], res, nth, final=(lambda st, r=r: final(st, r)) if final else None)
                ck.traces_validated += 1
                if d:
                    bad_corr.append((sc, r, d))
        if rc not in (0, 1, 3) or (not runs and rc != 0):
            bad_mon.append((sc, {"mon": "harness crashed rc=%d %s" % (rc, err[-300:]), "sched": []}))
        if si in (0, corpus_n) and runs:
            ck.sample({"component": comp, "scenario": {k: v for k, v in sc.items()}, "trace_head": runs[0]["ev"][:14], "results": runs[0]["res"]})
    dfs_runs = 0
    for sc in dfs:
        rc, out, err = sh([exe, "dfs", "2" if quick else "3", "6000" if quick else "150000"], input=text_of(sc), timeout=1700)
        m = re.search(r"summary runs=(\d+) bad=(\d+)", out)
        if m:
            dfs_runs += int(m.group(1))
        if rc != 0 or not m or m.group(2) != "0":
            rs = parse_runs(out)
            bad_mon.append((sc, rs[-1] if rs else {"mon": "harness rc=%d %s" % (rc, (out + err)[-300:]), "sched": []}))
    ck.evaluations += dfs_runs
    ck.extra.setdefault("schedules", {})[comp] = {"random_runs": nruns, "dfs_runs": dfs_runs, "scenarios": len(scs)}
    ok_corr = ck.oblige("corr:%s %s" % (comp, what_corr), "correspondence", not bad_corr,
                        "" if not bad_corr else "%s | scenario %s | sched %s" % (bad_corr[0][2], text_of(bad_corr[0][0]).replace("\n", " / ")[:600], " ".join(bad_corr[0][1]["sched"])[:600]))
    ck.oblige("monitor:%s %s" % (comp, what_mon), "correspondence", not bad_mon,
              "" if not bad_mon else "%s | scenario %s" % (bad_mon[0][1]["mon"], text_of(bad_mon[0][0]).replace("\n", " / ")[:600]))
    if bad_mon:
        report_cex(ck, comp, bad_mon[0][0], bad_mon[0][1], text_of(bad_mon[0][0]))
    elif not ok_corr:
        # the correspondence broke: search the implementation for a failure of the property itself
        found = None
        cands = ([b[0] for b in bad_corr[:6]] + list(dfs))[:4 if quick else 12]
        for sc in cands:
            if nthreads_of(sc) > 3 or len(text_of(sc)) > 160:
                continue
            rc, out, err = sh([exe, "dfs", "3", "40000" if quick else "400000"], input=text_of(sc), timeout=240 if quick else 1500)
            m = re.search(r"summary runs=(\d+) bad=(\d+)", out)
            if m and m.group(2) != "0":
                rs = parse_runs(out)
                if rs:
                    found = (sc, rs[-1])
                    break
        if not found:
            for si, sc in enumerate(scs[:12 if quick else len(scs)]):
                rc, out, err = sh([exe, "rand", str(ck.seed * 1000 + 500 + si), str(4 * nrand)], input=text_of(sc), timeout=600)
                rs = [r for r in parse_runs(out) if r["mon"] != "ok"]
                if rs:
                    found = (sc, rs[0])
                    break
        if found:
            report_cex(ck, comp, found[0], found[1], text_of(found[0]))
    return bad_corr, bad_mon


# --------------------------------------------------------------------------------------------------
# Fold (join tree) and Vertex (wait_context + reference_vertex)
# --------------------------------------------------------------------------------------------------

WT_WRAPS = (WRAP_DEALLOC_ED, WRAP_NOTIFY)


def fold_scenario(rng, maxleaves):
    n = rng.randrange(1, 8)
    if n == 1:
        return {"par": [0], "leaf": [0], "kind": "single"}
    par = [0, 0] + [rng.randrange(1, j) for j in range(2, n)]
    leaf = []
    for j in range(1, n):
        has_child = any(par[c] == j for c in range(j + 1, n))
        k = rng.choice([1, 2, 2]) if not has_child else rng.choice([0, 1, 1, 2])
        leaf += [j] * k
    while len(leaf) > maxleaves:
        # drop a leaf whose node keeps another child
        for i, j in enumerate(leaf):
            if leaf.count(j) + sum(1 for c in range(j + 1, n) if par[c] == j) > 1:
                del leaf[i]
                break
        else:
            break
    rng.shuffle(leaf)
    return {"par": par, "leaf": leaf, "kind": "tree%d" % min(n, 4)}


def fold_text(sc):
    return "tree " + " ".join(map(str, sc["par"])) + " | " + " ".join(map(str, sc["leaf"])) + "\n"


FOLD_CORPUS = [
    {"par": [0], "leaf": [0]},
    {"par": [0, 0], "leaf": [1, 1]},                      # one split: the two halves of a parallel_for
    {"par": [0, 0, 1], "leaf": [1, 2, 2]},                # right child split again
    {"par": [0, 0, 1, 1], "leaf": [2, 2, 3, 3]},
]


def fold_final(st, r):
    w = st.split("|")[0].split()          # wait released notified bad
    fin = r["x"].get("final", [["?"]])[0]
    if w[3] != "0":
        return "the model accessed a deleted node / found a non-positive counter"
    if [w[0], w[1], w[2]] != fin[:3]:
        return "final (wait counter, releases, notifications): implementation %s, model %s" % (fin[:3], w[:3])
    return None


def run_fold(ck):
    quick = ck.tier == "quick"
    exe = build("wt", WT_WRAPS)
    scs = list(FOLD_CORPUS) + [fold_scenario(ck.rng, 6) for _ in range(25 if quick else 200)]
    run_family(ck, "fold_tree", exe, "c01ft", scs, len(FOLD_CORPUS), fold_text, lambda sc, r: [fold_text(sc).strip()],
               lambda sc: len(sc["leaf"]), 12 if quick else 40, FOLD_CORPUS[1:3] if quick else FOLD_CORPUS,
               "m_ref_count / m_wait access trace of fold_tree replays on the Lean Fold model (values, final counter, releases, notifications)",
               "wait node released exactly once, only after every leaf's decrement, notified exactly once at 0, every tree_node deleted once and never touched afterwards",
               final=fold_final, results_of=lambda sc, r: {})


def vertex_scenario(rng):
    T = rng.choice([2, 2, 3, 3, 4])
    progs = []
    main = ["r"] * rng.randrange(1, 4)
    for _ in range(rng.randrange(0, 3)):
        main += ["t%d" % rng.randrange(0, 2)] + ["r"] * rng.randrange(0, 2) + ["f"]
    main += ["w"]
    if rng.random() < 0.3:
        main += ["r"] * rng.randrange(1, 3) + ["w"]
    progs.append(main)
    for _ in range(T - 1):
        p = []
        for _ in range(rng.randrange(1, 4)):
            p += ["t%d" % rng.randrange(0, 2)] + ["r"] * rng.randrange(0, 3) + ["f"]
        progs.append(p)
    return {"progs": progs, "kind": "T%d" % T}


def vertex_text(sc):
    return "".join("prog " + " ".join(p) + "\n" for p in sc["progs"])


VERTEX_CORPUS = [
    # the 1 -> 0 -> 1 window: a thief releases the last unit of the main thread's vertex while the main thread reserves again
    {"progs": [["r", "r", "w"], ["t0", "f", "t0", "f"]]},
    # a unit created by a worker (holding a unit) on its own vertex while the main thread waits
    {"progs": [["r", "w"], ["t0", "r", "f", "t0", "f"]]},
    {"progs": [["r", "r", "w"], ["t0", "r", "f"], ["t0", "r", "f", "t0", "f"]]},
]


def vertex_final(st, r):
    a = st.split("|")[0].split()          # root bad notified
    fin = r["x"].get("final", [["?"]])[0]
    if a[1] != "0":
        return "the model's counters went below zero"
    if [a[0], a[2]] != fin[:2]:
        return "final (root counter, notifications): implementation %s, model %s" % (fin[:2], [a[0], a[2]])
    return None


def run_vertex(ck):
    quick = ck.tier == "quick"
    exe = build("wt", WT_WRAPS)
    scs = list(VERTEX_CORPUS) + [vertex_scenario(ck.rng) for _ in range(25 if quick else 200)]
    run_family(ck, "wait_vertex", exe, "c01vx", scs, len(VERTEX_CORPUS), vertex_text, lambda sc, r: [l for l in vertex_text(sc).split("\n") if l],
               lambda sc: len(sc["progs"]), 12 if quick else 40, VERTEX_CORPUS[:2] if quick else VERTEX_CORPUS,
               "reference_vertex / wait_context m_ref_count access trace replays on the Lean Vertex model (values, final counter, notifications)",
               "a wait returns only when no unit of the group is unfinished (ghost counter read right after the wait), no deadlock",
               final=vertex_final, results_of=lambda sc, r: {})


# --------------------------------------------------------------------------------------------------
# Mail: proxies in pool + mailbox (Deque + Proxy + Mailbox models on one run)
# --------------------------------------------------------------------------------------------------

MAIL_WRAPS = (WRAP_DEALLOC_ED, WRAP_DEALLOC)


def mail_scenario(rng, kind):
    nid = [0]
    owner = []
    n = rng.randrange(2, 5) if kind == "small" else rng.randrange(4, 14)
    isos = [0] if kind != "iso" else [0, 1, 1, 2]
    for _ in range(n):
        x = rng.random()
        if x < 0.45:
            nid[0] += 1
            owner.append("m%d:%d" % (nid[0], rng.choice(isos)))
        elif x < 0.6:
            nid[0] += 1
            owner.append("s%d:%d" % (nid[0], rng.choice(isos)))
        else:
            owner.append("g%d" % rng.choice(isos))
    if not any(o[0] == "m" for o in owner):
        nid[0] += 1
        owner.insert(0, "m%d:0" % nid[0])
    recv = [str(rng.choice(isos)) for _ in range(rng.randrange(1, 3) if kind == "small" else rng.randrange(n, 4 * n))]
    nth = rng.choice([0, 1]) if kind == "small" else rng.choice([0, 1, 1, 2])
    thieves = [[str(rng.choice(isos)) for _ in range(rng.randrange(1, 3) if kind == "small" else rng.randrange(n, 3 * n))] for _ in range(nth)]
    return {"owner": owner, "recv": recv, "thieves": thieves, "kind": "mail-" + kind}


def mail_dead_scenario(rng, with_thief):
    """Deque + mailbox together: mailed proxies whose task is extracted by the recipient BEFORE the owner reaches them
    (handshakes w<k>), with tasks of another isolation above and/or below them, so that an isolated get_task walks down
    past skipped tasks (tasks_omitted) to an EMPTY proxy, frees it and must leave nullptr in its cell because head/tail
    are restored around it; followed by further spawns (opt reuse: they get the freed proxy's memory) and gets."""
    nid = [0]
    owner, recv = [], []

    def fresh():
        nid[0] += 1
        return nid[0]
    for _phase in range(rng.choice([1, 1, 2, 3])):
        A, B = rng.sample([1, 2, 3], 2)
        batch, nm = [], 0
        for _ in range(rng.randrange(0, 3)):                        # below the proxies
            batch.append("s%d:%d" % (fresh(), rng.choice([A, B, B])))
        for _ in range(rng.randrange(1, 4)):                        # the mailed tasks, foreign tasks in between
            batch.append("m%d:%d" % (fresh(), A))
            nm += 1
            if rng.random() < 0.35:
                batch.append("s%d:%d" % (fresh(), B))
        for _ in range(rng.choice([0, 1, 1, 2])):                   # above: skipped by get_task(A)
            batch.append("s%d:%d" % (fresh(), B))
        owner += batch
        if rng.random() < 0.85:
            recv.append("w%d" % len(owner))
        recv += [str(rng.choice([0, 0, A])) for _ in range(rng.randrange(max(1, nm - 1), nm + 2))]
        if rng.random() < 0.85:
            owner.append("w%d" % len(recv))
        owner += ["g%d" % A] * rng.randrange(1, 4)
        for _ in range(rng.randrange(0, 3)):                        # re-use of the freed memory
            owner.append("s%d:%d" % (fresh(), rng.choice([0, A, B])))
        owner += ["g%d" % rng.choice([0, 0, A, B]) for _ in range(rng.randrange(0, 4))]
    thieves = [[str(rng.choice([0, 0, 1, 2, 3])) for _ in range(rng.randrange(1, 6))]] if with_thief else []
    return {"owner": owner, "recv": recv, "thieves": thieves, "reuse": rng.random() < 0.7, "kind": "mail-dead" + ("-thief" if with_thief else "")}


def mail_text(sc):
    return ("owner " + " ".join(sc["owner"]) + "\nrecv " + " ".join(sc["recv"]) + "\n" + "".join("thief " + " ".join(t) + "\n" for t in sc["thieves"])
            + ("opt reuse\n" if sc.get("reuse") else ""))


MAIL_CORPUS = [
    # the two-sided claim: owner pops the proxy from its pool while the recipient takes it from the mailbox
    {"owner": ["m1:0", "g0"], "recv": ["0"], "thieves": []},
    {"owner": ["m1:0", "m2:0", "g0", "g0"], "recv": ["0", "0"], "thieves": []},
    # … and a thief steals the proxy
    {"owner": ["m1:0", "g0"], "recv": ["0"], "thieves": [["0"]]},
    # one-item mailbox: pop races with the next push (late link)
    {"owner": ["m1:0", "m2:0"], "recv": ["0", "0", "0"], "thieves": []},
    # empty proxy under tasks_omitted: the recipient takes task 1 first (handshake), task 2 of a foreign isolation lies
    # above the proxy; get_task(1) skips task 2, frees the empty proxy, must null its cell (tail is restored above it);
    # the next spawned task gets the freed memory
    {"owner": ["m1:1", "s2:2", "w2", "g1", "s3:0", "g0", "g0", "g0"], "recv": ["w2", "0"], "thieves": [], "reuse": True},
    # … with a thief around
    {"owner": ["m1:1", "s2:2", "w2", "g1", "s3:0", "g0", "g0"], "recv": ["w2", "0"], "thieves": [["0", "0"]], "reuse": True},
    # foreign tasks above AND below the empty proxy (pool-empty epilogue restores [H0, T0) around the hole)
    {"owner": ["s1:2", "m2:1", "s3:2", "w2", "g1", "s4:0", "g0", "g0", "g0", "g0"], "recv": ["w3", "0"], "thieves": [], "reuse": True},
    # two empty proxies below one foreign task
    {"owner": ["m1:1", "m2:1", "s3:2", "w3", "g1", "s4:0", "s5:0", "g0", "g0", "g0", "g0"], "recv": ["w3", "0", "0"], "thieves": [], "reuse": True},
    # a task of the waiter's own isolation below the empty proxy: hole-punch epilogue (pool not empty) above a nulled cell
    {"owner": ["s1:1", "m2:1", "s3:2", "w2", "g1", "g1", "s4:0", "g0", "g0", "g0"], "recv": ["w3", "0"], "thieves": [], "reuse": True},
    # no reuse: the stale cell would still point to the (freed) proxy object
    {"owner": ["s1:2", "m2:1", "s3:2", "w2", "g1", "g0", "g0", "g0"], "recv": ["w3", "0"], "thieves": []},
]


def parse_mail(out):
    """like parse_runs, but keeps the three event classes apart"""
    runs, cur = [], None
    for l in out.split("\n"):
        w = l.split()
        if not w:
            continue
        if w[0] == "run":
            cur = {"ev": [], "tat": [], "tatloads": 0, "box": [], "res": {}, "mon": "", "sched": [], "x": {}, "free": [], "snap": [], "reuse": 0}
        elif cur is None:
            continue
        elif w[0] == "e":
            cur["ev"].append((int(w[1]), w[2], w[3], w[4], w[5], w[6]))
        elif w[0] == "snap":
            cur["snap"].append((len(cur["ev"]), " ".join(w[1:])))
        elif w[0] == "reuse":
            cur["reuse"] += 1
        elif w[0] == "t":
            cur["tat"].append((int(w[1]), w[2], w[3], w[4], w[5], w[6]))
        elif w[0] == "l":
            cur["tatloads"] += 1
        elif w[0] == "b":
            cur["box"].append((int(w[1]), w[2], w[3], w[4], w[5], w[6]))
        elif w[0] == "res":
            cur["res"][int(w[1])] = w[2:]
        elif w[0] == "free":
            cur["free"].append((int(w[1]), w[2]))
        elif w[0] == "mon":
            cur["mon"] = " ".join(w[1:])
        elif w[0] == "sched":
            cur["sched"] = w[1:]
        elif w[0] == "end":
            runs.append(cur)
            cur = None
        else:
            cur["x"].setdefault(w[0], []).append(w[1:])
    return runs


def mail_replay(sc, r, consts):
    """replay one run on the Deque, Mailbox and (per proxy) Proxy models"""
    proxies = r["x"].get("proxies", [[]])[0]
    dead = set(r["x"].get("deadowner", [[]])[0])
    # Deque: mailed tasks are items carrying the task id; `dead` = the owner found the proxy empty (observed oracle)
    ops = []
    for o in sc["owner"]:
        if o[0] == "m":
            i, iso = o[1:].split(":")
            ops.append("s%s:%s:0:%d" % (i, iso, 1 if i in dead else 0))
        elif o[0] != "w":                 # handshakes are not operations of the deque
            ops.append(o)
    setup = ["cfg %d %d" % (consts["minTaskPoolSize"], consts["poolGranule"]), "owner " + " ".join(ops)] + ["thief " + " ".join(t) for t in sc["thieves"]]
    ev = [((0 if e[0] == 0 else e[0] - 1),) + e[1:] for e in r["ev"]]
    res = {0: r["res"].get(0, [])}
    for k in range(len(sc["thieves"])):
        res[1 + k] = r["res"].get(2 + k, [])
    d = model_replay("c01dq", setup, ev, res, 1 + len(sc["thieves"]), snaps=r["snap"],
                     final=lambda st: None if st.split()[3] == "0" else "the model read a junk cell / broke the lock protocol")
    if d:
        return "Deque: " + d
    # Mailbox: consumer = recipient, pusher = owner
    pops = r["x"].get("pops", [[]])[0]
    popped = r["x"].get("popped", [[]])[0]
    mailed_isos = [o[1:].split(":")[1] for o in sc["owner"] if o[0] == "m"][:len(proxies)]
    setup = ["cons " + " ".join(pops), "pusher " + " ".join(mailed_isos)]
    ev = [((0 if e[0] == 1 else 1),) + e[1:] for e in r["box"]]
    want = [("-1" if x == "-1" else str(proxies.index(x))) for x in popped]
    # a pop that was cut short by the end of the run has no result yet: the model has one op left in that case
    d = model_replay("c01mb", setup, ev, {0: want}, 1)
    if d and "operations left" not in d:
        return "Mailbox: " + d
    # Proxy: one model instance per proxy; pool side = owner or thief, mailbox side = recipient
    for i in range(len(proxies)):
        ev = [((1 if e[0] == 1 else 0), "tat") + e[2:] for e in r["tat"] if e[1] == "tat%d" % i and e[2] != "store"]
        lines = ["reset"] + ["s %d" % e[0] for e in ev] + ["state"]
        out = drv("c01px", "\n".join(lines) + "\n")[1:]
        for j, e in enumerate(ev):
            exp = "%s %s %s %s %s" % (e[1], e[2], e[3], e[4], e[5])
            got = out[j].split("|")[0].strip()
            if got != exp:
                return "Proxy %d: access %d: implementation [%s], model [%s]" % (i, j, exp, got)
        st = out[len(ev)].split()
        if st[3] != "0":
            return "Proxy %d: the model saw an access after the proxy was freed" % i
    return None


def run_mail(ck, consts):
    quick = ck.tier == "quick"
    exe = build("mail", MAIL_WRAPS)
    rng = ck.rng
    scs = list(MAIL_CORPUS)
    for kind, n in (("small", 6 if quick else 40), ("mixed", 8 if quick else 80), ("iso", 6 if quick else 60)):
        scs += [mail_scenario(rng, kind) for _ in range(n)]
    scs += [mail_dead_scenario(rng, i % 3 == 2) for i in range(9 if quick else 90)]
    nrand = 12 if quick else 40
    bad_corr, bad_mon, nruns, tol, nsnap, ndead_omit, nreuse = [], [], 0, 0, 0, 0, 0
    for si, sc in enumerate(scs):
        rc, out, err = sh([exe, "rand", str(ck.seed * 1000 + si), str(nrand)], input=mail_text(sc), timeout=600)
        runs = parse_mail(out)
        for r in runs:
            nruns += 1
            tol += r["tatloads"]
            nsnap += len(r["snap"])
            nreuse += r["reuse"]
            # coverage: runs in which the owner freed an empty proxy and a hole is left inside [head, tail)
            if r["x"].get("deadowner", [[]])[0] and any("_" in sn.split()[2:] for _, sn in r["snap"]):
                ndead_omit += 1
            ck.count(1, ("mail", sc.get("kind", "corpus"), 2 + len(sc["thieves"]),
                         tuple(sorted(set((re.sub(r"\d+", "", e[1]), e[2], e[5]) for e in r["ev"] + r["tat"] + r["box"]))), len(r["free"])))
            if r["mon"] != "ok":
                bad_mon.append((sc, r))
            d = mail_replay(sc, r, consts)
            ck.traces_validated += 1
            if d:
                bad_corr.append((sc, r, d))
        if rc not in (0, 1, 3) or (not runs and rc != 0):
            bad_mon.append((sc, {"mon": "harness crashed rc=%d %s" % (rc, err[-300:]), "sched": []}))
        if si in (0, len(MAIL_CORPUS)) and runs:
            ck.sample({"component": "mail", "scenario": sc, "tat_trace": runs[0]["tat"][:10], "mailbox_trace": runs[0]["box"][:10], "results": runs[0]["res"]})
    dfs_runs = 0
    for sc in (MAIL_CORPUS[:2] + MAIL_CORPUS[4:6] if quick else MAIL_CORPUS):
        rc, out, err = sh([exe, "dfs", "2" if quick else "3", "6000" if quick else "150000"], input=mail_text(sc), timeout=1700)
        m = re.search(r"summary runs=(\d+) bad=(\d+)", out)
        if m:
            dfs_runs += int(m.group(1))
        if rc != 0 or not m or m.group(2) != "0":
            rs = parse_mail(out)
            bad_mon.append((sc, rs[-1] if rs else {"mon": "harness rc=%d %s" % (rc, (out + err)[-300:]), "sched": []}))
    ck.evaluations += dfs_runs
    ck.extra.setdefault("schedules", {})["mail"] = {"random_runs": nruns, "dfs_runs": dfs_runs, "scenarios": len(scs), "tolerated_unmatched_tat_loads(steal_task is_shared check)": tol,
                                                    "content_snapshots_compared": nsnap, "runs_with_freed_empty_proxy_and_hole_in_[head,tail)": ndead_omit,
                                                    "freed_proxy_blocks_reused_by_later_tasks": nreuse}
    ok_corr = ck.oblige("corr:mail task_and_tag / my_first / my_last / next_in_mailbox / head / tail / task_pool traces replay on the Lean Proxy, Mailbox and Deque models",
                        "correspondence", not bad_corr,
                        "" if not bad_corr else "%s | scenario %s | sched %s" % (bad_corr[0][2], mail_text(bad_corr[0][0]).replace("\n", " / ")[:600], " ".join(bad_corr[0][1]["sched"])[:600]))
    ck.oblige("monitor:mail every task (mailed or not) handed out exactly once, every proxy freed exactly once and never touched afterwards, no deadlock",
              "correspondence", not bad_mon, "" if not bad_mon else "%s | scenario %s" % (bad_mon[0][1]["mon"], mail_text(bad_mon[0][0]).replace("\n", " / ")[:600]))
    if bad_mon:
        report_cex(ck, "mail", bad_mon[0][0], bad_mon[0][1], mail_text(bad_mon[0][0]))
    elif not ok_corr:
        found = None
        for sc in [b[0] for b in bad_corr[:6]] + MAIL_CORPUS:
            if len(sc["owner"]) > 5 or len(sc["thieves"]) > 1 or len(sc["recv"]) > 3:
                continue
            rc, out, err = sh([exe, "dfs", "3", "40000" if quick else "400000"], input=mail_text(sc), timeout=240 if quick else 1500)
            m = re.search(r"summary runs=(\d+) bad=(\d+)", out)
            if m and m.group(2) != "0":
                rs = parse_mail(out)
                if rs:
                    found = (sc, rs[-1])
                    break
        if not found:
            for si, sc in enumerate(scs[:12 if quick else len(scs)]):
                rc, out, err = sh([exe, "rand", str(ck.seed * 1000 + 500 + si), str(4 * nrand)], input=mail_text(sc), timeout=600)
                rs = [r for r in parse_mail(out) if r["mon"] != "ok"]
                if rs:
                    found = (sc, rs[0])
                    break
        if found:
            report_cex(ck, "mail", found[0], found[1], mail_text(found[0]))


# --------------------------------------------------------------------------------------------------
# Stream (task_stream)
# --------------------------------------------------------------------------------------------------

def stream_scenario(rng):
    n = rng.choice([2, 2, 4])
    T = rng.choice([2, 2, 3])
    nid = [0]
    progs = []
    for _ in range(T):
        p = []
        for _ in range(rng.randrange(2, 7)):
            x = rng.random()
            if x < 0.5:
                nid[0] += 1
                p.append("u%d:%d:%d" % (nid[0], rng.choice([0, 1, 1, 2]), rng.randrange(0, n)))
            elif x < 0.8:
                p.append("o%d" % rng.randrange(0, n))
            else:
                p.append("p%d:%d" % (rng.randrange(0, n), rng.choice([1, 2])))
        progs.append(p)
    return {"n": n, "progs": progs, "kind": "n%dT%d" % (n, T)}


def stream_text(sc):
    return "n %d\n" % sc["n"] + "".join("prog " + " ".join(p) + "\n" for p in sc["progs"])


STREAM_CORPUS = [
    {"n": 2, "progs": [["u1:0:0", "o1"], ["o0", "o0"]]},                 # push vs pop on the same lane (bit set / cleared under the lane lock)
    {"n": 2, "progs": [["u1:0:0", "u2:0:0"], ["o0", "o0", "o0"]]},
    {"n": 2, "progs": [["u1:1:0", "u2:2:0", "o0"], ["p1:2", "o0"]]},      # pop_specific nulls an entry in the middle
]


def stream_final(st, r):
    a = st.split("|")[0].split()     # population bad
    fin = r["x"].get("final", [["?"]])[0]
    if a[1] != "0":
        return "the model unlocked a lane mutex that was not held"
    if a[0] != fin[0]:
        return "final population: implementation %s, model %s" % (fin[0], a[0])
    return None


def run_stream(ck):
    quick = ck.tier == "quick"
    exe = build("stream")
    scs = list(STREAM_CORPUS) + [stream_scenario(ck.rng) for _ in range(20 if quick else 200)]
    run_family(ck, "task_stream", exe, "c01st", scs, len(STREAM_CORPUS), stream_text, lambda sc, r: [l for l in stream_text(sc).split("\n") if l],
               lambda sc: len(sc["progs"]), 10 if quick else 40, STREAM_CORPUS[:2] if quick else STREAM_CORPUS,
               "population / lane-mutex access trace replays on the Lean Stream model (values, popped task ids, final population)",
               "every pushed task popped exactly once (pop / pop_specific / final drain), population bit set iff lane non-empty at quiescence, no deadlock",
               final=stream_final)


# --------------------------------------------------------------------------------------------------
# end-to-end programs on the instrumented runtime
# --------------------------------------------------------------------------------------------------

E2E_PROGS = ["tg_nested", "tg_tree", "pfor_affinity", "isolate", "iso_static", "iso_affinity", "enqueue", "cancel", "oversub", "reserved", "reentrant"]
E2E_WRAPS = (WRAP_ALLOC_ED, WRAP_ALLOC, WRAP_DEALLOC_ED, WRAP_DEALLOC)


def parse_e2e(out):
    runs, cur = [], None
    for l in out.split("\n"):
        w = l.split()
        if not w:
            continue
        if w[0] == "run":
            cur = {"mon": "", "sched": [], "units": 0, "steps": 0, "threads": 0}
        elif w[0] == "CRASH":
            # verif::report_crashes(): a fault (use of freed task memory, ...) inside the controlled run; the schedule follows
            cur = {"mon": "VIOLATION the runtime crashed inside the controlled run (%s %s)" % (w[1], w[2] if len(w) > 2 else ""),
                   "sched": [], "units": 0, "steps": 0, "threads": 0}
        elif cur is None:
            continue
        elif w[0] == "units":
            cur["units"], cur["steps"], cur["threads"] = int(w[1]), int(w[3]), int(w[5])
        elif w[0] == "mon":
            cur["mon"] = " ".join(w[1:])
        elif w[0] == "sched":
            cur["sched"] = w[1:]
        elif w[0] == "end":
            runs.append(cur)
            cur = None
    return runs


def run_e2e(ck):
    quick = ck.tier == "quick"
    exe = build("e2e", E2E_WRAPS)
    rng = ck.rng
    cases = []
    for prog in E2E_PROGS:
        # iso_static / iso_affinity need a second slot for mailing; with P = 1 they would also run into the unrelated
        # finalize hang described in the assumptions (a nullptr cell left at the bottom of a published pool, no thief)
        for P in ((2, 2, 3, 4) if prog.startswith("iso_") else (1, 2, 3, 4)):
            cases.append((prog, P, rng.choice([1, 2, 3]) if quick else rng.choice([1, 2, 3, 4])))
    per = 4 if quick else 110
    bad, nruns, steps, maxthreads = [], 0, 0, 0
    for ci, (prog, P, size) in enumerate(cases):
        rc, out, err = sh([exe, prog, str(P), str(size), "rand", str(ck.seed * 100000 + ci * 1000), str(per)], timeout=1500)
        runs = parse_e2e(out)
        for r in runs:
            nruns += 1
            steps += r["steps"]
            maxthreads = max(maxthreads, r["threads"])
            ck.count(1, ("e2e", prog, P, size, r["threads"], r["units"]))
            if r["mon"] != "ok":
                bad.append(((prog, P, size), r))
        if rc not in (0, 1, 3, 4) or (not runs and rc != 0):
            bad.append(((prog, P, size), {"mon": "harness crashed rc=%d %s" % (rc, (out + err)[-300:]), "sched": []}))
    ck.extra.setdefault("schedules", {})["e2e"] = {"random_runs": nruns, "scheduling_points": steps, "max_threads": maxthreads,
                                                   "programs": E2E_PROGS, "arena_sizes": [1, 2, 3, 4]}
    ck.sample({"component": "e2e", "cases": cases[:8]})
    ck.oblige("monitor:e2e task programs on the instrumented runtime: every unit runs exactly once (at most once if cancelled), every wait covers its "
              "group transitively, no deadlock (nested groups, tasks spawning tasks, affinity_partitioner, isolate, enqueue vs spawn, cancel, "
              "oversubscription; arena sizes 1-4)", "correspondence", not bad,
              "" if not bad else "%s | program %s P=%d size=%d" % ((bad[0][1]["mon"],) + bad[0][0]))
    if bad:
        (prog, P, size), r = bad[0]
        mon = r.get("mon", "")
        key = "e2e:%s:%s" % (prog, re.sub(r"[^A-Za-z]+", "-", re.sub(r"\d+", "N", mon))[:60].strip("-"))
        ck.counterexample(key, "e2e %s P=%d size=%d: %s (schedule of %d steps in the replay file)" % (prog, P, size, mon, len(r.get("sched", []))),
                          {"engine": "E-SHIM", "component": "e2e", "program": prog, "P": P, "size": size, "schedule": r.get("sched", []), "monitor": mon})
    return bad


# --------------------------------------------------------------------------------------------------
# Dispatch: task-level event log of the instrumented runtime validated against the Lean composition model
# --------------------------------------------------------------------------------------------------

DISP_PROGS = ["tg_nested", "tg_tree", "pfor_affinity", "mail_claim", "isolate", "pfor_tg", "enqueue", "enq_nowait", "cancel",
              "critical", "oversub", "xexec"]


def parse_disp(out):
    runs, cur = [], None
    for l in out.split("\n"):
        w = l.split()
        if not w:
            continue
        if w[0] == "run":
            cur = {"mon": "", "sched": [], "units": 0, "steps": 0, "threads": 0, "ev": []}
        elif w[0] == "CRASH":
            cur = {"mon": "VIOLATION the runtime crashed inside the controlled run (%s %s)" % (w[1], w[2] if len(w) > 2 else ""),
                   "sched": [], "units": 0, "steps": 0, "threads": 0, "ev": []}
        elif cur is None:
            continue
        elif w[0] == "units":
            cur["units"], cur["steps"], cur["threads"] = int(w[1]), int(w[3]), int(w[5])
            cur["apps"] = int(w[7]) if len(w) > 7 else 1
        elif w[0] == "v":
            cur["ev"].append(w[1:])
        elif w[0] == "mon":
            cur["mon"] = " ".join(w[1:])
        elif w[0] == "sched":
            cur["sched"] = w[1:]
        elif w[0] == "end":
            runs.append(cur)
            cur = None
    return runs


_LOOK_ORDER = []


def look_order():
    """the dispatcher's look-up order as extracted from the current source (the validator runs the model with it)"""
    if not _LOOK_ORDER:
        _LOOK_ORDER.extend(dispatch_order())
    return _LOOK_ORDER


def dp_translate(run):
    """harness events -> driver lines of `c01dp`.  Returns (lines, expect, notes, stats): expect[i] = the exact answer
    required for line i (None: any answer starting with 'ok'); notes = abstraction-level inconsistencies found while
    translating (e.g. the runtime's execution_data.original_slot disagrees with the container the unit was submitted to)."""
    ev = run["ev"]
    apps = run.get("apps", 1)
    arenas = {}
    for e in ev:
        if e[0] == "A":
            arenas[int(e[1])] = int(e[2])
    base, slot_arena = {}, []
    for a in sorted(arenas):
        base[a] = len(slot_arena)
        slot_arena += [a] * arenas[a]
    nthreads = max([run["threads"]] + [int(e[1]) + 1 for e in ev if e[0] in ("ent", "exec", "sub", "wb", "grp")])
    lines = ["init %d %d %s | %s" % (max(len(arenas), 1), nthreads, " ".join(look_order()), " ".join(map(str, slot_arena)))]
    expect = [None]
    notes = []
    stats = {"take_bypass": 0, "take_local": 0, "take_steal": 0, "take_stream": 0, "mailed": 0, "mailed_pool_side_owner": 0,
             "mailed_pool_side_thief": 0, "mailed_box_side": 0, "free_pool_side": 0, "free_box_side": 0, "free_drain": 0, "enter": 0,
             "leave": 0, "cancelled_units": 0, "cancel_writes": 0, "hoisted_complete": 0, "respawn": 0, "waits": 0, "delegated": 0,
             "events": 0}

    def out(line, exp=None):
        lines.append(line)
        expect.append(exp)
        stats["events"] += 1
    occ = {}                     # (arena, slot) -> tid
    stack = {}                   # tid -> shadow of the model stack: ("A", arena, slot) | ("W", g) | ("X", model unit)
    ctxmap, nctx = {}, [0]
    isomap = {"(nil)": 0}
    gmap, wc2g, ngroups = {}, {}, [0]
    units = {}                   # harness uid (or ("d", did)) -> dict(mu = model id, where, g, thread, state)
    nunits, nprox = [0], [0]
    pidmap, punit = {}, {}       # harness pid -> model pid / -> harness uid
    deleg = {}                   # did -> dict(caller, runner, key, g)
    open_deleg = {}              # caller tid -> did (a delegated call in flight)
    # a task_arena::execute call is DELEGATED when its body runs on another thread, or when the caller enters the arena only
    # to wait for its delegate (r1::wait on the delegate's private wait_context) and then happens to run it itself
    delegated = set()
    pending_call = {}            # caller tid -> did, between dcall and dbody
    for e in ev:
        if e[0] == "dcall":
            pending_call[int(e[1])] = int(e[2])
        elif e[0] == "dbody":
            did, x = int(e[2]), int(e[1])
            callers = [t for t, d in pending_call.items() if d == did]
            if callers and callers[0] != x:
                delegated.add(did)
            for t in callers:
                del pending_call[t]
        elif e[0] == "wb" and int(e[2]) < 0 and int(e[1]) in pending_call:
            delegated.add(pending_call[int(e[1])])

    def ctx_of(ptr):
        if ptr not in ctxmap:
            ctxmap[ptr] = nctx[0]
            nctx[0] += 1
            out("ctx")
        return ctxmap[ptr]

    def iso_of(ptr):
        if ptr not in isomap:
            isomap[ptr] = len(isomap)
        return isomap[ptr]

    def cur_attach(t):
        for f in reversed(stack.get(t, [])):
            if f[0] == "A":
                return f
        return None

    def new_unit(key, where, g):
        units[key] = {"mu": nunits[0], "where": where, "g": g}
        nunits[0] += 1
        return units[key]["mu"]

    def new_group(key):
        gmap[key] = ngroups[0]
        ngroups[0] += 1
        return gmap[key]

    def grab(t, key, orig=None):
        """the unit leaves its container and is in thread t's hand"""
        d = units[key]
        wh = d["where"]
        at = cur_attach(t)
        if wh[0] == "stream":
            stats["take_stream"] += 1
            out("grab %d stream %d %d" % (t, wh[2], d["mu"]))
        elif wh[0] in ("pool", "mail"):
            a, sl = wh[1], wh[2]
            own = at is not None and (at[1], at[2]) == (a, sl)
            if wh[0] == "pool":
                stats["take_local" if own else "take_steal"] += 1
            if orig is not None and orig != sl:
                notes.append("unit %d: it was in the pool of slot %d, but execution_data.original_slot = %d" % (d["mu"], sl, orig))
            out("grab %d pool %d %d" % (t, base[a] + sl, d["mu"]))
        d["where"] = ("hand", t)

    for e in ev:
        k = e[0]
        if k == "A":
            continue
        if k == "ent":
            t, a, sl = int(e[1]), int(e[2]), int(e[3])
            if a not in base:
                notes.append("slot of an unknown arena occupied")
                continue
            occ[(a, sl)] = t
            stack.setdefault(t, []).append(("A", a, sl))
            stats["enter"] += 1
            out("enter %d %d" % (t, base[a] + sl))
            if t >= apps:
                out("bw %d -1 0" % t)          # a worker: arena::process enters the outermost dispatch loop
                stack[t].append(("W", None))
        elif k == "lev":
            t, a, sl = int(e[1]), int(e[2]), int(e[3])
            if occ.get((a, sl)) != t:
                continue                      # the arena constructor initialises the flags
            st = stack.get(t, [])
            if st and st[-1] == ("W", None):
                out("wr %d" % t)              # a worker leaves its outermost dispatch loop before it releases the slot
                st.pop()
            if st and st[-1][0] == "A":
                st.pop()
            else:
                notes.append("thread %d released slot %d of arena %d with frames above its attachment" % (t, sl, a))
            del occ[(a, sl)]
            stats["leave"] += 1
            out("leave %d" % t)
        elif k == "cw":
            if e[2] == "0":
                ctxmap.pop(e[1], None)
            else:
                stats["cancel_writes"] += 1
                out("cancel %d" % ctx_of(e[1]))
        elif k == "grp":
            t, g = int(e[1]), int(e[2])
            mg = new_group(g)
            if e[3] != "(nil)":
                wc2g[e[3]] = g
            out("grp %d" % t, "ok g=%d" % mg)
        elif k == "sub":
            t, u, g = int(e[1]), int(e[2]), int(e[3])
            kind = e[6]
            if kind == "respawn":
                # get_critical_task found a critical task while the dispatcher held `u` in its hand (returned by execute(),
                # or just stolen / taken): `u` is spawned into the thread's own pool
                stats["respawn"] += 1
                if u not in units:
                    notes.append("a task the harness never saw was re-spawned")
                    continue
                if units[u]["where"][0] != "hand":
                    grab(t, u)
                at = cur_attach(t)
                units[u]["where"] = ("pool", at[1], at[2])
                units[u].pop("via", None)
                out("respawn %d" % t)
                continue
            if g not in gmap:
                notes.append("a unit was submitted outside every annotated group (harness uid %d)" % u)
                continue
            c, iso = ctx_of(e[4]), iso_of(e[5])
            at = cur_attach(t)
            head = "sub %d %d %d %d " % (t, gmap[g], c, iso)
            if kind == "spawn":
                mu = new_unit(u, ("pool", at[1], at[2]), g)
                out(head + "spawn", "ok u=%d" % mu)
            elif kind == "mail":
                dst, pid = int(e[7]), int(e[8])
                mu = new_unit(u, ("mail", at[1], at[2], dst), g)
                pidmap[pid] = nprox[0]
                nprox[0] += 1
                punit[pid] = u
                stats["mailed"] += 1
                out(head + "mail %d" % (base[at[1]] + dst), "ok u=%d p=%d" % (mu, pidmap[pid]))
            elif kind == "stream":
                a, kd = int(e[7]), int(e[8])
                mu = new_unit(u, ("stream", a, kd), g)
                out(head + "stream %d %d" % (a, kd), "ok u=%d" % mu)
            else:                              # direct / byp: straight into the dispatcher's hand
                mu = new_unit(u, ("hand", t), g)
                out(head + "bypass", "ok u=%d" % mu)
        elif k == "claim":
            # task_proxy::extract_task won the task: value written 1 (pool_bit) = claimed from the mailbox, 2 = from the pool
            t, pid, v = int(e[1]), int(e[2]), int(e[3])
            if pid not in punit:
                notes.append("a proxy was claimed whose submission was not logged")
                continue
            u = punit[pid]
            d = units[u]
            wh = d["where"]
            if wh[0] != "mail":
                notes.append("unit %d claimed through a proxy twice" % d["mu"])
                continue
            if v == 1:
                stats["mailed_box_side"] += 1
                out("grab %d box %d" % (t, d["mu"]))
                d["via"] = "box"
            else:
                at = cur_attach(t)
                own = at is not None and (at[1], at[2]) == (wh[1], wh[2])
                stats["mailed_pool_side_owner" if own else "mailed_pool_side_thief"] += 1
                out("grab %d pool %d %d" % (t, base[wh[1]] + wh[2], d["mu"]))
                d["via"] = ("pool", wh[2])
            d["where"] = ("hand", t)
        elif k == "exec":
            t, u, orig, canc = int(e[1]), int(e[2]), int(e[3]), e[4] == "1"
            if u not in units:
                notes.append("a unit was executed whose submission was not logged (harness uid %d)" % u)
                continue
            d = units[u]
            if canc:
                stats["cancelled_units"] += 1
            if d["where"][0] == "mail":
                notes.append("unit %d: a mailed task was executed without a successful claim of its proxy" % d["mu"])
                continue
            if d["where"][0] == "hand":
                if d["where"][1] != t:
                    notes.append("unit %d is executed by thread %d but was handed to thread %d" % (d["mu"], t, d["where"][1]))
                if d.get("via") == "box" and orig != 65534:
                    notes.append("unit %d came from the mailbox but execution_data.original_slot = %d" % (d["mu"], orig))
                if isinstance(d.get("via"), tuple) and orig != d["via"][1]:
                    notes.append("unit %d: its proxy was in the pool of slot %d, but execution_data.original_slot = %d" % (d["mu"], d["via"][1], orig))
                if "via" not in d:
                    stats["take_bypass"] += 1
            else:
                grab(t, u, orig)
            out("take %d bypass %d" % (t, d["mu"]), "ok cancel" if canc else "ok exec")
            d["thread"], d["state"] = t, "running"
            stack.setdefault(t, []).append(("X", d["mu"]))
        elif k == "fin":
            t, u = int(e[1]), int(e[2])
            if u not in units:
                continue
            d = units[u]
            if d.get("state") == "running":
                out("complete %d %d" % (t, d["mu"]))
            out("ret %d %d" % (t, d["mu"]))
            d["state"] = "done"
            st = stack.get(t, [])
            if st and st[-1] == ("X", d["mu"]):
                st.pop()
            else:
                notes.append("unit %d returned on thread %d out of stack order" % (d["mu"], t))
        elif k == "zero":
            g = wc2g.get(e[2])
            if g is None:
                continue
            # every unit of the group has released its reference: those whose call has not returned to the dispatcher yet
            # are `released` from here on (the runtime's own counter is the witness)
            for u, d in units.items():
                if d["g"] == g and d.get("state") == "running":
                    tu = d["thread"]
                    if stack.get(tu) and stack[tu][-1] == ("X", d["mu"]):
                        out("complete %d %d" % (tu, d["mu"]))
                        d["state"] = "released"
                        stats["hoisted_complete"] += 1
            out("zero %d" % gmap[g])
        elif k == "wb":
            t, g = int(e[1]), int(e[2])
            iso = iso_of(e[3])
            if g < 0 and t in open_deleg:
                g = ("d", open_deleg[t])       # task_arena::execute: the caller got a slot and helps until its delegate is done
            if g not in gmap:
                notes.append("thread %d waits for a group the harness did not annotate" % t)
                continue
            if e[4] != "(nil)":
                wc2g[e[4]] = g
            stats["waits"] += 1
            out("bw %d %d %d" % (t, gmap[g], iso))
            stack.setdefault(t, []).append(("W", g))
        elif k == "we":
            t = int(e[1])
            st = stack.get(t, [])
            if st and st[-1][0] == "W" and st[-1][1] is not None:
                st.pop()
                out("wr %d" % t)
            else:
                notes.append("thread %d returned from a wait that is not its innermost frame" % t)
        elif k == "pfree":
            pid = int(e[2])
            if pid in pidmap:
                out("free %s %d" % (e[1], pidmap[pid]))
        elif k == "dcall":
            t, did, a = int(e[1]), int(e[2]), int(e[3])
            if did not in delegated:
                continue
            # delegated: task_arena::execute found no free slot, the delegate travels as a task through the fifo stream
            stats["delegated"] += 1
            key = ("d", did)
            mg = new_group(key)
            out("grp %d" % t, "ok g=%d" % mg)
            out("ctx")
            c = nctx[0]
            nctx[0] += 1
            mu = new_unit(key, ("stream", a, 1), key)
            out("sub %d %d %d 0 stream %d 1" % (t, mg, c, a), "ok u=%d" % mu)
            deleg[did] = {"caller": t}
            open_deleg[t] = did
        elif k == "dbody":
            t, did = int(e[1]), int(e[2])
            if did not in deleg:
                continue
            key = ("d", did)
            grab(t, key)
            out("take %d bypass %d" % (t, units[key]["mu"]), "ok exec")
            units[key]["thread"], units[key]["state"] = t, "running"
            stack.setdefault(t, []).append(("X", units[key]["mu"]))
        elif k == "dend":
            t, did = int(e[1]), int(e[2])
            if did not in deleg:
                continue
            key = ("d", did)
            out("complete %d %d" % (t, units[key]["mu"]))
            out("ret %d %d" % (t, units[key]["mu"]))
            units[key]["state"] = "done"
            st = stack.get(t, [])
            if st and st[-1] == ("X", units[key]["mu"]):
                st.pop()
        elif k == "dret":
            open_deleg.pop(int(e[1]), None)
        elif k in ("occ-unknown", "cw-unknown", "tat-unknown"):
            notes.append("unexpected access kind on a slot-occupancy / cancellation / task_and_tag word: " + " ".join(e))
    out("state")
    return lines, expect, notes, stats


def dp_validate(run):
    """None if every event is an enabled transition of Dispatch with the same outcome, else the first rejection."""
    lines, expect, notes, stats = dp_translate(run)
    res = drv("c01dp", "\n".join(lines) + "\n")
    if len(res) < len(lines):
        return "model output truncated", stats, lines
    for i, (l, r) in enumerate(zip(lines, res)):
        if expect[i] is not None:
            if r == "ok cancel" and expect[i] == "ok exec":
                # the unit was executed although its context's flag was already set: allowed by the property (a unit is
                # skipped ONLY IF its group was cancelled, not IF); counted, not a failure
                stats["executed_although_cancelled"] = stats.get("executed_although_cancelled", 0) + 1
            elif r != expect[i]:
                return "event %d [%s]: model answers [%s], the implementation did [%s]" % (i, l, r, expect[i]), stats, lines
        elif not r.startswith("ok") and not l.startswith("state"):
            return "event %d [%s]: %s" % (i, l, r), stats, lines
        if "side=" in r:
            stats["free_" + {"pool": "pool_side", "mailbox": "box_side", "drain": "drain"}[r.split("side=")[1].strip()]] += 1
    st = res[len(lines) - 1]
    m = re.search(r"pending=\[([^\]]*)\] running=\[([^\]]*)\] twice=\[([^\]]*)\]", st)
    if not m or m.group(1).strip() or m.group(2).strip() or m.group(3).strip():
        return "at the end of the run the model still has pending / running / twice-executed units: " + st[:200], stats, lines
    if notes:
        return "abstraction: " + notes[0], stats, lines
    return None, stats, lines


DP_PROPERTY_REJECTIONS = [
    (r"rej wr: the wait returned but group", "wait-returned-before-its-group-finished"),
    (r"rej zero:", "wait-counter-zero-with-live-units"),
    (r"still carries its task", "proxy-freed-with-its-task-lost"),
    (r"freed twice", "proxy-freed-twice"),
    (r"rej take:.*st=TbbVerif\.C01\.Dispatch\.UState\.(running|released|done)", "unit-taken-twice"),
    (r"rej (take|grab):.*it is not in the named container", "unit-taken-from-a-container-it-is-not-in"),
    (r"model answers \[ok exec\], the implementation did \[ok cancel\]", "unit-skipped-although-its-context-was-not-cancelled"),
    (r"at the end of the run the model still has pending", "unit-never-executed"),
]


def run_dispatch(ck):
    quick = ck.tier == "quick"
    exe = build("disp", DISP_WRAPS)
    rng = ck.rng
    cases = []
    for prog in DISP_PROGS:
        for P in (1, 2, 3, 4):
            cases.append((prog, P, rng.choice([1, 2, 3]) if quick else rng.choice([1, 2, 3, 4])))
    per = 3 if quick else 60
    bad_mon, bad_corr, nruns, steps, total = [], [], 0, 0, {}
    for ci, (prog, P, size) in enumerate(cases):
        seed = ck.seed * 100000 + ci * 1000 + 17
        rc, out, err = sh([exe, prog, str(P), str(size), "rand", str(seed), str(per)], timeout=1500)
        runs = parse_disp(out)
        for i, r in enumerate(runs):
            nruns += 1
            steps += r["steps"]
            if r["mon"] != "ok":
                bad_mon.append(((prog, P, size, seed, i), r))
                continue
            d, stats, lines = dp_validate(r)
            ck.traces_validated += 1
            for k, v in stats.items():
                total[k] = total.get(k, 0) + v
            ck.count(1, ("dispatch", prog, P, size, r["threads"], r["units"], stats["delegated"] > 0, stats["mailed_box_side"] > 0,
                         stats["mailed_pool_side_thief"] > 0, stats["free_pool_side"] > 0, stats["free_box_side"] > 0))
            if d:
                bad_corr.append(((prog, P, size, seed, i), r, d, lines))
        if rc not in (0, 1, 3, 4) or (not runs and rc != 0):
            bad_mon.append(((prog, P, size, seed, 0), {"mon": "harness crashed rc=%d %s" % (rc, (out + err)[-300:]), "sched": []}))
    ck.extra.setdefault("schedules", {})["dispatch"] = {"random_runs": nruns, "scheduling_points": steps, "programs": DISP_PROGS,
                                                        "arena_sizes": [1, 2, 3, 4], "task_level_events": total}
    if cases:
        ck.sample({"component": "dispatch", "cases": cases[:6]})
    ck.oblige("monitor:dispatch task programs on the instrumented runtime with interposed entry points: every unit runs exactly once (at most once "
              "if cancelled), every wait covers its group, no deadlock (nested groups, task trees, affinity / static partitioner with mailed "
              "proxies claimed from both sides, isolate, task_group inside parallel_for, enqueue, enqueue into an arena nobody waits in, "
              "cancel, oversubscription, task_arena::execute from external threads while workers come and go)", "correspondence",
              not bad_mon, "" if not bad_mon else "%s | program %s P=%d size=%d" % ((bad_mon[0][1]["mon"],) + bad_mon[0][0][:3]))
    ck.oblige("corr:dispatch every task-level event of the runtime (submit to which container, proxy claim side, take by whom, execute / "
              "cancel, release, zero-crossing of the wait counter, wait return, slot enter / leave, proxy free) is an enabled transition of the "
              "Lean Dispatch model with the same outcome", "correspondence", not bad_corr,
              "" if not bad_corr else "%s | program %s P=%d size=%d seed=%d run=%d" % ((bad_corr[0][2],) + bad_corr[0][0]))

    def with_schedule(case):
        prog, P, size, seed, i = case
        rc, out, err = sh([exe, prog, str(P), str(size), "randat", str(seed), str(i)], timeout=600)
        rs = parse_disp(out)
        return rs[0]["sched"] if rs else []
    if bad_mon:
        (prog, P, size, seed, i), r = bad_mon[0]
        mon = r.get("mon", "")
        key = "dispatch:%s:%s" % (prog, re.sub(r"[^A-Za-z]+", "-", re.sub(r"\d+", "N", mon))[:60].strip("-"))
        ck.counterexample(key, "dispatch %s P=%d size=%d: %s (schedule of %d steps in the replay file)" % (prog, P, size, mon, len(r.get("sched", []))),
                          {"engine": "E-SHIM", "component": "dispatch", "program": prog, "P": P, "size": size, "schedule": r.get("sched", []), "monitor": mon})
    elif bad_corr:
        # is the rejected event a failure of the PROPERTY (a unit lost / taken twice / a wait that returned early), or only a
        # difference in how the runtime gets there?
        for case, r, d, lines in bad_corr[:8]:
            kind = next((name for pat, name in DP_PROPERTY_REJECTIONS if re.search(pat, d)), None)
            if kind:
                prog, P, size, seed, i = case
                sched = with_schedule(case)
                ck.counterexample("dispatch:%s:%s" % (prog, kind),
                                  "dispatch %s P=%d size=%d: the runtime performed a task-level event the composition model forbids: %s"
                                  % (prog, P, size, d[:300]),
                                  {"engine": "E-SHIM", "component": "dispatch", "program": prog, "P": P, "size": size, "schedule": sched,
                                   "rejected": d, "events_head": lines[:60]})
                break
        else:
            # search: more schedules of the programs involved, with the implementation-side monitors
            for case, r, d, lines in bad_corr[:4]:
                prog, P, size, seed, i = case
                rc, out, err = sh([exe, prog, str(P), str(size), "rand", str(seed + 500), str(4 * per if quick else 2 * per)], timeout=1500)
                rs = [x for x in parse_disp(out) if x["mon"] != "ok"]
                if rs:
                    mon = rs[0]["mon"]
                    ck.counterexample("dispatch:%s:%s" % (prog, re.sub(r"[^A-Za-z]+", "-", re.sub(r"\d+", "N", mon))[:60].strip("-")),
                                      "dispatch %s P=%d size=%d: %s" % (prog, P, size, mon),
                                      {"engine": "E-SHIM", "component": "dispatch", "program": prog, "P": P, "size": size,
                                       "schedule": rs[0].get("sched", []), "monitor": mon})
                    break
    return bad_mon, bad_corr


def run_tso(ck, lean_ok):
    """The store-buffer layer: the executable TSO model of the last-task window is explored with the orders observed on the
    real code (must find nothing) and with each Dekker side weakened (must find the double take) - and when the Lean
    obligation `deque_fences_ok_observed` no longer holds the explorer's schedule is the failing input."""
    o = ck.extra.get("deque_orders", {})
    flags = [1 if o.get(k) else 0 for k in ("decRmw", "decFence", "incRmw", "incFence")]
    try:
        res = drv("c01tso", "explore %d %d %d %d\nexplore 0 0 1 0\nexplore 1 0 0 0\n" % tuple(flags))
    except Exception as e:      # the driver could not be built
        ck.oblige("corr:tso explorer available", "correspondence", False, str(e)[:200])
        return
    ck.extra["tso_explore"] = {"observed": res[0], "owner_store_plain_no_fence": res[1], "thief_store_plain_no_fence": res[2]}
    fences_ok = (flags[0] or flags[1]) and (flags[2] or flags[3])
    ok = (res[0].startswith("none") == bool(fences_ok)) and res[1].startswith("bad") and res[2].startswith("bad")
    ck.oblige("corr:tso explorer: no double take / lost task under the observed orders of --tail / ++head, and a double take when either "
              "side's update is a plain store without a fence", "correspondence", ok and bool(fences_ok),
              "observed orders %s: %s" % (flags, res[0][:200]))
    if res[0].startswith("bad"):
        sched = res[0].split("|")[0].split()[1:]
        ck.counterexample("deque-tso:last-task-taken-twice-under-store-buffers",
                          "with the memory orders the code now executes at --tail / ++head (decRmw, decFence, incRmw, incFence = %s) the TSO model of "
                          "get_task vs steal_task hands the last task out twice (or loses it) under schedule %s (0 owner, 1 thief, 2/3 flush)"
                          % (flags, " ".join(sched)),
                          {"engine": "TSO-model", "component": "deque-tso", "orders": flags, "schedule": sched})


def report_cex(ck, comp, sc, r, text):
    mon = r.get("mon", "")
    key = "%s:%s" % (comp, re.sub(r"[^A-Za-z]+", "-", re.sub(r"\d+", "N", mon))[:60].strip("-"))
    ck.counterexample(key, "%s: %s under schedule %s" % (comp, mon, " ".join(r.get("sched", []))[:300]),
                      {"engine": "E-SHIM", "component": comp, "scenario": sc, "stdin": text, "schedule": r.get("sched", []), "monitor": mon,
                       "trace": r.get("ev", [])[:300]})


def run(ck):
    ck.rule = ("Dispatch tie: 12 task programs x arena sizes 1-4 x seeded random schedules on the whole instrumented runtime with "
               "r1::spawn/submit/enqueue/execute_and_wait/wait/notify_waiters/allocate/deallocate interposed (wrapper tasks), the "
               "task-level event log (merged with slot-occupancy, cancellation-flag and task_and_tag accesses of the atomic trace) "
               "validated event by event against the Lean Dispatch model; deque Orders regenerated from the trace + TSO explorer; "
               "component ties: E-SHIM on the instrumented runtime: hand-written last-task / isolation scenarios + seeded random owner/thief programs "
               "(small, mixed, isolation, growth k>64; deque+mailbox: mailed proxies emptied by the recipient before the owner reaches "
               "them below/above skipped foreign-isolation tasks, with handshakes and re-use of the freed proxy memory) under seeded "
               "random schedules, each access replayed on the Lean models and the white-box content of task_pool_ptr[head..tail) compared "
               "with the model's pool after every owner operation; "
               "bounded-preemption DFS of the 2-3 thread scenarios with exactly-once monitors; distinct = (component, scenario kind, "
               "#threads, set of (variable, access kind, outcome) seen, result counts)")
    ck.trusted += ["harness/shim (atomic shim + baton scheduler)", "harness/c01/*.cpp monitors and address→variable maps",
                   "trace replay in checks/c01.py (sampled correspondence)",
                   "-Wl,--wrap interposition of r1::deallocate / r1::notify_waiters in the wt and mail harnesses, of r1::allocate / "
                   "r1::deallocate (forwarding to the real pool) in the e2e harness",
                   "harness/c01/disp.cpp: wrapper tasks + interposed r1 entry points (the scheduler sees a wrapper instead of the user's task), "
                   "group annotations of the programs, address tables (slot occupancy, cancellation flags, task_and_tag)",
                   "checks/c01.py dp_translate: event -> model action map (source of a take inferred from the container of the "
                   "submission and cross-checked with execution_data.original_slot; hoisting of `complete` at a zero-crossing; "
                   "delegation inferred from task_arena::execute call / body threads)",
                   "checks/c01.py dispatch_order / deque_sites: source-text and trace translators"]
    ck.assumptions += [
        "proved (Lean, all schedules, any number of thieves / pushers / threads): Deque conservation, no duplication, no loss, last-task "
        "arbitration on the full arena_slot model (growth/compaction under the lock, isolation holes, empty proxies); task_proxy two-sided "
        "claim (taken once, freed once by the loser, no access after free); fold_tree releases the wait node exactly once after the last "
        "leaf; reference_vertex forwarding and 'root counter 0 => quiescent' under the reserve discipline; task_stream conservation and "
        "population-bit invariant; see Props/C01.lean for the mail_outbox theorems and whether they are full or _partial",
        "the component models are sequentially consistent interleavings of atomic accesses, one step = one access plus the non-atomic code "
        "up to the next access of the same thread (exactly one E-SHIM scheduling slice).  Store-buffer layer: the last-task arbitration "
        "(owner --tail then head.load against thief ++head then tail.load) additionally has an x86-TSO model for 1 owner x 1 thief x 1 task "
        "(finite closure, decide +kernel), proved safe under fencesOK over the memory orders regenerated from the E-SHIM trace, with "
        "necessity witnesses; the N-thief deque and all other protocols are SC only; the portable (non-x86) reading in which a seq_cst RMW "
        "is not a full barrier is not claimed",
        "composition: Dispatch (Model/C01Dispatch.lean) is a task-level model of the whole dispatcher - pools / mailboxes / streams as bags "
        "(interface discharged by the component theorems: deque_implements_bag, mailbox_implements_bag, stream_implements_bag, "
        "proxy_implements_claim), proxies with the two-sided claim, the dispatcher's hand (bypass), exec / wait / attach frames, wait "
        "references, cancellation, threads entering and leaving arenas; dispatch_exactly_once, dispatch_no_loss, wait_covers_transitive, "
        "wait_covers_nested, any_taker are proved for every configuration and every action sequence.  The tie is trace refinement: every "
        "task-level event of the instrumented runtime is validated as an enabled transition (sampled schedules)",
        "Dispatch abstractions: a unit's release is logged when its execute() returns to the wrapper task, or earlier when the runtime's own "
        "wait counter reaches 0 (r1::notify_waiters interposed): units of that wait_context that are still inside execute() are then "
        "marked released - so 'wait returned while a body was still running' is left to the body-level monitors, while 'counter reached 0 / "
        "wait returned while a unit was still pending in a container' is checked by the model; isolation is a guard only (C16 owns it); "
        "which victim / lane is chosen, the LIFO/FIFO order inside a container and failed look-ups are not observable at task level (the "
        "driver inserts misses); the delegated task of task_arena::execute is modelled as a unit of a private group in the fifo stream "
        "(its body is observed, its enqueue is inferred from the call); resume tasks (C20) and flow-graph bodies are not exercised",
        "the reserve discipline of wait_zero_quiescent (only the main thread or a thread executing a unit of the group creates units) is an "
        "assumption about callers; a task_group::run racing with wait from an unrelated thread is outside the theorem",
        "weak CAS never fails spuriously under the shim; thief-side proxy skipping (recipient idle) is an oracle bit in the Deque model and is "
        "exercised in the harness through isolation only",
        "an early / extra notify_waiters is a spurious wake-up, not a property failure: such a change breaks the trace correspondence "
        "(no-failing-input-found) but no monitor",
        "the cells of task_pool_ptr[] are plain memory (no events in the access trace): their content is tied to the model by white-box "
        "snapshots of [head, tail) taken by the owner after each of its operations (Lean driver command `dump`); small-object pool "
        "reclamation itself is not modelled - the component harness re-uses freed proxy blocks LIFO like the pool, the e2e harness runs the "
        "real pool with r1::allocate/deallocate interposed (freed-twice and stale-cell monitors)",
        "observed while building the iso_* e2e programs, outside this property (reported to the coordinator, not a C01 failure): with "
        "max_allowed_parallelism = 1 a task pool can be left published with only nullptr cells at its bottom (holes punched by isolated "
        "get_task calls; only a thief or an owner pop that reaches them removes them), arena::has_tasks() stays true and a blocking "
        "tbb::finalize() then spins forever in threading_control::wait_last_reference; the iso_* programs therefore run with P >= 2"]
    consts = gen(ck)
    lean_ok = ck.lean_stage()
    run_tso(ck, lean_ok)
    run_deque(ck, consts)
    run_mail(ck, consts)
    run_stream(ck)
    run_fold(ck)
    run_vertex(ck)
    run_e2e(ck)
    run_dispatch(ck)


COMPONENT_EXE = {"deque": ("deque", ()), "mail": ("mail", MAIL_WRAPS), "task_stream": ("stream", ()), "fold_tree": ("wt", WT_WRAPS), "wait_vertex": ("wt", WT_WRAPS)}


def replay(ck, obj):
    r = obj["replay"]
    if r["component"] == "deque-tso":
        out = drv("c01tso", "run %s | %s\n" % (" ".join(map(str, r["orders"])), " ".join(r["schedule"])))
        print(out[0])
        return 0 if out[0].startswith("ok") else 1
    if r["component"] == "dispatch":
        exe = build("disp", DISP_WRAPS)
        os.makedirs(os.path.join(common.BUILD, PID), exist_ok=True)
        f = os.path.join(common.BUILD, PID, "replay_sched_dp.txt")
        open(f, "w").write(" ".join(r["schedule"]))
        rc, out, err = sh([exe, r["program"], str(r["P"]), str(r["size"]), "replayf", f], timeout=600)
        runs = parse_disp(out)
        bad = rc != 0 or not runs or runs[0]["mon"] != "ok"
        if runs and not bad:
            d, stats, lines = dp_validate(runs[0])
            if d:
                print(d)
                bad = True
        print("\n".join(l[:300] for l in out.split("\n") if l.startswith(("mon", "summary", "units"))))
        return 1 if bad else 0
    if r["component"] == "e2e":
        exe = build("e2e", E2E_WRAPS)
        os.makedirs(os.path.join(common.BUILD, PID), exist_ok=True)
        f = os.path.join(common.BUILD, PID, "replay_sched.txt")
        open(f, "w").write(" ".join(r["schedule"]))
        rc, out, err = sh([exe, r["program"], str(r["P"]), str(r["size"]), "replayf", f], timeout=600)
        print("\n".join(l[:300] for l in out.split("\n")[-12:]))
        return 0 if rc == 0 else 1
    name, wraps = COMPONENT_EXE[r["component"]]
    exe = build(name, wraps)
    rc, out, err = sh([exe, "replay", ",".join(r["schedule"])], input=r["stdin"], timeout=300)
    print("\n".join(l[:300] for l in out.split("\n")[-40:]))
    return 0 if rc == 0 else 1
