"""C19 — call_once and thread-specific storage: one winner, one element per thread (DESIGN.md §3 C19).

Tie: E-GEN (reference mask / alignment / state constants, ETS hash width and first array size) + E-SHIM on both real
headers: every atomic access of collaborative_call_once.h (state word, runner ref count / ready flag / wait_context)
and of ets_base::table_lookup (root, count, slot keys) is replayed, access by access, on the Lean models; independent
implementation-side monitors check the property itself; the scheduler's deadlock detection checks "nobody waits for
ever"."""
import json
import os
import re

import common
from common import REPO, cxx_build, drv, gen_write, log, sh

STUBS = "harness/common/r1_stubs.cpp"
H = "harness/c19/"


# ------------------------------------------------------------------------------------------------
# E-GEN
# ------------------------------------------------------------------------------------------------

def gen(ck):
    exe = cxx_build("C19", "consts", [H + "consts.cpp", STUBS], flags=["-O0", "-fno-access-control"])
    rc, out, err = sh([exe], timeout=60)
    if rc != 0:
        raise common.BuildError("consts dumper failed rc=%d %s" % (rc, err[-300:]))
    c = json.loads(out)
    ck.extra["generated_constants"] = c
    gen_write("C19", "".join("def %s : Nat := %d\n" % (k, v) for k, v in sorted(c.items())))
    return c


# ------------------------------------------------------------------------------------------------
# collaborative_call_once
# ------------------------------------------------------------------------------------------------

def build_once():
    return cxx_build("C19", "once", [H + "once.cpp", H + "r1_once_stubs.cpp", common.SHIM_SRC, STUBS],
                     flags=["-O1", "-g", "-fno-access-control"] + common.SHIM_FLAGS)


def parse_runs(out):
    runs, cur = [], None
    for l in out.split("\n"):
        w = l.split()
        if not w:
            continue
        if w[0] == "run":
            cur = {"ev": [], "res": {}, "mon": "", "sched": [], "info": {}}
        elif cur is None:
            continue
        elif w[0] == "e":
            cur["ev"].append((int(w[1]), " ".join(w[2:])))
        elif w[0] == "res":
            cur["res"][int(w[1])] = w[2:]
        elif w[0] == "info":
            cur["info"][w[1]] = w[2:]
        elif w[0] == "mon":
            cur["mon"] = " ".join(w[1:])
        elif w[0] == "sched":
            cur["sched"] = w[1:]
        elif w[0] == "end":
            runs.append(cur)
            cur = None
    return runs


def once_text(sc):
    return "callers %s\nthrows %s\n" % (" ".join(map(str, sc["callers"])), " ".join(map(str, sc["throws"])))


def once_replay_on_model(sc, run, U):
    """Feed one observed run to the Lean OnceFlag model; None if it agrees, else a description."""
    T = len(sc["callers"])
    lines = ["reset", "mask %d" % U, "callers " + " ".join(map(str, sc["callers"])), "throws " + " ".join(map(str, sc["throws"]))]
    for (t, _) in run["ev"]:
        lines.append("s %d" % t)
    lines.append("state")
    out = drv("c19once", "\n".join(lines) + "\n")[4:]
    last = {}
    for i, (t, ev) in enumerate(run["ev"]):
        m = out[i].split(" | ")
        if m[0] != ev:
            return "access %d (thread %d): implementation `%s`, model `%s`" % (i, t, ev, m[0])
        last[t] = m[1].split() if len(m) > 1 else []
    for t in range(T):
        if sc["callers"][t] == 0:
            continue
        if t not in last:
            return "thread %d produced no trace" % t
        left, res = last[t][0], last[t][1:]
        if left != "0":
            return "thread %d: the model still has %s calls to finish at the end of the trace" % (t, left)
        if res != run["res"].get(t, []):
            return "thread %d outcomes: implementation %s, model %s" % (t, run["res"].get(t), res)
    st = out[len(run["ev"])].split()
    if st[2] != "0":
        return "model reached a bad state (carry/borrow across the bit fields or use of a destroyed runner)"
    return None


ONCE_CORPUS = [
    {"callers": [1, 1], "throws": []},
    {"callers": [1, 1], "throws": [0]},
    {"callers": [1, 1, 1], "throws": [0, 1]},
    {"callers": [2, 1, 1], "throws": [0]},
    {"callers": [1, 1, 1, 1], "throws": [1]},
    {"callers": [2, 2], "throws": [0, 1, 2]},
]


def once_scenarios(ck, n):
    rng = ck.rng
    scs = []
    for _ in range(n):
        T = rng.choice([2, 2, 3, 3, 4, 5, 6, 8])
        calls = [rng.choice([1, 1, 1, 2, 3]) for _ in range(T)]
        total = sum(calls)
        k = rng.choice([0, 0, 1, 1, 2, 3, total])
        throws = sorted(rng.sample(range(total), min(k, total)))
        scs.append({"callers": calls, "throws": throws})
    return scs


def run_once_family(ck, U):
    quick = ck.tier == "quick"
    exe = build_once()
    scs = ONCE_CORPUS + once_scenarios(ck, 30 if quick else 300)
    nrand = 25 if quick else 120
    bad_corr, bad_mon = [], []
    nruns = 0
    for si, sc in enumerate(scs):
        rc, out, err = sh([exe, "rand", str(ck.seed * 1000 + si), str(nrand)], input=once_text(sc), timeout=600)
        runs = parse_runs(out)
        for r in runs:
            nruns += 1
            kinds = tuple(sorted(set(e.split()[0] + ":" + e.split()[1].split(":")[0] + ":" + e.split()[-1] for (_, e) in r["ev"])))
            ck.count(1, ("once", len(sc["callers"]), len(sc["throws"]), kinds, tuple(tuple(v) for v in r["res"].values())))
            if r["mon"] != "ok":
                bad_mon.append((sc, r))
            d = once_replay_on_model(sc, r, U)
            ck.traces_validated += 1
            if d:
                bad_corr.append((sc, r, d))
        if rc not in (0, 1, 3) or (rc == 0 and len(runs) != nrand):
            bad_mon.append((sc, {"mon": "harness crashed rc=%d %s" % (rc, err[-300:]), "sched": [], "ev": []}))
        if si < 2 and runs:
            ck.sample({"what": "collaborative_call_once", "scenario": sc, "trace_head": runs[0]["ev"][:14], "outcomes": runs[0]["res"]})
    # bounded-preemption exhaustive exploration with the implementation-side monitors
    dfs_runs = 0
    dfs_scs = ONCE_CORPUS[:3] if quick else ONCE_CORPUS
    for sc in dfs_scs:
        rc, out, err = sh([exe, "dfs", "2" if quick else "3", "6000" if quick else "150000"], input=once_text(sc), timeout=1500)
        m = re.search(r"summary runs=(\d+) bad=(\d+)", out)
        if m:
            dfs_runs += int(m.group(1))
        if rc != 0 or not m or m.group(2) != "0":
            rs = parse_runs(out)
            bad_mon.append((sc, rs[-1] if rs else {"mon": "harness rc=%d %s" % (rc, (out + err)[-300:]), "sched": [], "ev": []}))
    ck.evaluations += dfs_runs
    ck.extra.setdefault("schedules", {})["collaborative_call_once"] = {"random_runs": nruns, "dfs_runs": dfs_runs, "scenarios": len(scs)}
    return bad_corr, bad_mon


def report_family(ck, name, what_mon, bad_corr, bad_mon, mk_replay):
    ck.oblige("corr:%s atomic-access trace replays on the Lean model (accesses, values, outcomes)" % name, "correspondence", not bad_corr,
              "" if not bad_corr else "%s | scenario %s | sched %s" % (bad_corr[0][2], bad_corr[0][0], " ".join(bad_corr[0][1]["sched"])))
    ck.oblige("monitor:%s %s" % (name, what_mon), "correspondence", not bad_mon,
              "" if not bad_mon else "%s | scenario %s" % (bad_mon[0][1]["mon"], bad_mon[0][0]))
    if bad_mon:
        sc, r = min(bad_mon, key=lambda x: len(x[1].get("sched", [])) or 10 ** 9)
        mon = r["mon"]
        key = re.sub(r"[^A-Za-z0-9]+", "-", " ".join(mon.split(" ")[1:7])).strip("-") or "harness"
        ck.counterexample("%s:%s" % (name, key), "%s: %s under schedule %s" % (name, mon, " ".join(r["sched"])),
                          mk_replay(sc, r))


def run(ck):
    ck.rule = ("E-SHIM: hand-written + seeded random scenarios (2-8 callers x 1-3 calls, the user function throwing on chosen invocation numbers; "
               "1-9 threads x 1-3 lookups on one enumerable_thread_specific / combinable with chosen or real keys so that the table doubles 0-3 times), "
               "each under seeded random schedules with access-by-access replay on the Lean model, plus bounded-preemption DFS of the small scenarios "
               "with implementation-side monitors; distinct = distinct (family, #threads, #throws or #doublings, access kinds seen, outcomes) classes")
    ck.assumptions += [
        "proved on the model (N threads <= collaborative_once_max_references, all schedules, all throw oracles; sequentially consistent interleavings)",
        "release/acquire visibility is not modelled (the shim serialises accesses); memory orders are recorded in the trace only",
        "what helpers do inside the runner's arena is abstracted to 'wait until the runner's wait_context is released': the r1:: entry points "
        "reached by collaborative_call_once.h (task_arena attach/execute, isolate_within_arena, execute_and_wait, wait, task_group_context) are "
        "harness-local stubs under E-SHIM (a helper blocked inside uninstrumented libtbb would hold the baton forever)",
        "weak CAS never fails spuriously under the shim"]
    ck.trusted += ["harness/shim (atomic shim + baton scheduler)", "harness/c19/*.cpp monitors and r1 stubs", "trace replay in checks/c19.py (sampled correspondence)"]
    c = gen(ck)
    ck.lean_stage()
    bc, bm = run_once_family(ck, c["maxRefs"])
    report_family(ck, "collaborative_call_once",
                  "one successful completion, callers return after it and see its effects, exception to the winner only, flag reset, runner lifetime, no deadlock (random + bounded-preemption DFS)",
                  bc, bm, lambda sc, r: {"engine": "E-SHIM", "family": "once", "scenario": sc, "schedule": r["sched"], "monitor": r["mon"], "trace": r.get("ev", [])[:300]})


def replay(ck, obj):
    r = obj["replay"]
    if r["family"] == "once":
        exe = build_once()
        rc, out, err = sh([exe, "replay", ",".join(r["schedule"])], input=once_text(r["scenario"]), timeout=300)
        print(out[-6000:])
        return 0 if rc == 0 else 1
    return 2
