"""C19 — call_once and thread-specific storage: one winner, one element per thread (DESIGN.md §3 C19).

Tie: E-GEN (reference mask / alignment / state constants, ETS hash width and first array size) + E-SHIM on both real
headers: every atomic access of collaborative_call_once.h (state word, runner ref count / ready flag / wait_context)
and of ets_base::table_lookup (root, count, slot keys) is replayed, access by access, on the Lean models; independent
implementation-side monitors check the property itself; the scheduler's deadlock detection checks "nobody waits for
ever"."""
import json
import os
import re

import c19collab
import c19life
import c19store
import common
from common import REPO, cxx_build, drv, gen_write, log, sh

STUBS = "harness/common/r1_stubs.cpp"
H = "harness/c19/"


# ------------------------------------------------------------------------------------------------
# E-GEN
# ------------------------------------------------------------------------------------------------

def gen(ck):
    exe = cxx_build("C19", "consts", [H + "consts.cpp", STUBS], flags=["-O0", "-fno-access-control"])
    rc, out, err = sh([exe], timeout=60)
    if rc != 0:
        raise common.BuildError("consts dumper failed rc=%d %s" % (rc, err[-300:]))
    c = json.loads(out)
    ck.extra["generated_constants"] = c
    life_defs, life = c19life.gen(ck)
    # the largest number of references the low bits of the state word can count = simultaneous helpers between their
    # `CAS +1` and their `fetch_sub(1)` (collaborative_once_references_mask)
    c["maxHelpers"] = c["refMask"]
    collab_defs, skel = c19collab.gen(ck, build_once(), once_script_run)
    store_defs = c19store.gen(ck)
    gen_write("C19", "".join("def %s : Nat := %d\n" % (k, v) for k, v in sorted(c.items())) + collab_defs + store_defs + life_defs)
    c["life"] = life
    c["skel"] = skel
    return c


# ------------------------------------------------------------------------------------------------
# collaborative_call_once
# ------------------------------------------------------------------------------------------------

def build_once():
    return cxx_build("C19", "once", [H + "once.cpp", H + "r1_once_stubs.cpp", common.SHIM_SRC, STUBS],
                     flags=["-O1", "-g", "-fno-access-control"] + common.SHIM_FLAGS)


def parse_runs(out):
    runs, cur = [], None
    for l in out.split("\n"):
        w = l.split()
        if not w:
            continue
        if w[0] == "run":
            cur = {"ev": [], "ord": [], "res": {}, "mon": "", "sched": [], "info": {}}
        elif cur is None:
            continue
        elif w[0] == "e":
            cur["ev"].append((int(w[1]), " ".join(w[2:7])))
            cur["ord"].append(w[7] if len(w) > 7 else "")
        elif w[0] == "res":
            cur["res"][int(w[1])] = w[2:]
        elif w[0] == "info":
            cur["info"][w[1]] = w[2:]
        elif w[0] == "fin":
            cur["info"]["fin"] = w[1:]
        elif w[0] == "mon":
            cur["mon"] = " ".join(w[1:])
        elif w[0] == "sched":
            cur["sched"] = w[1:]
        elif w[0] == "end":
            runs.append(cur)
            cur = None
    return runs


def once_text(sc):
    return "callers %s\nthrows %s\n" % (" ".join(map(str, sc["callers"])), " ".join(map(str, sc["throws"])))


def once_replay_on_model(sc, run, U):
    """Feed one observed run to the Lean OnceFlag model; None if it agrees, else a description."""
    T = len(sc["callers"])
    lines = ["reset", "mask %d" % U, "callers " + " ".join(map(str, sc["callers"])), "throws " + " ".join(map(str, sc["throws"]))]
    for (t, _) in run["ev"]:
        lines.append("s %d" % t)
    lines.append("state")
    out = drv("c19once", "\n".join(lines) + "\n")[4:]
    last = {}
    for i, (t, ev) in enumerate(run["ev"]):
        m = out[i].split(" | ")
        if m[0] != ev:
            return "access %d (thread %d): implementation `%s`, model `%s`" % (i, t, ev, m[0])
        last[t] = m[1].split() if len(m) > 1 else []
    for t in range(T):
        if sc["callers"][t] == 0:
            continue
        if t not in last:
            return "thread %d produced no trace" % t
        left, res = last[t][0], last[t][1:]
        if left != "0":
            return "thread %d: the model still has %s calls to finish at the end of the trace" % (t, left)
        if res != run["res"].get(t, []):
            return "thread %d outcomes: implementation %s, model %s" % (t, run["res"].get(t), res)
    st = out[len(run["ev"])].split()
    if st[2] != "0":
        return "model reached a bad state (carry/borrow across the bit fields or use of a destroyed runner)"
    return None



def once_script_run(exe, callers, throws, script):
    sc = {"callers": callers, "throws": throws}
    rc, out, err = sh([exe, "script", script], input=once_text(sc), timeout=900)
    runs = parse_runs(out)
    return sc, rc, runs, err


def once_many_callers(ck, exe, U, bad_corr, bad_mon):
    """Directed scenarios with more callers than the reference mask can count (U = collaborative_once_max_references).
    (a) saturation: 1 winner, then U+1 helpers arrive one after the other, each stopping right after its `CAS +1`:
        U-1 of them pin the runner (low bits = mask), the others must wait in spin_wait_while_eq(m_state, max_value);
        obligation: monitors quiet + trace replays on the model.
    (b) stale expected (informational, beyond the 2-8 thread bound of the property): a caller that read `expected` under
        a previous runner arrives when the low bits are saturated; its CAS carries into the pointer bits."""
    T = U + 2
    script = ",".join(["0:C"] + ["%d:C" % i for i in range(1, T)])
    sc, rc, runs, err = once_script_run(exe, [1] * T, [], script)
    if not runs or rc not in (0, 1, 3):
        bad_mon.append((sc, {"mon": "harness crashed rc=%d %s" % (rc, err[-300:]), "sched": [], "ev": []}))
    else:
        r = runs[0]
        ck.count(1, ("once-saturate", T, r["mon"]))
        if r["mon"] != "ok":
            bad_mon.append((sc, r))
        d = once_replay_on_model(sc, r, U)
        ck.traces_validated += 1
        if d:
            bad_corr.append((sc, r, d))
        pins = max([int(e.split()[3].split(".")[1]) for (_, e) in r["ev"] if e.startswith("cas state") and e.endswith(" 1")] + [0])
        ck.extra.setdefault("schedules", {}).setdefault("collaborative_call_once", {})["saturation_max_low_bits"] = pins
    # (b)
    script = ",".join(["0:C", "1:S3", "0:Z", "2:C"] + ["%d:C" % i for i in range(3, T)] + ["1:C"])
    sc, rc, runs, err = once_script_run(exe, [1] * T, [0], script)
    info = {"callers": T, "script": script[:80] + " ...", "what": "caller 1 reads `expected` = runner of caller 0 (whose invocation throws), caller 2 wins the "
            "next attempt, callers 3..%d pin it (low bits = mask), then caller 1's spin_wait_while_eq(m_state, expected|mask) returns at once because the "
            "pointer bits differ and its CAS(expected, expected+1) carries into the pointer bits" % (T - 1)}
    if runs:
        r = runs[0]
        info["monitor"] = r["mon"]
        info["overflow_event"] = next((e for (_, e) in r["ev"] if e.startswith("cas state") and "?" in e), None)
        info["model_agrees"] = once_replay_on_model(sc, r, U)
        info["schedule_len"] = len(r["sched"])
    else:
        info["monitor"] = "harness rc=%d %s" % (rc, err[-200:])
    ck.extra["beyond_bound_observation"] = info
    # (c) the bound is exact: U+1 callers suffice (caller 0's first invocation throws, its second call takes the last reference)
    T1 = U + 1
    script = ",".join(["0:C", "1:S3", "0:Z", "2:C"] + ["%d:C" % i for i in range(3, T1)] + ["0:C", "1:C"])
    sc, rc, runs, err = once_script_run(exe, [2] + [1] * (T1 - 1), [0], script)
    info2 = {"callers": T1, "what": "theorem once_bound_is_exact on the real header: maxHelpers + 2 = %d callers; caller 1 holds `expected` = runner of caller 0 (whose first "
             "invocation throws), caller 2 wins, callers 3..%d and the second call of caller 0 pin it (low bits = mask), caller 1's CAS carries" % (T1, T1 - 1)}
    if runs:
        info2["monitor"] = runs[0]["mon"]
        info2["overflow_event"] = next((e for (_, e) in runs[0]["ev"] if e.startswith("cas state") and "?" in e), None)
        info2["model_agrees"] = once_replay_on_model(sc, runs[0], U)
    else:
        info2["monitor"] = "harness rc=%d %s" % (rc, err[-200:])
    ck.extra["exact_bound_observation"] = info2
    if runs and runs[0]["mon"] != "ok":
        log("NOTE (outside the 2-8 thread bound of C19, not an obligation): with %d concurrent callers the helper count overflows into the "
            "runner pointer on the unchanged header: %s" % (T, info.get("overflow_event")))


ONCE_CORPUS = [
    {"callers": [1, 1], "throws": []},
    {"callers": [1, 1], "throws": [0]},
    {"callers": [1, 1, 1], "throws": [0, 1]},
    {"callers": [2, 1, 1], "throws": [0]},
    {"callers": [1, 1, 1, 1], "throws": [1]},
    {"callers": [2, 2], "throws": [0, 1, 2]},
]


def once_scenarios(ck, n):
    rng = ck.rng
    scs = []
    for _ in range(n):
        T = rng.choice([2, 2, 3, 3, 4, 5, 6, 8])
        calls = [rng.choice([1, 1, 1, 2, 3]) for _ in range(T)]
        total = sum(calls)
        # only a prefix of throwing invocations is ever executed (the first success ends the game): mostly prefixes, plus stray later ones
        k = min(rng.choice([0, 0, 1, 1, 2, 3, total]), total)
        throws = sorted(set(range(k)) | set(rng.sample(range(total), rng.choice([0, 0, 1]))))
        scs.append({"callers": calls, "throws": throws})
    return scs


def run_once_family(ck, U):
    quick = ck.tier == "quick"
    exe = build_once()
    scs = ONCE_CORPUS + once_scenarios(ck, 30 if quick else 300)
    nrand = 25 if quick else 120
    bad_corr, bad_mon = [], []
    nruns = 0
    for si, sc in enumerate(scs):
        rc, out, err = sh([exe, "rand", str(ck.seed * 1000 + si), str(nrand)], input=once_text(sc), timeout=600)
        runs = parse_runs(out)
        for r in runs:
            nruns += 1
            kinds = tuple(sorted(set(e.split()[0] + ":" + e.split()[1].split(":")[0] + ":" + e.split()[-1] for (_, e) in r["ev"])))
            ck.count(1, ("once", len(sc["callers"]), len(sc["throws"]), kinds, tuple(tuple(v) for v in r["res"].values())))
            if r["mon"] != "ok":
                bad_mon.append((sc, r))
            d = once_replay_on_model(sc, r, U)
            ck.traces_validated += 1
            if d:
                bad_corr.append((sc, r, d))
        if rc not in (0, 1, 3) or (rc == 0 and len(runs) != nrand):
            bad_mon.append((sc, {"mon": "harness crashed rc=%d %s" % (rc, err[-300:]), "sched": [], "ev": []}))
        if si < 2 and runs:
            ck.sample({"what": "collaborative_call_once", "scenario": sc, "trace_head": runs[0]["ev"][:14], "outcomes": runs[0]["res"]})
    # bounded-preemption exhaustive exploration with the implementation-side monitors
    dfs_runs = 0
    dfs_scs = ONCE_CORPUS[:3] if quick else ONCE_CORPUS
    for sc in dfs_scs:
        rc, out, err = sh([exe, "dfs", "2" if quick else "3", "6000" if quick else "150000"], input=once_text(sc), timeout=1500)
        m = re.search(r"summary runs=(\d+) bad=(\d+)", out)
        if m:
            dfs_runs += int(m.group(1))
        if rc != 0 or not m or m.group(2) != "0":
            rs = parse_runs(out)
            bad_mon.append((sc, rs[-1] if rs else {"mon": "harness rc=%d %s" % (rc, (out + err)[-300:]), "sched": [], "ev": []}))
    ck.evaluations += dfs_runs
    ck.extra.setdefault("schedules", {})["collaborative_call_once"] = {"random_runs": nruns, "dfs_runs": dfs_runs, "scenarios": len(scs)}
    once_many_callers(ck, exe, U, bad_corr, bad_mon)
    if bad_corr and not bad_mon:
        extended_search(ck, exe, once_text, [x[0] for x in bad_corr[:3] if len(x[0]["callers"]) <= 8] + ONCE_CORPUS, bad_mon)
    return bad_corr, bad_mon



# ------------------------------------------------------------------------------------------------
# enumerable_thread_specific / combinable
# ------------------------------------------------------------------------------------------------

def build_ets():
    return cxx_build("C19", "ets", [H + "ets.cpp", common.SHIM_SRC, STUBS],
                     flags=["-O1", "-g", "-fno-access-control"] + common.SHIM_FLAGS)


def ets_text(sc):
    t = "kind %d\nthreads %s\n" % (sc["kind"], " ".join(map(str, sc["threads"])))
    if sc["kind"] == 0:
        t += "keys %s\n" % " ".join(map(str, sc["keys"]))
    return t


def ets_replay_on_model(sc, run, B, L0):
    T = len(sc["threads"])
    hs = run["info"].get("hashes", [])
    if len(hs) != T:
        return "harness printed %d hashes for %d threads" % (len(hs), T)
    lines = ["reset", "cfg %d %d" % (B, L0)] + ["thread %s %d" % (hs[t], sc["threads"][t]) for t in range(T)]
    for (t, _) in run["ev"]:
        lines.append("s %d" % t)
    lines.append("state")
    out = drv("c19ets", "\n".join(lines) + "\n")[2 + T:]
    last = {}
    for i, (t, ev) in enumerate(run["ev"]):
        m = out[i].split(" | ")
        if m[0] != ev:
            return "access %d (thread %d): implementation `%s`, model `%s`" % (i, t, ev, m[0])
        last[t] = m[1].split() if len(m) > 1 else []
    for t in range(T):
        if sc["threads"][t] == 0:
            continue
        if t not in last:
            return "thread %d produced no trace" % t
        left, res = last[t][0], last[t][1:]
        if left != "0":
            return "thread %d: the model still has %s lookups to finish at the end of the trace" % (t, left)
        if res != run["res"].get(t, []):
            return "thread %d results: implementation %s, model %s" % (t, run["res"].get(t), res)
    st = out[len(run["ev"])].split(" | ")
    fin = " ".join(run["info"].get("fin", [])).split(" | ") if "fin" in run["info"] else None
    if st[-1].strip() != "0":
        return "model reached a bad state (null root at insert / access outside an array)"
    if fin is not None:
        if st[0].split() != fin[0].split() or st[1].strip() != fin[1].strip():
            return "final table: implementation arrays %s count %s, model arrays %s count %s" % (fin[0], fin[1], st[0], st[1])
        if sorted(st[2].split()) != sorted(fin[2].split() if len(fin) > 2 else []):
            return "elements in my_locals: implementation creators %s, model %s" % (fin[2] if len(fin) > 2 else "", st[2])
    return None


def ets_keys(rng, T, style):
    """64-bit keys whose top 6 bits (the start index in arrays of up to 64 slots) follow `style`."""
    tops = []
    for t in range(T):
        if style == "same":
            tops.append(tops[0] if tops else rng.randrange(64))
        elif style == "end":          # start at the last slots: probing wraps around
            tops.append(63 - rng.randrange(2))
        elif style == "pairs":
            tops.append(rng.choice([0, 21, 42, 63]))
        else:
            tops.append(rng.randrange(64))
    return [(tops[t] << 58) | (rng.randrange(1 << 20) << 8) | (t + 1) for t in range(T)]


ETS_CORPUS = [
    {"kind": 0, "threads": [2, 2], "keys": [(5 << 58) | 1, (5 << 58) | 2]},
    {"kind": 0, "threads": [1, 1, 2], "keys": [(63 << 58) | 1, (63 << 58) | 2, (63 << 58) | 3]},
    {"kind": 0, "threads": [2, 1, 1, 1, 1], "keys": [(t * 13 % 64 << 58) | (t + 1) for t in range(5)]},
    {"kind": 1, "threads": [2, 2, 1]},
    {"kind": 2, "threads": [1, 2, 1]},
    {"kind": 0, "threads": [2, 1, 1, 1, 1, 1, 1, 1, 2], "keys": [(40 << 58) | (t + 1) for t in range(9)]},
]


def ets_scenarios(ck, n):
    rng = ck.rng
    scs = []
    for _ in range(n):
        T = rng.choice([1, 2, 3, 3, 4, 5, 5, 6, 7, 8, 9, 9])
        kind = rng.choice([0, 0, 0, 1, 2])
        th = [rng.choice([1, 1, 2, 3]) for _ in range(T)]
        if T > 2 and rng.random() < 0.2:
            th[rng.randrange(T)] = 0
        sc = {"kind": kind, "threads": th}
        if kind == 0:
            sc["keys"] = ets_keys(rng, T, rng.choice(["same", "end", "pairs", "rand", "rand"]))
        scs.append(sc)
    return scs


def run_ets_family(ck, B, L0):
    quick = ck.tier == "quick"
    exe = build_ets()
    scs = ETS_CORPUS + ets_scenarios(ck, 30 if quick else 300)
    nrand = 20 if quick else 100
    bad_corr, bad_mon = [], []
    nruns = 0
    doublings = set()
    for si, sc in enumerate(scs):
        rc, out, err = sh([exe, "rand", str(ck.seed * 1000 + si), str(nrand)], input=ets_text(sc), timeout=900)
        runs = parse_runs(out)
        for r in runs:
            r["rand_args"] = [str(ck.seed * 1000 + si), str(nrand)]
            nruns += 1
            fin = r["info"].get("fin", ["0"])
            doublings.add(int(fin[0]))
            kinds = tuple(sorted(set(e.split()[0] + ":" + e.split()[1].split(":")[0] + ":" + e.split()[-1] for (_, e) in r["ev"])))
            ck.count(1, ("ets", sc["kind"], len(sc["threads"]), fin[0], kinds, tuple(len(v) for v in r["res"].values())))
            if r["mon"] != "ok":
                bad_mon.append((sc, r))
            d = ets_replay_on_model(sc, r, B, L0)
            ck.traces_validated += 1
            if d:
                bad_corr.append((sc, r, d))
        if rc not in (0, 1, 3) or (rc == 0 and len(runs) != nrand):
            bad_mon.append((sc, {"mon": "harness crashed rc=%d %s" % (rc, err[-300:]), "sched": [], "ev": []}))
        if si in (0, 3) and runs:
            ck.sample({"what": "enumerable_thread_specific/combinable", "scenario": sc, "trace_head": runs[0]["ev"][:14], "results": runs[0]["res"], "final": runs[0]["info"].get("fin")})
    dfs_runs = 0
    # DFS needs a deterministic program: only scenarios with chosen keys (real thread ids hash differently in every run)
    dfs_scs = [sc for sc in ETS_CORPUS if sc["kind"] == 0][:2 if quick else 3]
    for sc in dfs_scs:
        rc, out, err = sh([exe, "dfs", "2" if quick else "3", "5000" if quick else "150000"], input=ets_text(sc), timeout=1500)
        m = re.search(r"summary runs=(\d+) bad=(\d+)", out)
        if m:
            dfs_runs += int(m.group(1))
        if rc != 0 or not m or m.group(2) != "0":
            rs = parse_runs(out)
            bad_mon.append((sc, rs[-1] if rs else {"mon": "harness rc=%d %s" % (rc, (out + err)[-300:]), "sched": [], "ev": []}))
    ck.evaluations += dfs_runs
    ck.extra.setdefault("schedules", {})["ets"] = {"random_runs": nruns, "dfs_runs": dfs_runs, "scenarios": len(scs),
                                                     "arrays_in_chain_seen": sorted(doublings)}
    if bad_corr and not bad_mon:
        extended_search(ck, exe, ets_text, [x[0] for x in bad_corr[:3]] + ETS_CORPUS, bad_mon)
    return bad_corr, bad_mon



def extended_search(ck, exe, text_of, scs, bad_mon):
    """A correspondence broke but no monitor fired yet: look harder for a schedule on which the PROPERTY fails
    (more seeds on the scenarios whose traces diverged and on the corpus, deeper bounded-preemption DFS)."""
    quick = ck.tier == "quick"
    tried = 0
    for si, sc in enumerate(scs):
        rc, out, err = sh([exe, "rand", str(ck.seed * 7777 + 31 * si + 5), str(150 if quick else 1500)], input=text_of(sc) + "quiet\n", timeout=1200)
        m = re.search(r"summary runs=(\d+) bad=(\d+)", out)
        tried += int(m.group(1)) if m else 0
        if rc != 0 or not m or m.group(2) != "0":
            rs = parse_runs(out)
            bad_mon.append((sc, rs[0] if rs else {"mon": "harness rc=%d %s" % (rc, (out + err)[-300:]), "sched": [], "ev": []}))
            break
    if not bad_mon:
        for sc in scs[:3]:
            if sum(sc.get("callers", sc.get("threads", []))) > 6:
                continue
            rc, out, err = sh([exe, "dfs", "3", "30000" if quick else "400000"], input=text_of(sc), timeout=1500)
            m = re.search(r"summary runs=(\d+) bad=(\d+)", out)
            tried += int(m.group(1)) if m else 0
            if rc != 0 or not m or m.group(2) != "0":
                rs = parse_runs(out)
                bad_mon.append((sc, rs[-1] if rs else {"mon": "harness rc=%d %s" % (rc, (out + err)[-300:]), "sched": [], "ev": []}))
                break
    ck.evaluations += tried
    ck.extra.setdefault("extended_search_runs", 0)
    ck.extra["extended_search_runs"] += tried



# ------------------------------------------------------------------------------------------------
# E-REAL: the same monitors against the real runtime (arenas, workers), OS schedules
# ------------------------------------------------------------------------------------------------

def run_real(ck):
    if not os.path.isdir(os.path.join(REPO, "_build")):
        ck.assumptions.append("E-REAL part (real libtbb: callers inside arenas, moonlighting workers) skipped: %s has no _build directory" % REPO)
        ck.extra["e_real"] = "skipped (no _build under %s)" % REPO
        return
    libdir = common.ensure_repo_built(targets=("tbb",)) or common.find_tbb_lib()
    if not libdir:
        raise common.BuildError("no libtbb.so under %s/_build" % REPO)
    exe = cxx_build("C19", "real", [H + "real.cpp"], flags=["-O1", "-g", "-pthread", "-fno-access-control"],
                    libs=["-L" + libdir, "-ltbb", "-Wl,-rpath," + libdir])
    rng = ck.rng
    quick = ck.tier == "quick"
    lines = []
    for _ in range(8 if quick else 60):
        T = rng.choice([2, 3, 4, 6, 8])
        calls = rng.choice([1, 1, 2, 3])
        k = min(rng.choice([0, 1, 2, 3, T * calls]), T * calls)
        throws = sorted(set(range(k)) | set(rng.sample(range(T * calls), rng.choice([0, 1]))))
        lines.append("once %s %d %d %d %s" % (rng.choice("tpn"), T, calls, 60 if quick else 400, " ".join(map(str, throws))))
    for _ in range(4 if quick else 30):
        lines.append("ets %s %d %d %d" % (rng.choice("ec"), rng.choice([1, 2, 3, 5, 8, 9]), rng.choice([1, 2, 3]), 60 if quick else 400))
    lines.append("etsthrow %d %d" % (rng.choice([2, 3, 4, 6]), 10 if quick else 100))
    rc, out, err = sh([exe], input="\n".join(lines) + "\n", timeout=1500)
    outs = out.split("\n")[:-1]
    # the last line demonstrates the known finding with real threads (OS schedules)
    if rc == 0 and len(outs) == len(lines):
        o = outs[-1]
        shown = o.startswith("VIOLATION ets-throwing-initialiser")
        ck.oblige("monitor:real threads, throwing initialiser: size() and iteration account only for constructed elements", "correspondence",
                  o.startswith("ok"), o, cex_keys=[c19store.KEY_DEAD] if shown else None)
        if shown:
            ck.counterexample(c19store.KEY_DEAD, "real library, real threads: " + o, {"engine": "E-REAL", "family": "real", "line": lines[-1]})
        elif not o.startswith("ok"):
            ck.counterexample("real:ets-throw-other", "real runtime: %s on `%s`" % (o, lines[-1]), {"engine": "E-REAL", "family": "real", "line": lines[-1]})
        lines, outs = lines[:-1], outs[:-1]
    bad = None
    if rc != 0 or len(outs) != len(lines):
        i = min(len(outs), len(lines) - 1)
        bad = (lines[i], "harness rc=%d (crash or hang) %s" % (rc, err[-300:]))
    else:
        for l, o in zip(lines, outs):
            ck.count(1, ("real",) + tuple(l.split()[:4]))
            if not o.startswith("ok"):
                bad = bad or (l, o)
    ck.extra["e_real"] = {"scenarios": len(lines), "sample": list(zip(lines[:3], outs[:3]))}
    ck.oblige("monitor:real-runtime collaborative_call_once / ETS / combinable (callers in std::threads, in parallel_for bodies, function with nested "
              "parallelism; OS schedules)", "correspondence", bad is None, "" if bad is None else "%s | scenario `%s`" % (bad[1], bad[0]))
    if bad is not None:
        ck.counterexample("real:" + re.sub(r"[^A-Za-z]+", "-", " ".join(bad[1].split(" ")[1:8])).strip("-"), "real runtime: %s on `%s`" % (bad[1], bad[0]),
                          {"engine": "E-REAL", "family": "real", "line": bad[0], "note": "OS-scheduled: re-run the line repeatedly"})


def report_family(ck, name, what_mon, bad_corr, bad_mon, mk_replay):
    ck.oblige("corr:%s atomic-access trace replays on the Lean model (accesses, values, outcomes)" % name, "correspondence", not bad_corr,
              "" if not bad_corr else "%s | scenario %s | sched %s" % (bad_corr[0][2], bad_corr[0][0], " ".join(bad_corr[0][1]["sched"])))
    ck.oblige("monitor:%s %s" % (name, what_mon), "correspondence", not bad_mon,
              "" if not bad_mon else "%s | scenario %s" % (bad_mon[0][1]["mon"], bad_mon[0][0]))
    if bad_mon:
        sc, r = min(bad_mon, key=lambda x: len(x[1].get("sched", [])) or 10 ** 9)
        mon = r["mon"]
        key = re.sub(r"[^A-Za-z]+", "-", " ".join(mon.split(" ")[1:8])).strip("-") or "harness"
        ck.counterexample("%s:%s" % (name, key), "%s: %s under schedule %s" % (name, mon, " ".join(r["sched"])),
                          mk_replay(sc, r))


def run(ck):
    ck.rule = ("E-SHIM: hand-written + seeded random scenarios (collaborative_call_once: 2-8 callers x 1-3 calls, the user function throwing on chosen "
               "invocation numbers; ETS/combinable: 1-9 threads x 0-3 lookups with chosen colliding / wrapping / random keys or real thread ids, so that the "
               "table doubles 0-3 times), each under seeded random schedules with access-by-access replay on the Lean model, plus bounded-preemption DFS "
               "of the small scenarios and one directed 130-caller saturation schedule, all with implementation-side monitors; E-REAL: seeded scenarios "
               "on the real runtime (std::threads / parallel_for bodies / nested parallelism inside the function); container lifecycle: 16 hand-written + 40 (thorough 400) "
               "seeded scenarios over ets_no_key / ets_key_per_instance / combinable with 2-9 threads and 4-12 phases (concurrent local() phases, clear by a user or "
               "a non-user thread, repeated clear, 1100 generations, destroy + re-create at the same address, move round trip, copy), 5 (25) schedules each + 3 OS-scheduled "
               "runs on the real library; collaborative part: 70 (thorough 700) whole-instrumented-runtime scenarios (2-4 callers x 1-2 calls, P 1-3, 2-9 inner tasks, "
               "explicit arena with reserved slots / implicit arenas, nested second flag, callers as outer parallel_for tasks, throwing invocation prefixes) each under one "
               "seeded schedule, validated event by event on the Lean model Collab, runner bytes poisoned after the winner's call; ETS storage: 6 hand-written + 40 (400) "
               "seeded scenarios x 5 (30) schedules with throwing initialisers (functor / exemplar / default ctor) and a failing allocator, replayed on the model Store; "
               "distinct = distinct (family, #threads, "
               "#throws or #arrays, access kinds seen, outcomes) classes")
    ck.assumptions += [
        "proved on the model (N threads <= collaborative_once_max_references, all schedules, all throw oracles; sequentially consistent interleavings)",
        "release/acquire visibility is not modelled (the shim serialises accesses); memory orders are recorded in the trace only",
        "what helpers do inside the runner's arena is abstracted to 'wait until the runner's wait_context is released': the r1:: entry points "
        "reached by collaborative_call_once.h (task_arena attach/execute, isolate_within_arena, execute_and_wait, wait, task_group_context) are "
        "harness-local stubs under E-SHIM (a helper blocked inside uninstrumented libtbb would hold the baton forever)",
        "weak CAS never fails spuriously under the shim",
        "collaborative part (Model/C19Collab.lean): proved for every schedule of accesses and task actions; what the dispatcher does inside r1::wait / execute_and_wait is "
        "abstracted to begin / take / fin of inner tasks (who may take: winner inside the function, helpers inside assist() of the current runner, workers); arena slot "
        "acquisition, the delegated path of task_arena::execute when no slot is free, task stealing order and the isolation filter of the task pools are C01/C16; the "
        "happens-before ghosts cover the completion (state word) and the destructor's m_ref_count synchronisation with the REGENERATED orders, not the visibility of the "
        "function's writes to the inner tasks (spawn / steal edges); nested same-flag use is modelled only as the blocked-frame relation of the non-isolated skeleton",
        "ETS storage (Model/C19Store.lean): operation-level model (one step per local() call); the interleaving of the phases of concurrent create_local calls is covered by "
        "the E-SHIM differential only, justified by C11 (disjoint hand-out, stable addresses: ets_element_address_stable); flattened2d's segmented iterator is compared "
        "with an executable model (no theorem); allocation-failure scenarios are gated so that the failing first-block allocation does not race with other growers "
        "(that race is C11's finding fault:alloc-throw:first-block:*), and a container whose my_locals is broken is leaked, not cleared (clear() segfaults in "
        "concurrent_vector::destroy_elements: observation, C11's domain)"]
    ck.assumptions += [
        "EtsTable model: create_local() (my_locals.grow_by + construction) is merged with the following ++my_count; (i+1)&mask is modelled as (i+1) % 2^lg; "
        "std::hash of the key is a parameter (every assignment of 64-bit hashes is covered by the theorems)",
        "lifecycle (Model/C19Life.lean): operation-level model — one step per local() / clear() / destroy+re-create; a table_lookup inside one generation is "
        "abstracted to its proven specification (ets_one_element_per_thread: found iff the thread has an element, else exactly one create_local) and needs the "
        "table to be back in its initial state after clear() (generated: the base table_clear frees every array and resets my_count); native TLS keys are "
        "modelled as fresh ids for which every thread reads null (glibc re-uses key numbers with a new sequence number; on a libc that re-used a key WITHOUT "
        "resetting other threads' values the theorem's createKey step would not hold); clear()/construction/destruction are not concurrency-safe operations and "
        "are not interleaved with local(); move and copy of containers are covered by E-SHIM/E-REAL monitors only (move round trip keeps every element, a copy "
        "has one element per thread), not by the model",
        "OnceFlag theorems need #callers <= collaborative_once_max_references (=128): beyond that the helper count CAN overflow into the runner pointer "
        "(stale `expected`; shown on the model by once_refcount_overflow_beyond_bound and on the real header with 130 callers, see beyond_bound_observation)"]
    ck.trusted += ["checks/c19collab.py (skeleton / order extraction from scripted traces and header text; whole-runtime trace validation)", "checks/c19store.py (call linearisation by grow_by hand-out, fault oracle from observed outcomes)", "harness/shim/verif_hb.h (happens-before recomputation over the log)", "harness/shim (atomic shim + baton scheduler)", "harness/c19/*.cpp monitors and r1 stubs", "checks/c19life.py (statement -> primitive-action reader of the lifecycle functions; scenario generator; op replay)", "trace replay in checks/c19.py (sampled correspondence)"]
    c = gen(ck)
    ck.lean_stage()
    bc, bm = run_once_family(ck, c["maxRefs"])
    report_family(ck, "collaborative_call_once",
                  "one successful completion, callers return after it and see its effects, exception to the winner only, flag reset, runner lifetime, no deadlock (random + bounded-preemption DFS)",
                  bc, bm, lambda sc, r: {"engine": "E-SHIM", "family": "once", "scenario": sc, "schedule": r["sched"], "monitor": r["mon"], "trace": r.get("ev", [])[-300:]})
    bc, bm = run_ets_family(ck, c["etsHashBits"], c["etsInitLg"])
    report_family(ck, "ets",
                  "one initialiser call and one stable element per thread, no sharing, exists flag, iteration/combine_each visit each element once, count, no deadlock (random + bounded-preemption DFS)",
                  bc, bm, lambda sc, r: {"engine": "E-SHIM", "family": "ets", "scenario": sc, "schedule": r["sched"], "monitor": r["mon"],
                                         "hashes": r.get("info", {}).get("hashes"), "rand_args": r.get("rand_args"), "trace": r.get("ev", [])[:300]})
    cexe, cbc, cbm, ccov = c19collab.run_family(ck, c["maxRefs"])
    c19collab.report(ck, cexe, cbc, cbm, ccov)
    c19store.run_family(ck)
    run_real(ck)
    life_exe, lbc, lbm, lrb = c19life.run_family(ck, c["life"])
    c19life.report(ck, life_exe, c["life"], lbc, lbm, lrb)



def print_digest(out):
    """replay output: verdict lines in full, the trace tail, long lines shortened"""
    lines = out.split("\n")
    ev = [l for l in lines if l.startswith("e ")]
    for l in ev[-40:]:
        print(l)
    for l in lines:
        if l and not l.startswith("e "):
            print(l if len(l) < 400 else l[:400] + " ...")


def replay(ck, obj):
    r = obj["replay"]
    if r["family"] in ("life", "life-real"):
        return c19life.replay(r)
    if r["family"] == "collab":
        return c19collab.replay(r)
    if r["family"] == "store":
        return c19store.replay(r)
    if r["family"] == "once":
        exe = build_once()
        rc, out, err = sh([exe, "replay", ",".join(r["schedule"])], input=once_text(r["scenario"]), timeout=300)
        print_digest(out)
        return 0 if rc == 0 else 1
    if r["family"] == "real":
        libdir = common.ensure_repo_built(targets=("tbb",)) or common.find_tbb_lib()
        exe = cxx_build("C19", "real", [H + "real.cpp"], flags=["-O1", "-g", "-pthread", "-fno-access-control"],
                        libs=["-L" + libdir, "-ltbb", "-Wl,-rpath," + libdir])
        rc, out, err = sh([exe], input=(r["line"] + "\n") * 20, timeout=1500)
        print(out[-3000:])
        return 0 if rc == 0 and all(o.startswith("ok") for o in out.split("\n")[:-1]) else 1
    if r["family"] == "ets":
        exe = build_ets()
        if r["scenario"]["kind"] != 0 and r.get("rand_args"):
            # real thread ids: the hashes depend on the position of the run inside the process; re-run the same invocation
            rc, out, err = sh([exe, "rand"] + r["rand_args"], input=ets_text(r["scenario"]) + "quiet\n", timeout=900)
            print_digest(out)
            return 0 if rc == 0 else 1
        rc, out, err = sh([exe, "replay", ",".join(r["schedule"])], input=ets_text(r["scenario"]), timeout=300)
        print_digest(out)
        return 0 if rc == 0 else 1
    return 2
