"""C12 — concurrent unordered / ordered associative containers never lose or duplicate keys (DESIGN.md §3 C12).

Layers: (1) Lean models CasList / SplitOrder / SkipList + theorems (Props/C12.lean); (2) ties, re-run against the
current tree: E-GEN constants + memory orders of the traced accesses, E-PURE reverse_bits / order keys / get_parent,
E-SHIM: the real headers run under the controlled scheduler, every access to a list pointer, bucket slot, bucket
count, size, skip-list level pointer, max height is replayed access by access on the Lean model (kind, variable,
values, CAS outcome, operation results, final contents), and implementation-side monitors check the property itself;
(3) on any broken obligation: search (more seeds, bounded-preemption DFS, shrinking) for a schedule on which the
property fails on the implementation."""
import json
import os
import re
import struct

import c12gen
import common
from common import BuildError, REPO, cxx_build, drv, first_diff, gen_write, log, sh

STUBS = "harness/common/r1_stubs.cpp"
M64 = (1 << 64) - 1
REGKEY1 = str((1 << 63) | 1)      # split_order_key_regular(1)

# ------------------------------------------------------------------------------------------------------
# scenarios
# ------------------------------------------------------------------------------------------------------
UO_KINDS = ["uset", "umset", "umap", "ummap"]
SL_KINDS = ["oset", "omset", "omap", "ommap"]


def is_multi(kind):
    return kind in ("umset", "ummap", "omset", "ommap")


def f32_bits(x):
    return struct.unpack("<I", struct.pack("<f", x))[0]


def sc_mlf_bits(sc):
    """initial max_load_factor of a scenario as a float bit pattern (`mlfb` wins over the fraction `mlf`)"""
    if "mlfb" in sc:
        return sc["mlfb"]
    num, den = sc.get("mlf", (4, 1))
    return f32_bits(num / den)


SIZE_OPS = ("rsv", "reh", "mlf")


def sc_text(sc):
    """scenario dict -> harness stdin"""
    t = "kind %s\n" % sc["kind"]
    if sc["kind"] in UO_KINDS:
        t += "bc %d\nmlfb %d\n" % (sc.get("bc", 8), sc_mlf_bits(sc))
        if sc.get("hash"):
            t += "hash " + " ".join("%d %d" % (k, h) for k, h in sorted(sc["hash"].items())) + "\n"
    if sc.get("pre"):
        t += "pre " + " ".join(sc["pre"]) + "\n"
    for p in sc["progs"]:
        t += "prog " + " ".join(p) + "\n"
    if sc.get("fault"):
        t += "fault %d %d %s %d\n" % tuple(sc["fault"])
    return t


# user functors of the harness -> fault kinds of the Lean models (`arm kind n`); the others are exercised by the monitors only
FAULT_KIND = {"sl": {"cmp": 1, "ctor": 3, "alloc": 4}, "uo": {"eq": 1, "hash": 2}}


def fault_modelled(sc, fault):
    """can the Lean model replay a run in which this fault fired?"""
    if not fault:
        return True
    t, oi, what, k = fault
    uo = sc["kind"] in UO_KINDS
    if what not in FAULT_KIND["uo" if uo else "sl"]:
        return False
    name = sc["progs"][t][oi].split(":")[0]
    if not modelled(sc["kind"], name) or name == "trav":
        return False
    if uo:
        return not (name == "cnt" and is_multi(sc["kind"]) and what == "eq")     # the equal_range tail is not modelled
    if what == "alloc" and k > 2:
        return False
    return True


def hash_of(sc, k):
    return sc.get("hash", {}).get(k, k) & M64


def modelled(kind, opname):
    """is the operation replayed on the model (otherwise its accesses - loads only - are skipped)"""
    if opname in ("ins", "emp", "find", "has", "trav"):
        return True
    if opname in SIZE_OPS:
        return kind in UO_KINDS
    if opname == "cnt":
        return kind in UO_KINDS or not is_multi(kind)    # unique containers: count = contains; unordered multi: prepare_bucket + unmodelled loads
    return False


def model_op(sc, w):
    kind = sc["kind"]
    f = w.split(":")
    name = f[0]
    if kind in UO_KINDS:
        if name in SIZE_OPS:
            return "%s:%s" % (name, f[1])
        if name in ("ins", "emp"):
            return "ins:%d:%s" % (hash_of(sc, int(f[1])), f[1])
        if name == "cnt" and is_multi(kind):
            return "touch:%d" % hash_of(sc, int(f[1]))
        if name in ("find", "has", "cnt"):
            return "find:%d:%s" % (hash_of(sc, int(f[1])), f[1])
        return "trav"
    if name in ("ins", "emp"):
        return "ins:%s:%s" % (f[1], f[2] if len(f) > 2 else "1")
    if name in ("find", "has", "cnt"):
        return "find:%s" % f[1]
    return "trav"


# ------------------------------------------------------------------------------------------------------
# harness output
# ------------------------------------------------------------------------------------------------------
def parse_runs(out):
    runs, cur = [], None
    for l in out.split("\n"):
        w = l.split()
        if not w:
            continue
        if w[0] == "run":
            cur = {"nodes": {}, "log": [], "res": {}, "fin": [], "mon": "", "sched": [], "aux": {}}
        elif cur is None:
            continue
        elif w[0] == "node":
            cur["nodes"][w[1]] = w[2:]
        elif w[0] == "e":
            cur["log"].append(("e", int(w[1]), w[2], w[3], w[4], w[5], w[6], w[7] if len(w) > 7 else ""))
        elif w[0] == "o":
            cur["log"].append(("o", int(w[1]), w[2], int(w[3])))
        elif w[0] == "x":
            cur["log"].append(("x", int(w[1]), w[2], int(w[3])))
        elif w[0] == "calls":
            cur.setdefault("calls", {})[(int(w[1]), int(w[2]))] = {kv.split("=")[0]: int(kv.split("=")[1]) for kv in w[3:]}
        elif w[0] == "fault":
            cur["fault"] = [int(w[1]), int(w[2]), w[3], int(w[4])]
            cur["fired"] = w[5] == "1"
        elif w[0] == "dead":
            cur["dead"] = w[1:]
        elif w[0] == "res":
            cur["res"][(int(w[1]), int(w[2]))] = w[3:]
        elif w[0] == "fin":
            cur["fin"] = w[1:]
        elif w[0] in ("bcfin", "maxhfin"):
            cur["aux"][w[0]] = w[1]
        elif w[0] == "obs":
            cur.setdefault("obs", []).append(" ".join(w[1:]))
        elif w[0] == "mon":
            cur["mon"] = " ".join(w[1:])
        elif w[0] == "sched":
            cur["sched"] = w[1:]
        elif w[0] == "end":
            runs.append(cur)
            cur = None
    return runs


UNMODELLED_VARS = re.compile(r"^(segtab|seg\d+|anon)$")
NODE_TOK = re.compile(r"^n(\d+)(\.next\d*)?$")

# minimum memory order per (access kind, variable class); stronger is fine
ORDER_RANK = {"rlx": 0, "cns": 1, "acq": 1, "rel": 1, "acqrel": 2, "sc": 3}
ORDER_NEED = {
    ("load", "next"): "acq", ("load", "slot"): "acq", ("load", "bc"): "acq", ("load", "maxh"): "acq", ("load", "headptr"): "acq",
    ("cas", "next"): "sc", ("cas", "slot"): "sc", ("cas", "bc"): "sc", ("cas", "maxh"): "sc", ("cas", "headptr"): "sc",
    ("store", "slot"): "rel", ("fadd", "size"): "rlx",
    # unordered: new.next is published with release; skip list: relaxed store, published by the seq_cst CAS that follows
    ("store", "next"): "rlx",
}


def var_class(v):
    if NODE_TOK.match(v):
        return "next"
    return re.sub(r"\d+$", "", v)


class Canon:
    """rename node ids by order of first appearance"""

    def __init__(self):
        self.m = {}

    def tok(self, t):
        mm = NODE_TOK.match(t)
        if not mm:
            return t
        n = mm.group(1)
        if n not in self.m:
            self.m[n] = str(len(self.m))
        return "N" + self.m[n] + (mm.group(2) or "")


def norm_event(kind, var, a, b, ok):
    """the part of an access that must agree between model and implementation"""
    if kind == "load":
        return (kind, var, a)
    if kind == "store":
        return (kind, var, a)
    return (kind, var, a, b, ok)


def replay_on_model(sc, run):
    """Feed one observed run to the Lean model.  Returns (None | description of the first disagreement, stats)."""
    kind = sc["kind"]
    uo = kind in UO_KINDS
    drvname = "c12so" if uo else "c12sk"
    lines = []
    if uo:
        lines.append("cfg %d %d %d" % (1 if is_multi(kind) else 0, sc.get("bc", 8), sc_mlf_bits(sc)))
    else:
        lines.append("cfg %d %d" % (1 if is_multi(kind) else 0, 32))
    T = len(sc["progs"])
    fault = run.get("fault") if run.get("fired") else None
    for ti, p in enumerate(sc["progs"]):
        mo = []
        for oi, w in enumerate(p):
            if not modelled(kind, w.split(":")[0]):
                continue
            if fault and fault[0] == ti and fault[1] == oi:
                mo.append("arm:%d:%d" % (FAULT_KIND["uo" if uo else "sl"][fault[2]], fault[3]))
            mo.append(model_op(sc, w))
        lines.append("prog " + " ".join(mo))
    if sc.get("pre"):
        lines.append("pre " + " ".join(model_op(sc, w) for w in sc["pre"]))
    nhead = len(lines)
    # which events go to the model
    skipping = {}
    evs = []
    skipped_loads = 0
    unmodelled_accesses = 0
    for rec in run["log"]:
        if rec[0] == "o":
            _, t, be, idx = rec
            name = sc["progs"][t][idx].split(":")[0]
            skipping[t] = (be == "b") and not modelled(kind, name)
            if be == "e" and uo and name == "cnt" and is_multi(kind):
                evs.append(("fin", t))
                lines.append("fin %d" % t)
            if be == "b" and uo and name == "mlf":
                # max_load_factor(f) is a plain store: no traced access; it happens right here in the global order
                evs.append(("silent", t))
                lines.append("s %d" % t)
            continue
        if rec[0] == "x":
            # the call that threw.  A comparator / key_equal call follows the load of the same model step (the model reports `threw`
            # with that access); the hasher, the element constructor and the allocation of the value node precede every access
            _, t, what, kk = rec
            if what in ("hash", "ctor") or (what == "alloc" and kk == 1):
                evs.append(("silent", t))
                lines.append("s %d" % t)
            continue
        _, t, k, var, a, b, ok, order = rec
        if UNMODELLED_VARS.match(var):
            unmodelled_accesses += 1
            continue
        if skipping.get(t):
            if k != "load":
                return "thread %d: unmodelled read-only operation performed a %s on %s" % (t, k, var), {}
            skipped_loads += 1
            continue
        evs.append(rec)
        lines.append("s %d" % t)
    lines.append("state")
    lines.append("nodes")
    out = drv(drvname, "\n".join(lines) + "\n")
    out = out[nhead:]
    ci, cm = Canon(), Canon()
    opidx = {t: 0 for t in range(T)}
    mops = {t: [i for i, w in enumerate(sc["progs"][t]) if modelled(kind, w.split(":")[0])] for t in range(T)}
    orders_bad = []

    linked_then = {}          # skip list: the model reports the link of an insert (`ins 1`) that the implementation left by an exception

    def check_result(t, mtxt):
        if mtxt.split() == ["threw"] and linked_then.pop(t, None):
            return None           # ... and this is the exception (after the level-0 link): one operation, two model reports
        if opidx[t] >= len(mops[t]):
            return "thread %d: model completed more operations than the program has" % t
        oi = mops[t][opidx[t]]
        opidx[t] += 1
        ires = run["res"].get((t, oi))
        if ires is None:
            return "thread %d op %d: model completed it (%s) but the implementation did not" % (t, oi, mtxt)
        mres = mtxt.split()
        name = ires[0]
        if len(ires) > 2 and ires[2] == "2" and name in ("ins", "emp") and mres == ["ins", "1"] and not uo:
            linked_then[t] = True
            return None
        if len(ires) > 2 and ires[2] == "2" and name != "trav" and name != "cnt" and name != "lb":
            return None if mres == ["threw"] else "thread %d op %d (%s): the implementation left the operation by the injected exception, model %s" % (t, oi, sc["progs"][t][oi], mtxt)
        if len(ires) > 2 and ires[2] == "2" and name == "cnt" and fault and fault[0] == t and fault[1] == oi:
            return None if mres == ["threw"] else "thread %d op %d (%s): the implementation left the operation by the injected exception, model %s" % (t, oi, sc["progs"][t][oi], mtxt)
        if mres == ["threw"]:
            return "thread %d op %d (%s): the model leaves the operation by an exception, the implementation returned %s" % (t, oi, sc["progs"][t][oi], " ".join(ires[2:]))
        if mres == ["touch"]:
            if not (name == "cnt" and uo and is_multi(kind)):
                return "thread %d op %d: model ran prepare_bucket only for a %s" % (t, oi, name)
            return None
        exp = None
        if name in ("ins", "emp"):
            exp = ["ins", ires[2]]
        elif name in ("find", "has"):
            exp = ["find", ires[2]]
        elif name == "cnt":
            exp = ["find", ires[2]]
        elif name == "trav":
            exp = ["trav"] + ires[2:]
        elif name == "rsv":
            exp = ["sized", "reserve"]
        elif name == "reh":
            exp = ["sized", "rehash"]
        elif name == "mlf":
            exp = ["sized", "mlf" if ires[2] == "1" else "mlf-rejected"]
        if mres != exp:
            return "thread %d op %d (%s): implementation result %s, model %s" % (t, oi, sc["progs"][t][oi], " ".join(ires[2:]), mtxt)
        return None

    for i, rec in enumerate(evs):
        if i >= len(out):
            return "model produced no output for event %d" % i, {}
        if rec[0] == "fin":
            continue
        if rec[0] == "silent":
            t = rec[1]
            parts = out[i].split(" | ")
            if parts[0] != "none" or len(parts) < 2:
                return "thread %d: an operation that performs no atomic access (max_load_factor(f), or an exception before the first access), model `%s`" % (t, out[i]), {}
            bad = check_result(t, parts[1])
            if bad:
                return bad, {}
            continue
        _, t, k, var, a, b, ok, order = rec
        if out[i] == "tail":
            if k != "load":
                return "thread %d: the read-only tail of count() performed a %s on %s" % (t, k, var), {}
            skipped_loads += 1
            continue
        parts = out[i].split(" | ")
        mw = parts[0].split()
        if len(mw) != 5:
            return "event %d of thread %d: implementation `%s %s %s %s %s`, model `%s`" % (i, t, k, var, a, b, ok, parts[0]), {}
        ie = norm_event(k, ci.tok(var), ci.tok(a), ci.tok(b), ok)
        me = norm_event(mw[0], cm.tok(mw[1]), cm.tok(mw[2]), cm.tok(mw[3]), mw[4])
        if ie != me:
            return "event %d of thread %d: implementation `%s %s %s %s %s`, model `%s` (canonical %s vs %s)" % (
                i, t, k, var, a, b, ok, parts[0], " ".join(ie), " ".join(me)), {}
        need = ORDER_NEED.get((k, var_class(var)))
        if need is None or ORDER_RANK.get(order, 0) < ORDER_RANK[need]:
            orders_bad.append("%s %s %s" % (k, var, order))
        if len(parts) > 1:
            # the model completed an operation: results must agree
            bad = check_result(t, parts[1])
            if bad:
                return bad, {}
    if linked_then:
        return "thread %d: the implementation left an insert by an exception after the link, the model completed it" % list(linked_then)[0], {}
    for t in range(T):
        if opidx[t] != len([oi for oi in mops[t] if (t, oi) in run["res"]]):
            return "thread %d: implementation completed %d modelled operations, model %d" % (
                t, len([oi for oi in mops[t] if (t, oi) in run["res"]]), opidx[t]), {}
    st = out[len(evs)] if len(evs) < len(out) else ""
    sm = re.match(r"chain ([\d ]*)\| (bc|maxh) (\d+) \| size (\d+) \| (nodes \d+|levels (\d))", st)
    if not sm:
        return "model state line unreadable: " + st, {}
    if sm.group(1).split() != run["fin"]:
        return "final contents: implementation %s, model %s" % (" ".join(run["fin"]), sm.group(1).strip()), {}
    aux = run["aux"].get("bcfin" if uo else "maxhfin")
    if aux is not None and aux != sm.group(3):
        return "final %s: implementation %s, model %s" % (sm.group(2), aux, sm.group(3)), {}
    # (an insert that is left by an exception after its node was linked does not count the element: my_size is one short)
    post_link = 1 if (fault and not uo and int(sm.group(4)) + 1 == len(run["fin"])) else 0
    if int(sm.group(4)) + post_link != len(run["fin"]):
        return "model size %s differs from the number of elements %d" % (sm.group(4), len(run["fin"])), {}
    if "ledger 1" not in st:
        return "model: a freed node is linked, or a node was freed twice (insert_throw_safe does not hold for the regenerated throw policy)", {}
    if not uo and sm.group(6) != "1":
        return "model: a level is not a sub-sequence of the level below", {}
    # the nodes that were identified with each other (by order of first appearance) must carry the same keys
    mnodes = {}
    for w in (out[len(evs) + 1].split() if len(evs) + 1 < len(out) else []):
        f = w.split(":")
        mnodes[f[0]] = f[1:]
    inv = {c: n for n, c in cm.m.items()}
    for n, c in ci.m.items():
        mn = inv.get(c)
        inode = run["nodes"].get(n)
        if mn is None or mn not in mnodes or (inode is None and n != "0"):
            return "node n%s of the implementation has no counterpart in the model" % n, {}
        if n == "0":
            if mn != "0":
                return "list head identified with model node %s" % mn, {}
            continue
        mk = mnodes[mn]
        # the allocator ledger: a node that appears in the trace is dead in the implementation iff the model has freed it
        idead = n in run.get("dead", [])
        mdead = mk[-1] == "1"
        if idead != mdead:
            return "node n%s: %s by the implementation during the run, %s by the model" % (
                n, "deallocated" if idead else "not deallocated", "freed" if mdead else "not freed"), {}
        if uo:
            same = inode[0] == mk[0] and (inode[1] == "-" or inode[1] == mk[1])
            if not same and not (inode[0] == REGKEY1 and mk[2] == "0"):      # failed emplace re-initialises its node
                return "node n%s: implementation key %s/%s, model key %s/%s" % (n, inode[0], inode[1], mk[0], mk[1]), {}
        else:
            if int(inode[0]) + 1 != int(mk[0]) or inode[1] != mk[1]:
                return "node n%s: implementation key %s height %s, model order key %s height %s" % (n, inode[0], inode[1], mk[0], mk[1]), {}
    return None, {"events": len(evs), "skipped_loads": skipped_loads, "unmodelled_accesses": unmodelled_accesses,
                  "orders_bad": orders_bad, "nodes": len(ci.m)}


def build(name):
    return cxx_build("C12", name, ["harness/c12/%s.cpp" % name, common.SHIM_SRC, STUBS],
                     flags=["-O1", "-g", "-fno-access-control"] + common.SHIM_FLAGS)


def exe_for(sc, exes):
    return exes["uo"] if sc["kind"] in UO_KINDS else exes["sl"]


def run_harness(exe, sc, mode, timeout=600):
    text = sc_text(sc)
    if mode[0] == "replay":
        # the schedule travels on stdin (it can be far longer than an argument list may be)
        text += "sched " + " ".join(mode[1].split(",")) + "\n"
        mode = ["replay", "-"]
    rc, out, err = sh([exe] + mode, input=text, timeout=timeout)
    return rc, out, err




# ------------------------------------------------------------------------------------------------------
# scenario generators (all randomness from ck.rng)
# ------------------------------------------------------------------------------------------------------
def rev64(x):
    return int("{:064b}".format(x & M64)[::-1], 2)


BOUNDARY_HASHES = [0, 1, 2, 3, 7, 8, 1 << 62, (1 << 62) + 1, 1 << 63, (1 << 63) + 1, M64, M64 - 1, (1 << 63) - 1, 1 << 32, (1 << 32) - 1]


def readers(rng, keys, n, multi, ordered):
    ops = []
    for _ in range(n):
        k = rng.choice(keys)
        r = rng.random()
        if r < 0.35:
            ops.append("find:%d" % k)
        elif r < 0.55:
            ops.append("has:%d" % k)
        elif r < 0.7:
            ops.append("cnt:%d" % k)
        elif r < 0.8 and ordered:
            ops.append("lb:%d" % k)
        else:
            ops.append("trav")
    return ops


def gen_uo(rng, family):
    if family == "dummyinit":
        return gen_dummyinit(rng)
    if family == "sizing":
        return gen_sizing(rng)
    kind = rng.choice(UO_KINDS)
    multi = is_multi(kind)
    T = rng.choice([2, 2, 3, 3, 4])
    sc = {"kind": kind, "family": family, "bc": 8, "mlf": (4, 1), "hash": {}, "pre": [], "progs": []}
    insw = lambda: rng.choice(["ins", "ins", "ins", "emp"])
    if family == "equal":
        keys = rng.sample(range(1, 40), rng.choice([1, 1, 2]))
        sc["bc"] = rng.choice([1, 2, 8])
        if rng.random() < 0.3:
            sc["pre"] = ["ins:%d" % rng.choice(keys)]
        for t in range(T):
            p = ["%s:%d" % (insw(), rng.choice(keys)) for _ in range(rng.randrange(1, 4))]
            if rng.random() < 0.6:
                p.insert(rng.randrange(len(p) + 1), readers(rng, keys, 1, multi, False)[0])
            sc["progs"].append(p)
    elif family == "adjacent":
        # order keys that are equal (hashes differ in bit 63 only, or are identical) or adjacent (differ in bit 62)
        base = rng.choice([0, 1, 5, 6, rng.getrandbits(20)])
        hs = [base, base ^ (1 << 63), base ^ (1 << 62), base ^ (1 << 62) ^ (1 << 63), base, base ^ (1 << 61)]
        keys = list(range(1, 1 + len(hs)))
        sc["hash"] = {k: h for k, h in zip(keys, hs)}
        sc["bc"] = rng.choice([1, 2, 8])
        sc["pre"] = ["ins:%d" % k for k in rng.sample(keys, rng.randrange(0, 3))]
        for t in range(T):
            p = ["%s:%d" % (insw(), rng.choice(keys)) for _ in range(rng.randrange(1, 4))]
            if rng.random() < 0.6:
                p.insert(rng.randrange(len(p) + 1), readers(rng, keys, 1, multi, False)[0])
            sc["progs"].append(p)
    elif family == "onebucket":
        b = rng.randrange(0, 8)
        keys = list(range(1, 9))
        const = rng.random() < 0.35
        sc["hash"] = {k: (b if const else b + (rng.getrandbits(30) << 24)) for k in keys}
        sc["bc"] = rng.choice([2, 8])
        sc["mlf"] = rng.choice([(4, 1), (1, 1)])
        sc["pre"] = ["ins:%d" % k for k in rng.sample(keys, rng.randrange(0, 4))]
        for t in range(T):
            p = ["%s:%d" % (insw(), rng.choice(keys)) for _ in range(rng.randrange(1, 4))]
            if rng.random() < 0.6:
                p.insert(rng.randrange(len(p) + 1), readers(rng, keys, 1, multi, False)[0])
            sc["progs"].append(p)
    elif family == "doubling":
        sc["bc"] = rng.choice([1, 1, 2])
        sc["mlf"] = rng.choice([(1, 1), (1, 2), (2, 1)])
        npre = rng.randrange(0, 7)
        universe = list(range(1, 64))
        pre = rng.sample(universe, npre)
        sc["pre"] = ["ins:%d" % k for k in pre]
        if rng.random() < 0.3:
            sc["hash"] = {k: rng.getrandbits(64) for k in universe}
        keys = pre + rng.sample(universe, 6)
        for t in range(T):
            if t == T - 1 and rng.random() < 0.5:
                sc["progs"].append(readers(rng, keys, rng.randrange(1, 4), multi, False))
            else:
                sc["progs"].append(["%s:%d" % (insw(), rng.choice(keys)) for _ in range(rng.randrange(2, 6))])
    else:  # random
        universe = list(range(1, 12))
        sc["hash"] = {k: rng.choice(BOUNDARY_HASHES + [rng.getrandbits(64), rng.getrandbits(8)]) for k in universe}
        sc["bc"] = rng.choice([1, 2, 4, 8])
        sc["mlf"] = rng.choice([(4, 1), (1, 1), (1, 2)])
        sc["pre"] = ["ins:%d" % k for k in rng.sample(universe, rng.randrange(0, 4))]
        for t in range(T):
            p = []
            for _ in range(rng.randrange(1, 5)):
                if rng.random() < 0.6:
                    p.append("%s:%d" % (insw(), rng.choice(universe)))
                else:
                    p += readers(rng, universe, 1, multi, False)
            sc["progs"].append(p)
    return sc


def msb(b):
    return 1 << (b.bit_length() - 1)


LOAD_FACTORS = [0.5, 1.0, 1.5, 2.0, 3.0, 4.0, 7.3, 0.75, 2.5, 5.0, 6.0, 10.0]


def gen_dummyinit(rng, nthreads=None):
    """One thread performs the FIRST access to bucket b (its parent p is initialised, b is not) while 2-3 others insert regular
    nodes whose order keys lie between dummy(p) and dummy(b) (hashes congruent to p modulo 2*msb(b)): the window between
    insert_dummy_node's search and its CAS."""
    kind = rng.choice(UO_KINDS)
    multi = is_multi(kind)
    bcx = rng.choice([4, 8, 8, 16])
    b = rng.randrange(1, bcx)
    p = b - msb(b)
    mod = 2 * msb(b)
    T = nthreads or rng.choice([3, 3, 4])
    sc = {"kind": kind, "family": "dummyinit", "bc": bcx, "mlf": rng.choice([(4, 1), (4, 1), (16, 1), (1, 1)]), "hash": {}, "pre": [], "progs": []}
    key = [100]

    def newkey(h):
        key[0] += 1
        sc["hash"][key[0]] = h
        return key[0]
    between = lambda: p + mod * rng.choice([0, 1, 2, 3, rng.getrandbits(8), rng.getrandbits(40), rng.getrandbits(60)])
    inb = lambda: b + bcx * rng.choice([0, 1, 2, rng.getrandbits(8), rng.getrandbits(50)])
    # initialise the parent without touching b: a lookup (no element) or an element of the parent's bucket
    k0 = newkey(p + bcx * rng.choice([0, 1, 5]))
    sc["pre"] = [rng.choice(["find:%d", "find:%d", "ins:%d"]) % k0]
    if rng.random() < 0.3:
        sc["pre"].append("ins:%d" % newkey(between()))
    kb = newkey(inb())
    ikeys = [newkey(between()) for _ in range(T - 1)]
    if rng.random() < 0.25 and not multi:
        ikeys[-1] = ikeys[0]                   # two interferers race on one key as well
    first = rng.choice(["ins:%d", "ins:%d", "emp:%d", "find:%d", "has:%d"]) % kb
    p0 = [first] + ["find:%d" % k for k in rng.sample(ikeys, min(2, len(ikeys)))]
    if rng.random() < 0.5:
        p0.append("ins:%d" % kb)
    sc["progs"].append(p0)
    for i in range(T - 1):
        pr = ["%s:%d" % (rng.choice(["ins", "ins", "emp"]), ikeys[i])]
        r = rng.random()
        if r < 0.3:
            pr.append("find:%d" % rng.choice(ikeys))
        elif r < 0.5:
            pr.append("ins:%d" % newkey(rng.choice([between(), inb()])))
        elif r < 0.6:
            pr.append("trav")
        sc["progs"].append(pr)
    return sc


def gen_sizing(rng):
    """reserve / rehash / max_load_factor(f) before (pre) and between (inside the thread programs) concurrent inserts; identity hash"""
    kind = rng.choice(UO_KINDS)
    multi = is_multi(kind)
    T = rng.choice([2, 3, 3])
    f = rng.choice(LOAD_FACTORS)
    sc = {"kind": kind, "family": "sizing", "bc": rng.choice([1, 2, 8, 8]), "mlf": (4, 1), "hash": {}, "pre": [], "progs": []}
    universe = rng.sample(range(1, 6000), 24)
    big = lambda: rng.choice([rng.randrange(5, 200), rng.randrange(200, 1500), 1000, 100, 341, 683, 1365])
    pre = ["mlf:%d" % f32_bits(f)]
    pre.append(rng.choice(["rsv:%d", "rsv:%d", "reh:%d"]) % big())
    pre += ["ins:%d" % k for k in rng.sample(universe, rng.randrange(0, 6))]
    if rng.random() < 0.3:
        pre.append("rsv:%d" % big())
    sc["pre"] = pre
    for t in range(T):
        pr = []
        for _ in range(rng.randrange(2, 6)):
            r = rng.random()
            if r < 0.55:
                pr.append("%s:%d" % (rng.choice(["ins", "ins", "emp"]), rng.choice(universe)))
            elif r < 0.8:
                pr += readers(rng, universe, 1, multi, False)
            elif r < 0.9:
                pr.append(rng.choice(["rsv:%d", "reh:%d"]) % big())
            elif t == 0:
                pr.append("mlf:%d" % f32_bits(rng.choice(LOAD_FACTORS)))
            else:
                pr.append("ins:%d" % rng.choice(universe))
        sc["progs"].append(pr)
    return sc



def gen_sl(rng, family):
    kind = rng.choice(SL_KINDS)
    multi = is_multi(kind)
    T = rng.choice([2, 2, 3, 3, 4])
    sc = {"kind": kind, "family": family, "pre": [], "progs": []}
    insw = lambda: rng.choice(["ins", "ins", "ins", "emp"])
    hgt = lambda: rng.choice([1, 1, 1, 2, 2, 3, 4])
    if family == "equal":
        keys = rng.sample(range(1, 30), rng.choice([1, 1, 2]))
        if rng.random() < 0.5:
            sc["pre"] = ["ins:%d:%d" % (rng.randrange(0, 40), hgt()) for _ in range(rng.randrange(1, 4))]
        for t in range(T):
            p = ["%s:%d:%d" % (insw(), rng.choice(keys), hgt()) for _ in range(rng.randrange(1, 4))]
            if rng.random() < 0.6:
                p.insert(rng.randrange(len(p) + 1), readers(rng, keys, 1, multi, True)[0])
            sc["progs"].append(p)
    elif family == "tall":
        # neighbouring keys with tall nodes: upper-level CAS failures and re-finds; lookups through tall nodes
        keys = list(range(10, 10 + rng.choice([3, 4, 6])))
        sc["pre"] = ["ins:%d:%d" % (k, rng.choice([2, 3, 4, 5])) for k in rng.sample([1, 5, 20, 30] + keys, rng.randrange(1, 4))]
        for t in range(T):
            if t == T - 1 and rng.random() < 0.5:
                present = [int(w.split(":")[1]) for w in sc["pre"]]
                sc["progs"].append(readers(rng, present + keys, rng.randrange(1, 4), multi, True))
            else:
                sc["progs"].append(["%s:%d:%d" % (insw(), rng.choice(keys), rng.choice([2, 3, 3, 4, 5])) for _ in range(rng.randrange(1, 4))])
    elif family == "maxheight":
        keys = list(range(1, 8))
        sc["pre"] = ["ins:%d:%d" % (rng.choice(keys), rng.choice([1, 31, 32]))] if rng.random() < 0.5 else []
        for t in range(T):
            sc["progs"].append(["%s:%d:%d" % (insw(), rng.choice(keys), rng.choice([1, 2, 30, 31, 32])) for _ in range(rng.randrange(1, 3))] +
                               (readers(rng, keys, 1, multi, True) if rng.random() < 0.5 else []))
    else:  # random
        universe = list(range(0, 10))
        sc["pre"] = ["ins:%d:%d" % (rng.choice(universe), hgt()) for _ in range(rng.randrange(0, 5))]
        for t in range(T):
            p = []
            for _ in range(rng.randrange(1, 5)):
                if rng.random() < 0.6:
                    p.append("%s:%d:%d" % (insw(), rng.choice(universe), hgt()))
                else:
                    p += readers(rng, universe, 1, multi, True)
            sc["progs"].append(p)
    return sc


# hand-written scenarios that aim at the dangerous windows (also the DFS corpus)
CORPUS = [
    {"kind": "uset", "family": "corpus", "bc": 2, "mlf": (4, 1), "progs": [["ins:5", "find:5"], ["ins:5", "find:5"]]},
    {"kind": "uset", "family": "corpus", "bc": 1, "mlf": (1, 1), "pre": ["ins:1"], "progs": [["ins:3", "find:1"], ["ins:2", "trav"]]},
    {"kind": "umset", "family": "corpus", "bc": 2, "mlf": (4, 1), "hash": {1: 6, 2: 6, 3: 6}, "pre": ["ins:1"], "progs": [["ins:1", "ins:2"], ["ins:2", "cnt:1"], ["trav"]]},
    {"kind": "umap", "family": "corpus", "bc": 2, "mlf": (1, 1), "hash": {1: 4, 2: (1 << 63) + 4, 3: (1 << 62) + 4}, "progs": [["ins:1", "ins:3"], ["ins:2", "find:1"], ["emp:1", "has:2"]]},
    # bucket-initialisation race: first access to bucket 6 (parent 2) vs. two / three inserts directly behind dummy(2)
    {"kind": "uset", "family": "corpus", "bc": 8, "mlf": (4, 1), "pre": ["find:2"], "progs": [["ins:6", "find:10"], ["ins:2"], ["ins:10"]]},
    {"kind": "umset", "family": "corpus", "bc": 8, "mlf": (4, 1), "pre": ["find:2"], "progs": [["has:6", "cnt:18"], ["ins:18"], ["ins:10"], ["ins:2"]]},
    # sizing calls before and between concurrent inserts (max_load_factor 3, reserve(100) -> 64 buckets, rehash while inserting)
    {"kind": "uset", "family": "corpus", "bc": 8, "mlf": (4, 1), "pre": ["mlf:%d" % f32_bits(3.0), "rsv:100", "ins:77"],
     "progs": [["ins:341", "find:77", "reh:300"], ["ins:682", "rsv:1000", "find:341"]]},
    {"kind": "oset", "family": "corpus", "pre": ["ins:10:2"], "progs": [["ins:5:2", "find:10"], ["ins:5:1", "ins:7:2"]]},
    {"kind": "oset", "family": "corpus", "pre": ["ins:1:2", "ins:7:1"], "progs": [["ins:5:2"], ["find:7", "lb:7"]]},
    {"kind": "omset", "family": "corpus", "pre": ["ins:4:3"], "progs": [["ins:4:2", "ins:4:3"], ["ins:4:3", "cnt:4"], ["trav"]]},
    {"kind": "omap", "family": "corpus", "progs": [["ins:3:3", "find:2"], ["ins:2:3", "find:3"], ["ins:4:2", "lb:3"]]},
]

UO_FAMILIES = ["equal", "adjacent", "onebucket", "doubling", "random", "dummyinit", "sizing"]
# scenarios that are swept (hold thread 0 at every scheduling point while the others complete) and DFS-explored with 2 preemptions
SWEEP_CORPUS = [
    {"kind": "uset", "family": "sweep", "bc": 8, "mlf": (4, 1), "pre": ["find:2"], "progs": [["ins:6", "find:10", "find:2"], ["ins:2"], ["ins:10"]]},
    {"kind": "uset", "family": "sweep", "bc": 8, "mlf": (4, 1), "pre": ["find:2"], "progs": [["find:6", "has:18"], ["ins:2"], ["ins:10"], ["ins:18"]]},
    {"kind": "ummap", "family": "sweep", "bc": 4, "mlf": (4, 1), "pre": ["ins:1"], "progs": [["ins:3", "cnt:5"], ["ins:5"], ["ins:9", "find:5"]]},
    {"kind": "umap", "family": "sweep", "bc": 16, "mlf": (4, 1), "hash": {1: 4, 2: 4 + 32, 3: 4 + 16 + 64, 4: 12, 5: 4 + (1 << 40)}, "pre": ["find:1"],
     "progs": [["emp:4", "find:2", "find:3"], ["ins:2"], ["ins:3"], ["emp:5"]]},
]
SL_FAMILIES = ["equal", "tall", "maxheight", "random"]


# ------------------------------------------------------------------------------------------------------
# E-GEN / E-PURE
# ------------------------------------------------------------------------------------------------------
def gen(ck):
    exe = cxx_build("C12", "consts", ["harness/c12/consts.cpp", STUBS], flags=["-O0", "-fno-access-control"])
    rc, out, err = sh([exe], timeout=60)
    if rc != 0:
        raise BuildError("consts harness failed: " + err[-500:])
    c = json.loads(out)
    ck.extra["generated_constants"] = c
    body, obl, info = c12gen.generate(REPO)
    gen_write("C12", "set_option linter.unusedVariables false\n" + "".join("def %s : Nat := %d\n" % (k, v) for k, v in sorted(c.items())) + body,
              imports=("TbbVerif.Core.Cint", "TbbVerif.Model.C12F32"))
    ck.oblige("gen:constants regenerated from the headers", "generated", True, json.dumps(c))
    ck.extra["generated_sizing"] = info["defs"]
    ck.extra["bucket_count_writers"] = info["writers"]
    for what, ok, detail in obl:
        ck.oblige("gen:%s matches the statement shape the model transcribes (expressions regenerated)" % what, "generated", ok, detail)
    return c


def pure(ck):
    rng = ck.rng
    exe = cxx_build("C12", "pure", ["harness/c12/pure.cpp", STUBS], flags=["-O1", "-g", "-fno-access-control", "-fsanitize=address,undefined", "-fno-sanitize-recover=all"])
    lines = []
    small = 1 << (10 if ck.tier == "quick" else 13)
    for x in range(small):
        for f in ("rev", "reg", "dum", "par"):
            lines.append("%s %d" % (f, x))
    for w in range(1, 9 if ck.tier == "quick" else 12):
        for x in range(1 << w):
            lines.append("revn %d %d" % (w, x))
    vals = set(BOUNDARY_HASHES)
    for k in range(64):
        for d in (-1, 0, 1):
            vals.add(((1 << k) + d) & M64)
            vals.add((M64 - (1 << k) + d) & M64)
    for _ in range(4000 if ck.tier == "quick" else 60000):
        r = rng.random()
        if r < 0.4:
            vals.add(rng.getrandbits(64))
        elif r < 0.7:
            vals.add(rng.getrandbits(rng.randrange(1, 65)))
        else:
            vals.add((rng.getrandbits(12) << rng.randrange(0, 53)) & M64)
    for x in sorted(vals):
        for f in ("rev", "reg", "dum", "par"):
            lines.append("%s %d" % (f, x))
        lines.append("revn %d %d" % (rng.randrange(1, 65), x))
        lines.append("chk %d %d" % (x, rng.randrange(0, 64)))
    for x in range(1 << 9):
        for k in range(0, 11):
            lines.append("chk %d %d" % (x, k))
    lines += ["rev", "foo 1", "rev x", "revn 0 1", "revn 65 1"]
    text = "\n".join(lines) + "\n"
    rc, out, err = sh([exe], input=text, timeout=600)
    if rc != 0:
        ck.oblige("corr:pure reverse_bits/order keys/get_parent", "correspondence", False, "harness rc=%d %s" % (rc, err[-400:]))
        return
    a = out.split("\n")[:-1]
    b = drv("c12pure", text)
    d = first_diff(a, b)
    ck.count(len(lines), None)
    for x in sorted(vals)[:3]:
        ck.distinct.add(("pure", x))
    ck.extra["pure_inputs"] = len(lines)
    ck.distinct.update(("pure", l) for l in lines[:: max(1, len(lines) // 400)])
    ck.oblige("corr:pure reverse_bits / reverse_n_bits / split_order_key_regular / split_order_key_dummy / get_parent agree with the model",
              "correspondence", d is None, "" if d is None else "input `%s`: implementation %s, model %s" % (lines[d], a[d] if d < len(a) else "-", b[d] if d < len(b) else "-"))
    # is the PROPERTY affected?  `chk` evaluates the facts of split_order_bucket_entry with the implementation's own functions
    # (dummy key even and below the regular keys of its bucket, parent below child); a different-but-harmless function is
    # only a broken correspondence
    for i, l in enumerate(lines):
        if l.startswith("chk ") and i < len(a) and a[i].startswith("bad "):
            _, x, k = l.split()
            ck.counterexample("pure:chk:%s" % a[i][4:], "hash %s, table size 2^%s: the implementation's own split-order keys violate `%s` (split_order_bucket_entry)" % (x, k, a[i][4:]),
                              {"engine": "E-PURE", "input": l, "impl": a[i], "model": "ok"})
            break



# ------------------------------------------------------------------------------------------------------
# E-PURE: table sizing (bucket count as a function of constructor argument / inserts / reserve / rehash / max_load_factor)
# ------------------------------------------------------------------------------------------------------
SZ_FLAGS = ["-O1", "-g", "-fno-access-control"]


def f32_val(x):
    return struct.unpack("<f", struct.pack("<f", x))[0]


def is_pow2(v):
    return v > 0 and v & (v - 1) == 0


def sizing_lines(rng, quick):
    B4 = f32_bits(4.0)
    lines = []
    fs = [0.5, 1.0, 1.5, 2.0, 3.0, 4.0, 7.3, 0.1, 0.75, 10.0, 100.0, 1e-3, 1000.5, 0.3333, 12345.678, 2.9999998, 3.0000002]
    if not quick:
        fs += [f32_val(rng.uniform(0.01, 50)) for _ in range(40)]
    for f in fs:
        fb, fv = f32_bits(f), f32_val(f)
        ns = set()
        for j in range(0, 44):
            x = int((2 ** j) * fv)
            for d in (-1, 0, 1, 2):
                ns.add(max(0, x + d))
        ns = sorted(ns)
        for n in ns:
            lines.append("seq 8 %d m%d r%d" % (B4, fb, n))
        for n0 in (0, 1, 3, 5, 16, 1000):
            for n in rng.sample(ns, 12 if quick else 40):
                lines.append("seq %d %d r%d h%d r%d" % (n0, fb, n, rng.choice(ns), rng.choice(ns)))
        # growth by inserts: chunks ending at / just after the doubling thresholds
        th = sorted(set(max(1, int(2 ** j * fv) + d) for j in range(0, 14) for d in (0, 1, 2) if 2 ** j * fv < 5000))
        ops, cur = [], 0
        for k in th:
            if cur < k < 6000:
                ops.append("i%d" % (k - cur))
                cur = k
        for n0 in (1, 2, 8):
            lines.append("seq %d %d %s" % (n0, fb, " ".join(ops)))
    edge = [0, 1, 2, 3, 4, 5, 7, 8, 9, 15, 16, 17, 31, 33, 100, 341, 1000, 1023, 1024, 1025] + \
           [2 ** k + d for k in (16, 24, 31, 32, 33, 40, 53, 62, 63) for d in (-1, 0, 1)] + [2 ** 64 - 1, 2 ** 64 - 2]
    for n in edge:
        lines.append("seq %d %d h%d" % (n, B4, rng.choice(edge)))
        lines.append("seq 8 %d h%d h%d" % (B4, n, rng.choice(edge)))
        lines.append("seq 8 %d r%d" % (f32_bits(1.0), n))
        lines.append("seq %d %d r%d i3" % (rng.choice(edge[:20]), f32_bits(rng.choice(fs[:7])), n))
    for n in [2 ** 24 + 1, 2 ** 24 + 2, 2 ** 24 + 3, 2 ** 25 + 2, 2 ** 25 + 3, 3 * 2 ** 24 + 1, 2 ** 31 + 129, 2 ** 40 + 2 ** 16 + 1]:
        for f in (1.0, 3.0, 1.5):
            lines.append("seq 8 %d r%d" % (f32_bits(f), n))
            lines.append("seq %d %d r%d" % (n, f32_bits(f), n + 1))
    # special load factors: 0, denormals, huge, inf, NaN, negative, -0
    for fb in [0, 1, f32_bits(1e-45), f32_bits(1e-30), 0x7f800000, 0x7fc00000, f32_bits(-1.0), 0x80000000, 0xff800000, 0x7f7fffff, 0x00800000]:
        lines.append("seq 8 %d m%d i5 h100 i40" % (B4, fb))
        lines.append("seq 8 %d m%d r0 r1 r100" % (B4, fb))
        lines.append("seq 2 %d i3 m%d r7 i9 m%d i30" % (B4, fb, f32_bits(2.0)))
    for _ in range(300 if quick else 4000):
        ops, ins = [], 0
        for _ in range(rng.randrange(1, 9)):
            r = rng.random()
            if r < 0.35 and ins < 4000:
                k = rng.choice([1, 2, 3, rng.randrange(1, 40), rng.randrange(1, 1200)])
                ins += k
                ops.append("i%d" % k)
            elif r < 0.6:
                ops.append("r%d" % rng.choice([rng.randrange(0, 50), rng.randrange(0, 5000), rng.choice(edge[:38]), 1000]))
            elif r < 0.8:
                ops.append("h%d" % rng.choice([rng.randrange(0, 50), rng.randrange(0, 5000), rng.choice(edge)]))
            else:
                ops.append("m%d" % f32_bits(rng.choice(fs + [rng.uniform(0.05, 20)])))
        lines.append("seq %d %d %s" % (rng.choice(edge[:24]), f32_bits(rng.choice(fs)), " ".join(ops)))
    lines += ["seq", "seq 8", "seq x 1 i1", "seq 8 %d q1" % B4, "seq 8 %d i" % B4, "seq 18446744073709551616 %d" % B4, "seq 8 4294967296"]
    return lines


def pure_sizing(ck):
    rng = ck.rng
    quick = ck.tier == "quick"
    exe = cxx_build("C12", "sz", ["harness/c12/sz.cpp", STUBS], flags=SZ_FLAGS)
    lines = sizing_lines(rng, quick)
    model = drv("c12sz", "\n".join(lines) + "\n")
    send, idx, hangs, wraps = [], [], [], []
    for i, l in enumerate(lines):
        mo = model[i] if i < len(model) else ""
        toks = mo.split()
        if "hang" in toks:
            hangs.append(l)
        elif any(t.rstrip("!") == "0" for t in toks):
            wraps.append(l)            # the implementation would divide by zero on the next operation
        else:
            send.append(l)
            idx.append(i)
    rc, out, err = sh([exe], input="\n".join(send) + "\n", timeout=900)
    a = out.split("\n")[:-1]
    detail, bad_line = "", None
    if rc != 0:
        detail = "harness rc=%d %s" % (rc, err[-300:])
    else:
        d = first_diff(a, [model[i] for i in idx])
        if d is not None:
            bad_line = send[d] if d < len(send) else "?"
            detail = "input `%s`: implementation `%s`, model `%s`" % (bad_line, a[d] if d < len(a) else "-", model[idx[d]] if d < len(idx) else "-")
    ck.count(len(send), None)
    ck.distinct.update(("sz", l) for l in send[:: max(1, len(send) // 300)])
    ck.extra["sizing_inputs"] = {"sequences": len(send), "model_says_reserve_does_not_return": len(hangs), "model_says_count_wraps_to_0": len(wraps),
                                 "samples": [{"input": send[i], "bucket_counts": a[i]} for i in range(0, min(len(a), len(send)), max(1, len(send) // 4))][:4]}
    ck.oblige("corr:my_bucket_count of the real container after the constructor and after every insert batch / reserve / rehash / max_load_factor call "
              "equals the Lean sizing model built from the generated expressions (load factors 0.5..12345.678 and specials x boundary values of n)",
              "correspondence", rc == 0 and not detail, detail)
    # property monitor on the implementation, independent of the model
    viol = None
    for l, o in zip(send, a):
        for t in o.split():
            t = t.rstrip("!")
            if t.isdigit() and not is_pow2(int(t)):
                viol = (l, o, t)
                break
        if viol:
            break
    ck.oblige("monitor:my_bucket_count is a power of two after every sizing call (real container, white-box)", "correspondence", viol is None,
              "" if viol is None else "input `%s`: bucket counts `%s`" % (viol[0], viol[1]))
    if viol:
        # shrink: shortest prefix of the op sequence that still shows a bad count
        w = viol[0].split()
        ops = w[3:]
        best = viol[0]
        for n in range(1, len(ops) + 1):
            cand = " ".join(w[:3] + ops[:n])
            r2, o2, _ = sh([exe], input=cand + "\n", timeout=120)
            if r2 == 0 and any(t.rstrip("!").isdigit() and not is_pow2(int(t.rstrip("!"))) for t in o2.split()):
                best = cand
                break
        ck.counterexample("sizing:bucket-count-not-power-of-two", "`%s` (constructor argument, initial load-factor bits, calls): my_bucket_count becomes %s, not a "
                          "power of two — bucket b = hash %% count then has a dummy key that can exceed the keys of its elements" % (best, viol[2]),
                          {"engine": "E-PURE-SZ", "input": best})
    elif detail and bad_line:
        ck.extra["sizing_divergence"] = detail
    # observations (not obligations): arguments for which the code does not return / wraps the count
    obs = []
    for what, line, tmo in [("reserve(1) with max_load_factor(0) never returns (necessary_bucket_count * 0 < 1 for ever)", "seq 8 %d m0 r1" % f32_bits(4.0), 4),
                            ("max_load_factor(1e-30f): 61 inserts double my_bucket_count out of the 64-bit word; it is 0 afterwards and the next "
                             "operation computes hash % 0", "seq 8 %d i59 i1 i1" % f32_bits(1e-30), 60),
                            ("rehash(2^63 + 1) SHRINKS the table to 1 bucket (round_up_to_power_of_two overflows)", "seq 1024 %d h9223372036854775809" % f32_bits(4.0), 60)]:
        mo = drv("c12sz", line + "\n")[0]
        try:
            r2, o2, _ = sh([exe], input=line + "\n", timeout=tmo)
            o2 = o2.strip() if r2 == 0 else ("no answer within %d s" % tmo if r2 in (-9, 124, 137) else "rc=%d" % r2)
        except Exception:
            o2 = "no answer within %d s" % tmo
        obs.append({"what": what, "input": line, "model": mo, "implementation": o2})
    ck.extra["sizing_observations"] = obs
    agree = all((o["model"].endswith("hang") and o["implementation"].startswith("no answer")) or o["model"] == o["implementation"] for o in obs)
    ck.oblige("corr:sizing edge cases (reserve that never returns, count wrapped to 0, rehash beyond 2^63) behave as the model says", "correspondence", agree,
              "" if agree else json.dumps(obs)[:600])


def pure_f32(ck):
    """binary32 arithmetic of the model (F32) against the hardware floats of the harness"""
    rng = ck.rng
    exe = cxx_build("C12", "sz", ["harness/c12/sz.cpp", STUBS], flags=SZ_FLAGS)
    special = [0, 1, 0x7f800000, 0x7f7fffff, 0x00800000, 0x007fffff, 0x3f800000, 0x40400000, 0x40e9999a, 0x3f000000, 0x4b800000, 0x5f000000]

    def rb():
        r = rng.random()
        if r < 0.15:
            return rng.choice(special)
        if r < 0.5:
            return rng.getrandbits(31) % 0x7f800000
        return (rng.choice([0, 1, 2, 100, 126, 127, 128, 150, 151, 190, 200, 253, 254]) << 23) | rng.getrandbits(23)
    lines = []
    for _ in range(4000 if ck.tier == "quick" else 60000):
        a, b = rb(), rb()
        lines += ["mul %d %d" % (a, b), "div %d %d" % (a, b), "lt %d %d" % (a, b), "le %d %d" % (a, b), "eq %d %d" % (a, a if rng.random() < 0.2 else b)]
        n = rng.choice([rng.getrandbits(64), rng.getrandbits(rng.randrange(1, 65)), (1 << rng.randrange(64)) + rng.choice([-1, 0, 1, 3])])
        n = max(0, min(n, 2 ** 64 - 1))
        lines += ["of %d" % n, "muln %d %d" % (n, b)]
        c = (rng.randrange(100, 189) << 23) | rng.getrandbits(23)
        lines.append("ton %d" % c)
    lines += ["mul 1", "foo 1 2", "of x", "mul 4294967296 1"]
    text = "\n".join(lines) + "\n"
    rc, out, err = sh([exe], input=text, timeout=600)
    a = out.split("\n")[:-1]
    b = drv("c12f32", text)
    d = first_diff(a, b) if rc == 0 else 0
    ck.count(len(lines), None)
    ck.distinct.update(("f32", l) for l in lines[:: max(1, len(lines) // 200)])
    ck.oblige("corr:binary32 multiply / divide / compare / conversions of the model (F32) agree with the hardware floats", "correspondence",
              rc == 0 and d is None, "" if (rc == 0 and d is None) else "input `%s`: implementation %s, model %s" % (
                  lines[d] if d < len(lines) else "?", a[d] if d < len(a) else "-", b[d] if d < len(b) else "-"))


# ------------------------------------------------------------------------------------------------------
# E-SHIM
# ------------------------------------------------------------------------------------------------------
def mon_key(sc, mon):
    txt = re.sub(r"\d+", "#", mon.replace("VIOLATION ", ""))
    txt = re.sub(r"[^A-Za-z#()_-]+", "-", txt).strip("-")[:70]
    return "%s:%s" % (sc["kind"], txt or "?")


def shrink_schedule(exe, sc, sched):
    """shortest prefix of the schedule (continued non-preemptively) on which a monitor still fires"""
    def fails(pref):
        rc, out, err = run_harness(exe, sc, ["replay", ",".join(pref)], timeout=120)
        rs = parse_runs(out)
        return (rc != 0), (rs[-1] if rs else None)
    ok, r = fails(sched)
    if not ok:
        return sched, None
    lo, hi = 0, len(sched)
    best = r
    while lo < hi:
        mid = (lo + hi) // 2
        f, r = fails(sched[:mid])
        if f:
            hi = mid
            best = r or best
        else:
            lo = mid + 1
    return sched[:hi], best


def report_failure(ck, exes, sc, r, how):
    exe = exe_for(sc, exes)
    sched = r.get("sched", [])
    mon = r.get("mon", "")
    if sched:
        s2, r2 = shrink_schedule(exe, sc, sched)
        if r2 is not None:
            sched, mon = s2, r2["mon"] or mon
    ck.counterexample(mon_key(sc, mon), "%s [%s, %s]: %s | threads %s | pre %s%s | schedule %s" % (
        sc["kind"], sc.get("family"), how, mon, sc["progs"], sc.get("pre", []),
        (" | fault: call %d of the %s functor in operation %d of thread %d throws" % (sc["fault"][3], sc["fault"][2], sc["fault"][1], sc["fault"][0])) if sc.get("fault") else "",
        " ".join(sched)),
        {"engine": "E-SHIM", "harness": "uo" if sc["kind"] in UO_KINDS else "sl", "scenario": sc, "schedule": sched,
         "mode": r.get("mode"), "monitor": mon})


def dummy_cas_stats(run, stats):
    """failed CAS of insert_dummy_node: how many nodes did the retry have to walk past (= interfering inserts behind the predecessor)"""
    last_store = {}
    counting = {}
    for e in run["log"]:
        if e[0] != "e":
            continue
        _, t, k, var, a, b, ok, order = e
        mm = NODE_TOK.match(var)
        if k == "store":
            if t in counting:
                w = max(0, counting.pop(t) - 1)
                stats["dummy_retry_walk_max"] = max(stats["dummy_retry_walk_max"], w)
                if w >= 2:
                    stats["dummy_retry_walked_2plus"] += 1
            last_store[t] = mm.group(1) if mm and mm.group(2) else None
        elif k == "cas" and mm and mm.group(2) and ok == "0":
            n = last_store.get(t)
            if n is not None and run["nodes"].get(n, ["", "", ""])[2] == "d":
                stats["dummy_cas_failures"] += 1
                counting[t] = 0
        elif k == "load" and mm and mm.group(2) and t in counting:
            counting[t] += 1
    for t, c in counting.items():
        w = max(0, c - 1)
        stats["dummy_retry_walk_max"] = max(stats["dummy_retry_walk_max"], w)
        if w >= 2:
            stats["dummy_retry_walked_2plus"] += 1


def account_run(ck, sc, r, st, stats):
    stats["events"] += st["events"]
    stats["skipped_loads"] += st["skipped_loads"]
    stats["unmodelled_accesses"] += st["unmodelled_accesses"]
    for o in st["orders_bad"]:
        stats["orders_bad"].add(o)
    casf = sum(1 for e in r["log"] if e[0] == "e" and e[2] == "cas" and e[6] == "0")
    for e in r["log"]:
        if e[0] != "e":
            continue
        if e[2] == "cas" and e[3] == "bc" and e[6] == "1":
            stats["table_doublings"] += 1
        elif e[2] == "store" and e[3].startswith("slot"):
            stats["bucket_inits"] += 1
        elif e[2] == "cas" and e[6] == "0" and re.search(r"\.next[1-9]\d*$", e[3]):
            stats["upper_level_cas_failures"] += 1
        elif e[2] == "cas" and e[3] == "maxh":
            stats["max_height_cas"] += 1
    if sc["kind"] in UO_KINDS:
        dummy_cas_stats(r, stats)
        for rr in r["res"].values():
            if rr[0] in SIZE_OPS:
                stats["sizing_calls_in_threads"] += 1
    ck.count(1, (sc["kind"], sc["family"], len(sc["progs"]), min(casf, 3), r["aux"].get("bcfin", r["aux"].get("maxhfin")),
                 tuple(sorted(set(v[0] + v[-1] for v in r["res"].values())))))
    stats["cas_failures"] += casf
    fam = stats["families"].setdefault("%s/%s" % (sc["kind"], sc["family"]), 0)
    stats["families"]["%s/%s" % (sc["kind"], sc["family"])] = fam + 1


def run_sweeps(ck, exes, scs, maxruns, stats, with_model=True):
    """state-guided schedules: thread 0 is held after j = 1, 2, ... scheduling points (this includes `between the search of
    insert_dummy_node and its CAS`) while every ordered selection of k = 1..n of the other threads runs to completion; all
    runs are monitored, the ones in which the held thread then had a failed CAS are replayed on the model"""
    bad_corr, bad_mon = [], []
    for sc in scs:
        exe = exe_for(sc, exes)
        rc, out, err = run_harness(exe, sc, ["sweep", "0", str(maxruns)], timeout=900)
        runs = parse_runs(out)
        m = re.search(r"summary runs=(\d+) bad=(\d+) obs=(\d+)", out)
        if m:
            stats["sweep_runs"] += int(m.group(1))
            ck.evaluations += int(m.group(1))
        for r in runs:
            if r["mon"] != "ok":
                bad_mon.append((sc, r))
                continue
            if not with_model:
                continue
            try:
                d, st = replay_on_model(sc, r)
            except BuildError as e:
                d, st = "model driver failed: %s" % e, {}
            ck.traces_validated += 1
            stats["sweep_replayed"] += 1
            if d:
                bad_corr.append((sc, r, d))
                continue
            account_run(ck, sc, r, st, stats)
        if rc not in (0, 1, 3) or not m:
            bad_mon.append((sc, {"mon": "harness crashed or was killed (rc=%d) %s" % (rc, err[-300:].replace("\n", " ")), "sched": [],
                                 "mode": ["sweep", "0", str(maxruns)]}))
    return bad_corr, bad_mon


def run_scenarios(ck, exes, scs, nrand, label, stats, with_model=True):
    """random schedules + replay on the model + monitors; returns (bad_corr, bad_mon)"""
    bad_corr, bad_mon = [], []
    for si, sc in enumerate(scs):
        exe = exe_for(sc, exes)
        seed = ck.seed * 100003 + stats["scenarios"]
        stats["scenarios"] += 1
        rc, out, err = run_harness(exe, sc, ["rand", str(seed), str(nrand)])
        runs = parse_runs(out)
        for r in runs:
            stats["runs"] += 1
            for ob in r.get("obs", []):
                stats["observations"] += 1
                if len(stats["observation_samples"]) < 3:
                    stats["observation_samples"].append({"what": ob, "scenario": sc, "schedule": " ".join(r["sched"])})
            if r["mon"] != "ok":
                bad_mon.append((sc, r))
                continue
            if not with_model:
                ck.evaluations += 1
                continue
            try:
                d, st = replay_on_model(sc, r)
            except BuildError as e:
                d, st = "model driver failed: %s" % e, {}
            ck.traces_validated += 1
            if d:
                bad_corr.append((sc, r, d))
                continue
            account_run(ck, sc, r, st, stats)
        if rc not in (0, 1, 3) or (rc == 0 and len(runs) != nrand):
            bad_mon.append((sc, {"mon": "harness crashed or was killed (rc=%d) %s" % (rc, err[-300:].replace("\n", " ")), "sched": [],
                                 "mode": ["rand", str(seed), str(nrand)]}))
        if si < 3 and runs and label == "corpus":
            ck.sample({"scenario": {k: v for k, v in sc.items()}, "trace_head": [" ".join(map(str, e[1:])) for e in runs[0]["log"][:14]],
                       "results": {"%d.%d" % k: v for k, v in runs[0]["res"].items()}, "final": runs[0]["fin"]})
    return bad_corr, bad_mon


def run_dfs(ck, exes, scs, bound, maxruns, stats):
    bad = []
    for sc in scs:
        exe = exe_for(sc, exes)
        rc, out, err = run_harness(exe, sc, ["dfs", str(bound), str(maxruns)], timeout=1500)
        m = re.search(r"summary runs=(\d+) bad=(\d+) obs=(\d+)", out)
        if m:
            stats["dfs_runs"] += int(m.group(1))
            stats["observations"] += int(m.group(3))
            ck.evaluations += int(m.group(1))
        if rc != 0 or not m or m.group(2) != "0":
            rs = parse_runs(out)
            bad.append((sc, rs[-1] if rs else {"mon": "harness crashed or was killed (rc=%d) %s" % (rc, (err or out)[-300:].replace("\n", " ")), "sched": [],
                                               "mode": ["dfs", str(bound), str(maxruns)]}))
    return bad


# schedules that exhibit behaviour worth recording in the evidence although it does not violate the property
OBSERVATION_PROBES = [
    ("skip list insert busy-waits (no pause/yield) while the thread that linked the first node has not yet raised my_max_height: "
     "fill_prev_curr_arrays reads max_height 0, so prev = head / next = nullptr and the level-0 CAS fails until the other thread runs",
     {"kind": "omap", "family": "probe", "progs": [["ins:3:3", "find:2"], ["ins:2:3", "find:3"], ["ins:4:2", "lb:3"]]}, "0,0,0,0,0,0,0,1"),
    ("count() of an ORDERED multi container over-reports as the model says (Props `count_over_reports`: count(5) = 2 with a single 5 ever inserted, "
     "lo = 1, hi = 2): 7 is linked between 5 and 9 after equal_range() has determined second = 9",
     {"kind": "omset", "family": "probe", "pre": ["ins:9:1", "ins:5:1"], "progs": [["cnt:5"], ["ins:7:1"]]}, "0,0,0,0,0,1,1,1,1,1,1,1,1,1,0,0"),
    ("count() of an UNORDERED multi container over-reports likewise: key 7 (same hash as 5) is linked behind the run of 5 after `last` was determined",
     {"kind": "umset", "family": "probe", "bc": 2, "mlf": (4, 1), "hash": {5: 6, 7: 6}, "pre": ["ins:5"], "progs": [["cnt:5"], ["ins:7"]]},
     "0,0,0,0,0,0,0,0,0,0,1,1,1,1,1,1,1,1,1,1,1,1,1,1,0,0"),
    ("count() of a multi container = std::distance over equal_range(): an element of another key linked between the two iterators is counted",
     {"kind": "umset", "family": "probe", "bc": 2, "mlf": (4, 1), "hash": {1: 6, 2: 6, 3: 6}, "pre": ["ins:1"],
      "progs": [["ins:1", "ins:2"], ["ins:2", "cnt:1"], ["trav"]]},
     "0,0,0,0,0,0,0,0,0,0,0,0,0,0,0,0,0,0,0,0,0,0,0,0,1,1,1,1,1,1,1,1,1,1,1,1,1,1,1,1,1,1,1,1,1,1,1,1,1,1,0"),
]


def run_probes(ck, exes):
    """deterministic replays of the recorded observations; returns the probes on which a property monitor fired"""
    res, bad = [], []
    for what, sc, sched in OBSERVATION_PROBES:
        rc, out, err = run_harness(exe_for(sc, exes), sc, ["replay", sched], timeout=120)
        rs = parse_runs(out)
        r = rs[-1] if rs else {"mon": "harness crashed or was killed (rc=%d)" % rc, "sched": []}
        res.append({"what": what, "scenario": sc, "schedule": sched.replace(",", " "), "monitor": r.get("mon"), "observed": r.get("obs", []),
                    "results": {"%d.%d" % k: v for k, v in r.get("res", {}).items()}})
        if r.get("mon") != "ok":
            bad.append((sc, r))
    ck.extra["observation_probes"] = res
    return bad


# ------------------------------------------------------------------------------------------------------
# fault schedules: user functors that throw at their k-th call
# ------------------------------------------------------------------------------------------------------
# guided (`fsweep`): thread 0 is held at every scheduling point while the others complete, then every fault position of thread 0
FAULT_CORPUS = [
    # a taller neighbour is linked on level 1 between thread 0's search and its level-1 CAS: the re-search calls the comparator AFTER the level-0 link
    {"kind": "oset", "family": "fault", "pre": ["ins:10:3", "ins:50:3"], "progs": [["ins:30:2", "find:30", "trav"], ["ins:20:2"]]},
    {"kind": "omset", "family": "fault", "pre": ["ins:30:3"], "progs": [["ins:30:3", "find:30", "ins:30:1"], ["ins:30:2"], ["ins:30:3"]]},
    {"kind": "omap", "family": "fault", "pre": [], "progs": [["ins:5:3", "find:5"], ["ins:4:4", "ins:6:2"]]},
    {"kind": "ommap", "family": "fault", "pre": ["ins:10:2", "ins:20:2"], "progs": [["emp:15:4", "lb:15", "cnt:15"], ["emp:15:4"], ["ins:12:3"]]},
    # colliding order keys (key_equal is called), same-bucket inserts between the search and the CAS, table doubling, first access to a bucket
    {"kind": "uset", "family": "fault", "bc": 2, "mlf": (1, 1), "hash": {1: 6, 2: 6, 3: 6, 4: 2}, "pre": ["ins:1"],
     "progs": [["ins:2", "find:2", "emp:3", "trav"], ["ins:3", "ins:4", "emp:2"]]},
    {"kind": "ummap", "family": "fault", "bc": 4, "mlf": (4, 1), "hash": {1: 5, 2: 5, 3: 13, 4: 21}, "pre": [],
     "progs": [["ins:1", "ins:2", "cnt:1"], ["ins:1", "ins:3"], ["emp:4"]]},
    {"kind": "umap", "family": "fault", "bc": 8, "mlf": (4, 1), "pre": ["find:2"], "progs": [["emp:6", "find:10", "ins:14"], ["ins:2"], ["ins:10"]]},
]


def run_fault_schedules(ck, exes, stats):
    """-> (bad_corr, bad_mon).  Every fault run is monitored by the harness (dead node reachable at the moment of a deallocation / at
    quiescence, double deallocation, contents = successful inserts + inserts that threw after linking, later operations work,
    clear() + destructor free every node exactly once); the printed ones are replayed on the Lean models (`arm kind n`)."""
    quick = ck.tier == "quick"
    rng = ck.rng
    bad_corr, bad_mon = [], []
    fs = stats["faults"] = {"runs": 0, "fired": 0, "thrown_after_link": 0, "thrown_before_link_node_leaked": 0, "replayed_on_model": 0,
                            "monitor_only": 0, "by_functor": {}, "samples": []}

    def one(sc, mode, replay_cap):
        rc, out, err = run_harness(exe_for(sc, exes), sc, mode, timeout=1500)
        runs = parse_runs(out)
        m = re.search(r"summary runs=(\d+) bad=(\d+) obs=(\d+) fired=(\d+) postlink=(\d+) leaks=(\d+)", out)
        if m:
            fs["runs"] += int(m.group(1))
            fs["fired"] += int(m.group(4))
            fs["thrown_after_link"] += int(m.group(5))
            fs["thrown_before_link_node_leaked"] += int(m.group(6))
            ck.evaluations += int(m.group(1))
            for kv in re.findall(r"(\w+)=(\d+)", out[out.rfind(" byf"):]):
                fs["by_functor"][kv[0]] = fs["by_functor"].get(kv[0], 0) + int(kv[1])
        cand = []
        for r in runs:
            sc2 = dict(sc)
            if r.get("fault"):
                sc2["fault"] = r["fault"]
            if r["mon"] != "ok":
                bad_mon.append((sc2, r))
                continue
            if r.get("fired"):
                f = r["fault"]
                ck.distinct.add(("fault", sc["kind"], f[2], min(f[3], 6), tuple(sorted(o.split(" functor ")[-1][:12] for o in r.get("obs", []) if "exception" in o))))
                for ob in r.get("obs", []):
                    if "exception" in ob and len(fs["samples"]) < 4 and not any(x["what"][:60] == ob[:60] for x in fs["samples"]):
                        fs["samples"].append({"what": ob, "scenario": {k: v for k, v in sc2.items()}, "schedule": " ".join(r["sched"])})
                if not fault_modelled(sc, f):
                    fs["monitor_only"] += 1
                    continue
            cand.append((sc2, r))
        if len(cand) > replay_cap:
            cand = rng.sample(cand, replay_cap)
        for sc2, r in cand:
            try:
                d, st = replay_on_model(sc, r)
            except BuildError as e:
                d, st = "model driver failed: %s" % e, {}
            ck.traces_validated += 1
            fs["replayed_on_model"] += 1
            if d:
                bad_corr.append((sc2, r, d))
            else:
                account_run(ck, sc, r, st, stats)
        if rc not in (0, 1, 3) or not m:
            bad_mon.append((sc, {"mon": "harness crashed or was killed (rc=%d) %s" % (rc, err[-300:].replace("\n", " ")), "sched": [], "mode": mode}))

    for sc in FAULT_CORPUS:
        one(sc, ["fsweep", "0", str(1200 if quick else 30000), str(16 if quick else 0), "1"], 40 if quick else 400)
    # random scenarios of the dangerous families under random schedules, every fault position of every thread (sampled when many)
    n = 10 if quick else 120
    scs = [gen_sl(rng, ["tall", "equal", "tall", "random"][i % 4]) for i in range(n)] + \
          [gen_uo(rng, ["equal", "adjacent", "onebucket", "doubling", "dummyinit"][i % 5]) for i in range(n)]
    for i, sc in enumerate(scs):
        seed = ck.seed * 100003 + 7000 + i
        one(sc, ["frand", str(seed), str(2 if quick else 6), str(24 if quick else 0), str(2 if quick else 6)], 6 if quick else 30)
    ck.extra["fault_schedules"] = fs
    return bad_corr, bad_mon


# ------------------------------------------------------------------------------------------------------
# count() of the multi containers: set-level differential with the CAS-list model (Props caslist_count_bounds / count_over_reports)
# ------------------------------------------------------------------------------------------------------
def count_differential(ck, exes):
    """One thread calls count(k), another inserts one element.  For EVERY hold point of the counting thread (it is stopped after j of
    its scheduling points, the inserter runs to completion, the counter finishes) the real container returns some n; the model
    (CasList.sys with the `count` operation, driver c12cl) is run the same way for every hold point of ITS counting thread.  The two
    SETS of possible results must be equal (the step counts differ: bucket / level accesses), every result must lie within the
    model's proven bounds [lo, hi], and an over-report (n above the number of equivalent elements ever inserted) must be possible on
    the implementation exactly when it is on the model."""
    rng = ck.rng
    quick = ck.tier == "quick"
    bad, cases, over = [], 0, 0
    for i in range(8 if quick else 60):
        kind = ["omset", "umset", "ommap", "ummap"][i % 4]
        uo = kind in UO_KINDS
        keys = rng.sample(range(2, 40), 4)
        k = keys[0]
        pre = [k] * rng.choice([1, 1, 2]) + rng.sample(keys[1:], rng.randrange(0, 3))
        rng.shuffle(pre)
        k2 = rng.choice([k, keys[1], keys[2], keys[3], k + 1, max(1, k - 1)])
        sc = {"kind": kind, "family": "count", "pre": [], "progs": [["cnt:%d" % k], ["ins:%d%s" % (k2, "" if uo else ":1")]]}
        if uo:
            sc["bc"], sc["mlf"] = rng.choice([1, 2, 8]), (4, 1)
            # colliding hashes make `other key, same order key` possible
            sc["hash"] = {x: rng.choice([x, x, 6, 6 + (1 << 63)]) for x in set(pre + [k, k2])}
            sc["pre"] = ["ins:%d" % x for x in pre]
            okey = lambda x: "%d:%d" % (rev64(hash_of(sc, x)) | 1, x)
        else:
            sc["pre"] = ["ins:%d:1" % x for x in pre]
            okey = lambda x: "%d:0" % (x + 1)
        rc, out, err = run_harness(exe_for(sc, exes), sc, ["sweep", "0", "400", "1"], timeout=600)
        runs = parse_runs(out)
        impl = set()
        for r in runs:
            if r["mon"] != "ok":
                bad.append("%s: monitor %s" % (sc, r["mon"]))
            v = r["res"].get((0, 0))
            if v:
                impl.add(int(v[2]))
        lines = ["rule %s" % ("before" if uo else "after"), "pre " + " ".join("ins:" + okey(x) for x in pre),
                 "prog0 count:" + okey(k), "prog1 ins:" + okey(k2)] + ["hold %d" % j for j in range(0, 40)]
        mo = drv("c12cl", "\n".join(lines) + "\n")[4:]
        model, lo, hi = set(), None, None
        for l in mo:
            w = l.split()
            if len(w) >= 3 and w[0].isdigit():
                model.add(int(w[0]))
                lo = int(w[1]) if lo is None else min(lo, int(w[1]))
                hi = int(w[2]) if hi is None else max(hi, int(w[2]))
            if l.endswith("done"):
                break
        cases += 1
        ck.count(len(runs), ("count", kind, tuple(sorted(impl)), k2 == k))
        nk = pre.count(k) + (1 if k2 == k else 0)
        if max(impl or [0]) > nk:
            over += 1
        if impl != model or not impl or lo is None or min(impl) < lo or max(impl) > hi:
            bad.append("%s count(%d) vs insert(%d), pre %s%s: implementation results over all hold points %s, model %s (bounds %s..%s)" % (
                kind, k, k2, pre, (" hash %s" % sc["hash"]) if uo else "", sorted(impl), sorted(model), lo, hi))
    ck.extra["count_differential"] = {"scenarios": cases, "with_over_report": over}
    ck.oblige("corr:count() of the multi containers under one interfering insert: the set of results over all hold points equals the set the CAS-list "
              "model produces (count operation of CasList.sys), inside the proven bounds lo <= n <= hi (caslist_count_bounds)", "correspondence",
              not bad, "; ".join(bad)[:900])


def make_scenarios(ck, n_uo, n_sl):
    rng = ck.rng
    scs = []
    for i in range(n_uo):
        scs.append(gen_uo(rng, UO_FAMILIES[i % len(UO_FAMILIES)]))
    for i in range(n_sl):
        scs.append(gen_sl(rng, SL_FAMILIES[i % len(SL_FAMILIES)]))
    return scs


def run(ck):
    quick = ck.tier == "quick"
    ck.rule = ("E-SHIM: hand-written contention scenarios + seeded random scenarios for the 4 unordered and 4 ordered containers (families: equal keys, "
               "order keys equal/adjacent in split order, all-to-one-bucket and constant hashes, bucket-table doublings from 1-2 buckets with max_load_factor "
               "1/2..2, bucket-initialisation races (first access to a bucket vs. 2-3 inserts between the parent's and the new dummy node), reserve/rehash/"
               "max_load_factor(0.5..10) before and between concurrent inserts, tall neighbouring skip-list nodes, heights 30-32, random mixes; 2-4 threads of "
               "insert/emplace/find/contains/count/lower_bound/traversal/reserve/rehash/max_load_factor), "
               "each under seeded random schedules, every traced access replayed on the Lean model, plus state-guided sweeps (one thread held at every "
               "scheduling point while 1..3 others complete) and bounded-preemption DFS (>= 2 preemptions) with the implementation-side monitors; "
               "E-PURE: exhaustive small + boundary-biased 64-bit inputs; bucket-count sequences (constructor, insert batches at the doubling "
               "thresholds, reserve/rehash at n = 2^j*f + {-1,0,1,2}, load factors incl. 0, denormal, inf, NaN, negative) and binary32 operations; distinct = (container, family, #threads, #failed CAS "
               "(capped), final bucket count / max height, result kinds) classes")
    ck.assumptions += [
        "proved on the models (any number of threads, every schedule, sequentially consistent interleavings of the traced accesses): the CAS list "
        "(search_after / insert_dummy_node / level walks, try_insert, lookups, traversals), the split-ordered hash table (bucket table, recursive "
        "init_bucket, doubling) and the skip list (levels, max height, bottom-up linking); the split-order arithmetic is proved for all 64-bit values",
        "ordered multi containers: `every level is a sub-sequence of the level below` is proved (skiplist_levels_sublists: every level strictly sorted by "
        "(key, index_number)); it is additionally checked on every replayed trace by the model and by the harness's structure monitor",
        "the models are tied to the code by sampled access-by-access trace replay (E-SHIM) and E-PURE, not by proof",
        "segment_table internals (my_segment_table, segment pointers) are traced but not modelled (reported as unmodelled accesses)",
        "count()/equal_range() of multi containers: modelled on the CAS list (three walks; caslist_count_bounds: elements present at the begin <= n <= "
        "equivalent elements at the return + elements of OTHER keys linked meanwhile; count_over_reports: the second term is needed) and tied by a set-level "
        "differential (all hold points of the counting thread against one interfering insert) plus the implementation-side bound monitor in every run; the "
        "access-level replay covers only their prepare_bucket part; the over-report is NOT claimed as a violation: the property lists count among the safe "
        "operations and states no exactness clause; lower_bound() is monitored on the implementation only",
        "release/acquire visibility is not modelled (the shim serialises accesses); the memory order of every traced access is checked against the minimum "
        "the argument needs (acquire loads, release/seq_cst publication)",
        "the bucket count never exceeds 2^63 (63 segment pointers); the model stops doubling there",
        "`find after insert` for the skip list assumes the insert has RETURNED (my_max_height raised): a node linked on level 0 by an insert that has not "
        "yet raised my_max_height from 0 is invisible to lookups, and other inserters busy-wait for it (recorded as an observation)",
        "rehash/reserve are modelled and exercised concurrently with inserts (they only CAS my_bucket_count); max_load_factor(f) is a plain store: it is "
        "exercised inside thread programs under the serialising shim only; unsafe_erase/extract/merge/clear/copy/move are outside the property",
        "table sizing: the bucket-count expressions are regenerated from the header; the float conditions (when to grow) are tied by the E-PURE "
        "differential only — the power-of-two theorem does not depend on them; in the interleaving model a bucket count that would leave the 64-bit "
        "word is not installed (Sizing models the wrap-around to 0 that the code performs for load factors below ~2^-60 x size)",
        "weak CAS never fails spuriously under the shim",
        "user functors that throw: the models have a throwing step at every comparator call site of the skip list (descent, found(), re-search after a "
        "failed upper-level CAS, lookups), at every key_equal call site and the hasher call of the unordered containers, and for the node creation "
        "(allocator / element constructor) and the head-node allocation of the skip list; insert_throw_safe / splitorder_throw_safe are proved for every "
        "fault position; WHERE the code deletes a node on an exception path is regenerated from the headers (slFreeOnThrowUnlinked/Linked, "
        "uoFreeOnThrowUnlinked, the calls that can run user code after the link). Element-constructor and allocator faults of the unordered containers "
        "(value node, dummy node, bucket segments) and faults inside lower_bound / count of multi containers are exercised by the fault schedules with the "
        "implementation-side monitors only",
        "what the UNCHANGED code guarantees when a user functor throws inside insert/emplace (observed, recorded in fault_schedules): the container stays "
        "valid and memory-safe; the element is absent if the exception came before the node was linked and present if it came after (skip list only: "
        "comparator call of the re-search); but (1) a node that was created and not linked is neither linked nor deallocated (leaked: skip list on every "
        "comparator / head-allocation exception, unordered emplace on hasher / key_equal / allocation exceptions, unordered insert(value) on a key_equal "
        "exception in the retry search), (2) after a skip-list exception behind the link size() is one short and the node is missing from its upper "
        "levels (lookups still work; unsafe_erase of that element dereferences a null predecessor: outside this property)"]
    ck.trusted += ["harness/shim (atomic shim + baton scheduler)", "harness/c12/*.cpp monitors and address canonicalisation (bump arena: no address reuse within a run; "
                   "deallocation marks the record dead)", "checks/c12gen.py throw_policy (which handlers delete the node, which calls after the link can run user code)",
                   "trace replay and first-appearance node renaming in checks/c12.py (sampled correspondence)", "harness/c12/consts.cpp, pure.cpp"]
    gen(ck)
    if not ck.lean_stage():
        # the proofs no longer check; the executable model may still build (it is needed for the differentials below)
        okd, logd, _ = common.lake_build(["drv_c12"])
        if not okd:
            raise BuildError("the Lean model driver drv_c12 does not build: " + logd[-800:])
    pure(ck)
    pure_f32(ck)
    pure_sizing(ck)
    run_life(ck)
    exes = {"uo": build("uo"), "sl": build("sl")}
    stats = {"scenarios": 0, "runs": 0, "events": 0, "skipped_loads": 0, "unmodelled_accesses": 0, "orders_bad": set(), "cas_failures": 0,
             "dfs_runs": 0, "families": {}, "observations": 0, "observation_samples": [],
             "table_doublings": 0, "bucket_inits": 0, "upper_level_cas_failures": 0, "max_height_cas": 0,
             "dummy_cas_failures": 0, "dummy_retry_walked_2plus": 0, "dummy_retry_walk_max": 0, "sweep_runs": 0, "sweep_replayed": 0,
             "sizing_calls_in_threads": 0}
    bad_corr, bad_mon = run_scenarios(ck, exes, CORPUS, 40 if quick else 200, "corpus", stats)
    scs = make_scenarios(ck, 140 if quick else 1100, 90 if quick else 700)
    bc2, bm2 = run_scenarios(ck, exes, scs, 12 if quick else 30, "random", stats)
    bad_corr += bc2
    bad_mon += bm2
    # bucket-initialisation race: state-guided sweeps (hold the initialising thread at every scheduling point while k = 1..3
    # interfering inserts complete) and bounded-preemption DFS (2 preemptions; 3 in the thorough tier)
    sweeps = SWEEP_CORPUS + [gen_dummyinit(ck.rng) for _ in range(6 if quick else 60)]
    bc3, bm3 = run_sweeps(ck, exes, sweeps, 4000 if quick else 20000, stats)
    bad_corr += bc3
    bad_mon += bm3
    # traversal through range() sub-ranges (what a parallel algorithm over the container does) against concurrent inserts: the traversing
    # thread is held at every scheduling point while the inserters complete (a key that becomes the first element of the bucket a range was
    # split at must not move the sub-range's boundaries)
    pre = ["ins:%d" % k for k in range(8, 32)]
    range_scs = [{"kind": kind, "family": "range", "bc": 8, "mlf": (4, 1), "pre": pre,
                  "progs": [["rtrav"], ["ins:%d" % k for k in list(range(0, 8)) + list(range(32, 40))], ["ins:%d" % k for k in range(40, 56)]]}
                 for kind in (["uset", "ummap"] if quick else ["uset", "umset", "umap", "ummap"])]
    range_scs += [{"kind": kind, "family": "range", "pre": ["ins:%d:%d" % (10 * i, 1 + i % 3) for i in range(1, 9)],
                   "progs": [["rtrav"], ["ins:25:4", "ins:45:5", "ins:5:3", "ins:65:4"], ["ins:35:2", "ins:15:3", "ins:55:6"]]}
                  for kind in (["oset"] if quick else ["oset", "omset", "omap", "ommap"])]
    _, bm_r = run_sweeps(ck, exes, range_scs, 500 if quick else 4000, stats, with_model=False)
    bad_mon += bm_r
    bad_mon += run_dfs(ck, exes, CORPUS, 2, 6000 if quick else 150000, stats)
    bad_mon += run_dfs(ck, exes, SWEEP_CORPUS, 2, 12000 if quick else 400000, stats)
    if not quick:
        bad_mon += run_dfs(ck, exes, CORPUS + SWEEP_CORPUS[:2], 3, 60000, stats)
    bad_mon += run_probes(ck, exes)
    count_differential(ck, exes)
    bc5, bm5 = run_fault_schedules(ck, exes, stats)
    bad_corr += bc5
    bad_mon += bm5
    searched = False
    if (ck.broken() or bad_corr) and not bad_mon:
        # something no longer checks: look harder for a schedule on which the PROPERTY fails on the implementation
        searched = True
        log("an obligation broke: searching for a failing schedule on the implementation")
        more = make_scenarios(ck, 210 if quick else 1100, 150 if quick else 800)
        cand = []
        for c in bad_corr:
            if c[0] not in cand and len(cand) < 4:
                cand.append(c[0])
        _, bm3 = run_scenarios(ck, exes, cand + more, 30 if quick else 60, "search", stats, with_model=False)
        bad_mon += bm3
        if not bad_mon:
            _, bm4 = run_sweeps(ck, exes, [c for c in cand if c["kind"] in UO_KINDS][:2] + [gen_dummyinit(ck.rng) for _ in range(20 if quick else 200)],
                                6000 if quick else 30000, stats, with_model=False)
            bad_mon += bm4
        if not bad_mon:
            bad_mon += run_dfs(ck, exes, cand[:2] + CORPUS + SWEEP_CORPUS, 3, 8000 if quick else 200000, stats)
    ck.extra["schedules"] = {k: (sorted(v) if isinstance(v, set) else v) for k, v in stats.items()}
    ck.extra["searched_for_failing_schedule"] = searched
    ck.oblige("coverage:the schedules reached the bucket-initialisation window (a failed insert_dummy_node CAS whose retry had to walk past >= 2 "
              "nodes linked behind its predecessor) and sizing calls between concurrent inserts", "correspondence",
              bool(bad_mon or bad_corr) or (stats["dummy_retry_walked_2plus"] > 0 and stats["sizing_calls_in_threads"] > 0),
              "dummy CAS failures %d, retries that walked past >= 2 nodes %d, sizing calls inside thread programs %d" % (
                  stats["dummy_cas_failures"], stats["dummy_retry_walked_2plus"], stats["sizing_calls_in_threads"]))
    fs = stats.get("faults", {})
    ck.oblige("coverage:the fault schedules reached a comparator exception AFTER the level-0 link of a skip-list insert (another thread's taller node linked "
              "between the search and the upper-level CAS) as well as exceptions of every functor kind before the link", "correspondence",
              bool(bad_mon or bad_corr) or (fs.get("thrown_after_link", 0) > 0 and all(fs.get("by_functor", {}).get(f, 0) > 0 for f in ("cmp", "hash", "eq", "ctor", "alloc"))),
              "fault runs %s, fired %s, thrown after the link %s, by functor %s" % (fs.get("runs"), fs.get("fired"), fs.get("thrown_after_link"), fs.get("by_functor")))
    ck.oblige("gen:memory orders of the traced accesses are at least what the argument needs (acquire loads, seq_cst CAS, release publication)",
              "generated", not stats["orders_bad"], "; ".join(sorted(stats["orders_bad"])[:8]))
    ck.oblige("corr:every traced access (list pointers, bucket slots, bucket count, size, level pointers, max height), every operation result and the "
              "final contents replay on the Lean models SplitOrder / SkipList", "correspondence", not bad_corr,
              "" if not bad_corr else "%s | %s %s | pre %s | threads %s | schedule %s" % (
                  bad_corr[0][2], bad_corr[0][0]["kind"], bad_corr[0][0].get("family"), bad_corr[0][0].get("pre", []), bad_corr[0][0]["progs"], " ".join(bad_corr[0][1]["sched"])))
    ck.oblige("monitor:final contents = successful inserts, one winner per key, find-after-insert, traversals complete/duplicate-free/ordered, raw list "
              "(dummy nodes included) sorted, bucket entries in place, every element reachable from its bucket entry for every bucket count the table had, "
              "bucket count a power of two, level structure, no deadlock/livelock (random + state-guided sweeps + bounded-preemption DFS); allocator ledger: no node "
              "is deallocated while reachable from the head (any level, any bucket), none twice, none reachable is dead, clear() + destructor free every node once; "
              "fault schedules (k-th comparator / hasher / key_equal / element-constructor / allocate call throws): the container stays a sorted duplicate-free "
              "list = successful inserts + inserts that threw after linking, later operations work", "correspondence", not bad_mon,
              "" if not bad_mon else "%s | %s %s | pre %s | threads %s" % (bad_mon[0][1]["mon"], bad_mon[0][0]["kind"], bad_mon[0][0].get("family"), bad_mon[0][0].get("pre", []), bad_mon[0][0]["progs"]))
    seen = set()
    for sc, r in bad_mon:
        k = mon_key(sc, r.get("mon", ""))
        if k in seen or len(seen) >= 3:
            continue
        seen.add(k)
        report_failure(ck, exes, sc, r, "monitor")


LIFE_KINDS = ["oset", "omset", "omap", "ommap", "uset", "umset", "umap", "ummap"]
LIFE_OPS = ["copyctor", "movector", "copyassign", "moveassign-eq", "moveassign-neq", "moveassign-pocma", "swap", "swap-pocma", "clear-reuse", "merge", "merge-rvalue"]
LIFE_FLAGS = ["-O1", "-g", "-fsanitize=address,undefined", "-fno-sanitize-recover=all", "-pthread"]


def run_life(ck):
    """life-cycle operations with STATEFUL functors and allocators (harness/c12/life.cpp): after copy / move construction and assignment (equal,
    unequal non-propagating, propagating allocators), swap and clear the result must use the functors it reports: order, uniqueness, contents,
    find, failed re-insert, then concurrent inserts of present and absent keys"""
    from concurrent.futures import ThreadPoolExecutor
    exe = cxx_build("C12", "life", ["harness/c12/life.cpp", STUBS], flags=LIFE_FLAGS)
    jobs = [(k, op, ck.seed * 2 + i) for k in LIFE_KINDS for op in LIFE_OPS for i in range(1 if ck.tier == "quick" else 6)]

    def one(j):
        rc, out, err = sh([exe, j[0], j[1], str(j[2])], timeout=900)
        return j, rc, out, err
    bad = []
    with ThreadPoolExecutor(max_workers=common.NCPU) as ex:
        for j, rc, out, err in ex.map(one, jobs):
            v = [l for l in out.split("\n") if l.startswith("VIOLATION")]
            if rc != 0 and not v:
                v = ["VIOLATION crash rc=%d %s" % (rc, (err or out)[-400:].replace("\n", " | "))]
            ck.count(1, ("life", j[0], j[1], bool(v)))
            if v:
                bad.append((j, v))
    ck.traces_validated += len(jobs)
    ck.extra["lifecycle_runs"] = {"runs": len(jobs), "kinds": LIFE_KINDS, "operations": LIFE_OPS}
    ck.oblige("monitor:life-cycle operations with stateful comparator / hasher / key_equal / allocator (copy, move, assignment with equal, unequal and "
              "propagating allocators, swap, clear, merge from a source whose functors are in a different state): the result uses the functors it reports — iteration in comparator order, no two equivalent keys in a "
              "unique container, contents = the source's, find / failed re-insert, then exactly one success per absent key under concurrent inserts",
              "correspondence", not bad, [(j, v[:2]) for j, v in bad][:2])
    for j, v in bad[:1]:
        ck.counterexample("life:%s:%s:%s" % (j[0], j[1], re.sub(r"[^a-z]+", "-", v[0].lower())[:60]), "%s %s seed %d: %s" % (j[0], j[1], j[2], v[0]),
                          {"engine": "E-REAL", "harness": "life", "args": [j[0], j[1], str(j[2])], "observed": v[:6], "expect": "no-violation"})


def replay(ck, obj):
    r = obj["replay"]
    if r.get("harness") == "life":
        exe = cxx_build("C12", "life", ["harness/c12/life.cpp", STUBS], flags=LIFE_FLAGS)
        rc, out, err = sh([exe] + list(r["args"]), timeout=900)
        print(out[-2000:] + err[-500:])
        return 1 if (rc != 0 or "VIOLATION" in out) else 0
    if r.get("engine") == "E-PURE-SZ":
        exe = cxx_build("C12", "sz", ["harness/c12/sz.cpp", STUBS], flags=SZ_FLAGS)
        rc, out, err = sh([exe], input=r["input"] + "\n", timeout=120)
        m = drv("c12sz", r["input"] + "\n")
        print("input %s: implementation bucket counts %s, model %s" % (r["input"], out.strip(), m[0] if m else "-"))
        bad = rc != 0 or any(t.rstrip("!").isdigit() and not is_pow2(int(t.rstrip("!"))) for t in out.split())
        return 1 if bad else 0
    if r.get("engine") == "E-PURE":
        exe = cxx_build("C12", "pure", ["harness/c12/pure.cpp", STUBS], flags=["-O1", "-g", "-fno-access-control", "-fsanitize=address,undefined", "-fno-sanitize-recover=all"])
        rc, out, err = sh([exe], input=r["input"] + "\n", timeout=60)
        m = drv("c12pure", r["input"] + "\n")
        print("input %s: implementation %s, model %s" % (r["input"], out.strip(), m[0] if m else "-"))
        return 0 if (rc == 0 and m and out.strip() == m[0]) else 1
    exe = build(r["harness"])
    sc = r["scenario"]
    if "hash" in sc:
        sc["hash"] = {int(k): v for k, v in sc["hash"].items()}
    if "mlf" in sc:
        sc["mlf"] = tuple(sc["mlf"])
    mode = r.get("mode") or ["replay", ",".join(r.get("schedule") or [])]
    rc, out, err = run_harness(exe, sc, mode, timeout=600)
    runs = parse_runs(out)
    for x in runs[-1:]:
        print("monitor: %s" % x["mon"])
        print("schedule: %s" % " ".join(x["sched"]))
        print("results: %s" % x["res"])
        print("final: %s" % " ".join(x["fin"]))
    print(out[-300:] if not runs else "")
    return 0 if rc == 0 else 1
