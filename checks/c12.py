"""C12 — concurrent unordered / ordered associative containers never lose or duplicate keys (DESIGN.md §3 C12).

Layers: (1) Lean models CasList / SplitOrder / SkipList + theorems (Props/C12.lean); (2) ties, re-run against the
current tree: E-GEN constants + memory orders of the traced accesses, E-PURE reverse_bits / order keys / get_parent,
E-SHIM: the real headers run under the controlled scheduler, every access to a list pointer, bucket slot, bucket
count, size, skip-list level pointer, max height is replayed access by access on the Lean model (kind, variable,
values, CAS outcome, operation results, final contents), and implementation-side monitors check the property itself;
(3) on any broken obligation: search (more seeds, bounded-preemption DFS, shrinking) for a schedule on which the
property fails on the implementation."""
import json
import os
import re

import common
from common import BuildError, REPO, cxx_build, drv, first_diff, gen_write, log, sh

STUBS = "harness/common/r1_stubs.cpp"
M64 = (1 << 64) - 1
REGKEY1 = str((1 << 63) | 1)      # split_order_key_regular(1)

# ------------------------------------------------------------------------------------------------------
# scenarios
# ------------------------------------------------------------------------------------------------------
UO_KINDS = ["uset", "umset", "umap", "ummap"]
SL_KINDS = ["oset", "omset", "omap", "ommap"]


def is_multi(kind):
    return kind in ("umset", "ummap", "omset", "ommap")


def sc_text(sc):
    """scenario dict -> harness stdin"""
    t = "kind %s\n" % sc["kind"]
    if sc["kind"] in UO_KINDS:
        t += "bc %d\nmlf %d %d\n" % (sc.get("bc", 8), sc.get("mlf", (4, 1))[0], sc.get("mlf", (4, 1))[1])
        if sc.get("hash"):
            t += "hash " + " ".join("%d %d" % (k, h) for k, h in sorted(sc["hash"].items())) + "\n"
    if sc.get("pre"):
        t += "pre " + " ".join(sc["pre"]) + "\n"
    for p in sc["progs"]:
        t += "prog " + " ".join(p) + "\n"
    return t


def hash_of(sc, k):
    return sc.get("hash", {}).get(k, k) & M64


def modelled(kind, opname):
    """is the operation replayed on the model (otherwise its accesses - loads only - are skipped)"""
    if opname in ("ins", "emp", "find", "has", "trav"):
        return True
    if opname == "cnt":
        return kind in UO_KINDS or not is_multi(kind)    # unique containers: count = contains; unordered multi: prepare_bucket + unmodelled loads
    return False


def model_op(sc, w):
    kind = sc["kind"]
    f = w.split(":")
    name = f[0]
    if kind in UO_KINDS:
        if name in ("ins", "emp"):
            return "ins:%d:%s" % (hash_of(sc, int(f[1])), f[1])
        if name == "cnt" and is_multi(kind):
            return "touch:%d" % hash_of(sc, int(f[1]))
        if name in ("find", "has", "cnt"):
            return "find:%d:%s" % (hash_of(sc, int(f[1])), f[1])
        return "trav"
    if name in ("ins", "emp"):
        return "ins:%s:%s" % (f[1], f[2] if len(f) > 2 else "1")
    if name in ("find", "has", "cnt"):
        return "find:%s" % f[1]
    return "trav"


# ------------------------------------------------------------------------------------------------------
# harness output
# ------------------------------------------------------------------------------------------------------
def parse_runs(out):
    runs, cur = [], None
    for l in out.split("\n"):
        w = l.split()
        if not w:
            continue
        if w[0] == "run":
            cur = {"nodes": {}, "log": [], "res": {}, "fin": [], "mon": "", "sched": [], "aux": {}}
        elif cur is None:
            continue
        elif w[0] == "node":
            cur["nodes"][w[1]] = w[2:]
        elif w[0] == "e":
            cur["log"].append(("e", int(w[1]), w[2], w[3], w[4], w[5], w[6], w[7] if len(w) > 7 else ""))
        elif w[0] == "o":
            cur["log"].append(("o", int(w[1]), w[2], int(w[3])))
        elif w[0] == "res":
            cur["res"][(int(w[1]), int(w[2]))] = w[3:]
        elif w[0] == "fin":
            cur["fin"] = w[1:]
        elif w[0] in ("bcfin", "maxhfin"):
            cur["aux"][w[0]] = w[1]
        elif w[0] == "obs":
            cur.setdefault("obs", []).append(" ".join(w[1:]))
        elif w[0] == "mon":
            cur["mon"] = " ".join(w[1:])
        elif w[0] == "sched":
            cur["sched"] = w[1:]
        elif w[0] == "end":
            runs.append(cur)
            cur = None
    return runs


UNMODELLED_VARS = re.compile(r"^(segtab|seg\d+|anon)$")
NODE_TOK = re.compile(r"^n(\d+)(\.next\d*)?$")

# minimum memory order per (access kind, variable class); stronger is fine
ORDER_RANK = {"rlx": 0, "cns": 1, "acq": 1, "rel": 1, "acqrel": 2, "sc": 3}
ORDER_NEED = {
    ("load", "next"): "acq", ("load", "slot"): "acq", ("load", "bc"): "acq", ("load", "maxh"): "acq", ("load", "headptr"): "acq",
    ("cas", "next"): "sc", ("cas", "slot"): "sc", ("cas", "bc"): "sc", ("cas", "maxh"): "sc", ("cas", "headptr"): "sc",
    ("store", "slot"): "rel", ("fadd", "size"): "rlx",
    # unordered: new.next is published with release; skip list: relaxed store, published by the seq_cst CAS that follows
    ("store", "next"): "rlx",
}


def var_class(v):
    if NODE_TOK.match(v):
        return "next"
    return re.sub(r"\d+$", "", v)


class Canon:
    """rename node ids by order of first appearance"""

    def __init__(self):
        self.m = {}

    def tok(self, t):
        mm = NODE_TOK.match(t)
        if not mm:
            return t
        n = mm.group(1)
        if n not in self.m:
            self.m[n] = str(len(self.m))
        return "N" + self.m[n] + (mm.group(2) or "")


def norm_event(kind, var, a, b, ok):
    """the part of an access that must agree between model and implementation"""
    if kind == "load":
        return (kind, var, a)
    if kind == "store":
        return (kind, var, a)
    return (kind, var, a, b, ok)


def replay_on_model(sc, run):
    """Feed one observed run to the Lean model.  Returns (None | description of the first disagreement, stats)."""
    kind = sc["kind"]
    uo = kind in UO_KINDS
    drvname = "c12so" if uo else "c12sk"
    lines = []
    if uo:
        mlf = sc.get("mlf", (4, 1))
        lines.append("cfg %d %d %d %d" % (1 if is_multi(kind) else 0, sc.get("bc", 8), mlf[0], mlf[1]))
    else:
        lines.append("cfg %d %d" % (1 if is_multi(kind) else 0, 32))
    T = len(sc["progs"])
    for p in sc["progs"]:
        lines.append("prog " + " ".join(model_op(sc, w) for w in p if modelled(kind, w.split(":")[0])))
    if sc.get("pre"):
        lines.append("pre " + " ".join(model_op(sc, w) for w in sc["pre"]))
    nhead = len(lines)
    # which events go to the model
    skipping = {}
    evs = []
    skipped_loads = 0
    unmodelled_accesses = 0
    for rec in run["log"]:
        if rec[0] == "o":
            _, t, be, idx = rec
            name = sc["progs"][t][idx].split(":")[0]
            skipping[t] = (be == "b") and not modelled(kind, name)
            if be == "e" and uo and name == "cnt" and is_multi(kind):
                evs.append(("fin", t))
                lines.append("fin %d" % t)
            continue
        _, t, k, var, a, b, ok, order = rec
        if UNMODELLED_VARS.match(var):
            unmodelled_accesses += 1
            continue
        if skipping.get(t):
            if k != "load":
                return "thread %d: unmodelled read-only operation performed a %s on %s" % (t, k, var), {}
            skipped_loads += 1
            continue
        evs.append(rec)
        lines.append("s %d" % t)
    lines.append("state")
    lines.append("nodes")
    out = drv(drvname, "\n".join(lines) + "\n")
    out = out[nhead:]
    ci, cm = Canon(), Canon()
    opidx = {t: 0 for t in range(T)}
    mops = {t: [i for i, w in enumerate(sc["progs"][t]) if modelled(kind, w.split(":")[0])] for t in range(T)}
    orders_bad = []
    for i, rec in enumerate(evs):
        if i >= len(out):
            return "model produced no output for event %d" % i, {}
        if rec[0] == "fin":
            continue
        _, t, k, var, a, b, ok, order = rec
        if out[i] == "tail":
            if k != "load":
                return "thread %d: the read-only tail of count() performed a %s on %s" % (t, k, var), {}
            skipped_loads += 1
            continue
        parts = out[i].split(" | ")
        mw = parts[0].split()
        if len(mw) != 5:
            return "event %d of thread %d: implementation `%s %s %s %s %s`, model `%s`" % (i, t, k, var, a, b, ok, parts[0]), {}
        ie = norm_event(k, ci.tok(var), ci.tok(a), ci.tok(b), ok)
        me = norm_event(mw[0], cm.tok(mw[1]), cm.tok(mw[2]), cm.tok(mw[3]), mw[4])
        if ie != me:
            return "event %d of thread %d: implementation `%s %s %s %s %s`, model `%s` (canonical %s vs %s)" % (
                i, t, k, var, a, b, ok, parts[0], " ".join(ie), " ".join(me)), {}
        need = ORDER_NEED.get((k, var_class(var)))
        if need is None or ORDER_RANK.get(order, 0) < ORDER_RANK[need]:
            orders_bad.append("%s %s %s" % (k, var, order))
        if len(parts) > 1:
            # the model completed an operation: results must agree
            if opidx[t] >= len(mops[t]):
                return "thread %d: model completed more operations than the program has" % t, {}
            oi = mops[t][opidx[t]]
            opidx[t] += 1
            ires = run["res"].get((t, oi))
            if ires is None:
                return "thread %d op %d: model completed it (%s) but the implementation did not" % (t, oi, parts[1]), {}
            mres = parts[1].split()
            name = ires[0]
            if mres == ["touch"]:
                if not (name == "cnt" and uo and is_multi(kind)):
                    return "thread %d op %d: model ran prepare_bucket only for a %s" % (t, oi, name), {}
                continue
            exp = None
            if name in ("ins", "emp"):
                exp = ["ins", ires[2]]
            elif name in ("find", "has"):
                exp = ["find", ires[2]]
            elif name == "cnt":
                exp = ["find", ires[2]]
            elif name == "trav":
                exp = ["trav"] + ires[2:]
            if mres != exp:
                return "thread %d op %d (%s): implementation result %s, model %s" % (t, oi, sc["progs"][t][oi], " ".join(ires[2:]), parts[1]), {}
    for t in range(T):
        if opidx[t] != len([oi for oi in mops[t] if (t, oi) in run["res"]]):
            return "thread %d: implementation completed %d modelled operations, model %d" % (
                t, len([oi for oi in mops[t] if (t, oi) in run["res"]]), opidx[t]), {}
    st = out[len(evs)] if len(evs) < len(out) else ""
    sm = re.match(r"chain ([\d ]*)\| (bc|maxh) (\d+) \| size (\d+) \| (nodes \d+|levels (\d))", st)
    if not sm:
        return "model state line unreadable: " + st, {}
    if sm.group(1).split() != run["fin"]:
        return "final contents: implementation %s, model %s" % (" ".join(run["fin"]), sm.group(1).strip()), {}
    aux = run["aux"].get("bcfin" if uo else "maxhfin")
    if aux is not None and aux != sm.group(3):
        return "final %s: implementation %s, model %s" % (sm.group(2), aux, sm.group(3)), {}
    if int(sm.group(4)) != len(run["fin"]):
        return "model size %s differs from the number of elements %d" % (sm.group(4), len(run["fin"])), {}
    if not uo and sm.group(6) != "1":
        return "model: a level is not a sub-sequence of the level below", {}
    # the nodes that were identified with each other (by order of first appearance) must carry the same keys
    mnodes = {}
    for w in (out[len(evs) + 1].split() if len(evs) + 1 < len(out) else []):
        f = w.split(":")
        mnodes[f[0]] = f[1:]
    inv = {c: n for n, c in cm.m.items()}
    for n, c in ci.m.items():
        mn = inv.get(c)
        inode = run["nodes"].get(n)
        if mn is None or mn not in mnodes or (inode is None and n != "0"):
            return "node n%s of the implementation has no counterpart in the model" % n, {}
        if n == "0":
            if mn != "0":
                return "list head identified with model node %s" % mn, {}
            continue
        mk = mnodes[mn]
        if uo:
            same = inode[0] == mk[0] and (inode[1] == "-" or inode[1] == mk[1])
            if not same and not (inode[0] == REGKEY1 and mk[2] == "0"):      # failed emplace re-initialises its node
                return "node n%s: implementation key %s/%s, model key %s/%s" % (n, inode[0], inode[1], mk[0], mk[1]), {}
        else:
            if int(inode[0]) + 1 != int(mk[0]) or inode[1] != mk[1]:
                return "node n%s: implementation key %s height %s, model order key %s height %s" % (n, inode[0], inode[1], mk[0], mk[1]), {}
    return None, {"events": len(evs), "skipped_loads": skipped_loads, "unmodelled_accesses": unmodelled_accesses,
                  "orders_bad": orders_bad, "nodes": len(ci.m)}


def build(name):
    return cxx_build("C12", name, ["harness/c12/%s.cpp" % name, common.SHIM_SRC, STUBS],
                     flags=["-O1", "-g", "-fno-access-control"] + common.SHIM_FLAGS)


def exe_for(sc, exes):
    return exes["uo"] if sc["kind"] in UO_KINDS else exes["sl"]


def run_harness(exe, sc, mode, timeout=600):
    text = sc_text(sc)
    if mode[0] == "replay":
        # the schedule travels on stdin (it can be far longer than an argument list may be)
        text += "sched " + " ".join(mode[1].split(",")) + "\n"
        mode = ["replay", "-"]
    rc, out, err = sh([exe] + mode, input=text, timeout=timeout)
    return rc, out, err




# ------------------------------------------------------------------------------------------------------
# scenario generators (all randomness from ck.rng)
# ------------------------------------------------------------------------------------------------------
def rev64(x):
    return int("{:064b}".format(x & M64)[::-1], 2)


BOUNDARY_HASHES = [0, 1, 2, 3, 7, 8, 1 << 62, (1 << 62) + 1, 1 << 63, (1 << 63) + 1, M64, M64 - 1, (1 << 63) - 1, 1 << 32, (1 << 32) - 1]


def readers(rng, keys, n, multi, ordered):
    ops = []
    for _ in range(n):
        k = rng.choice(keys)
        r = rng.random()
        if r < 0.35:
            ops.append("find:%d" % k)
        elif r < 0.55:
            ops.append("has:%d" % k)
        elif r < 0.7:
            ops.append("cnt:%d" % k)
        elif r < 0.8 and ordered:
            ops.append("lb:%d" % k)
        else:
            ops.append("trav")
    return ops


def gen_uo(rng, family):
    kind = rng.choice(UO_KINDS)
    multi = is_multi(kind)
    T = rng.choice([2, 2, 3, 3, 4])
    sc = {"kind": kind, "family": family, "bc": 8, "mlf": (4, 1), "hash": {}, "pre": [], "progs": []}
    insw = lambda: rng.choice(["ins", "ins", "ins", "emp"])
    if family == "equal":
        keys = rng.sample(range(1, 40), rng.choice([1, 1, 2]))
        sc["bc"] = rng.choice([1, 2, 8])
        if rng.random() < 0.3:
            sc["pre"] = ["ins:%d" % rng.choice(keys)]
        for t in range(T):
            p = ["%s:%d" % (insw(), rng.choice(keys)) for _ in range(rng.randrange(1, 4))]
            if rng.random() < 0.6:
                p.insert(rng.randrange(len(p) + 1), readers(rng, keys, 1, multi, False)[0])
            sc["progs"].append(p)
    elif family == "adjacent":
        # order keys that are equal (hashes differ in bit 63 only, or are identical) or adjacent (differ in bit 62)
        base = rng.choice([0, 1, 5, 6, rng.getrandbits(20)])
        hs = [base, base ^ (1 << 63), base ^ (1 << 62), base ^ (1 << 62) ^ (1 << 63), base, base ^ (1 << 61)]
        keys = list(range(1, 1 + len(hs)))
        sc["hash"] = {k: h for k, h in zip(keys, hs)}
        sc["bc"] = rng.choice([1, 2, 8])
        sc["pre"] = ["ins:%d" % k for k in rng.sample(keys, rng.randrange(0, 3))]
        for t in range(T):
            p = ["%s:%d" % (insw(), rng.choice(keys)) for _ in range(rng.randrange(1, 4))]
            if rng.random() < 0.6:
                p.insert(rng.randrange(len(p) + 1), readers(rng, keys, 1, multi, False)[0])
            sc["progs"].append(p)
    elif family == "onebucket":
        b = rng.randrange(0, 8)
        keys = list(range(1, 9))
        const = rng.random() < 0.35
        sc["hash"] = {k: (b if const else b + (rng.getrandbits(30) << 24)) for k in keys}
        sc["bc"] = rng.choice([2, 8])
        sc["mlf"] = rng.choice([(4, 1), (1, 1)])
        sc["pre"] = ["ins:%d" % k for k in rng.sample(keys, rng.randrange(0, 4))]
        for t in range(T):
            p = ["%s:%d" % (insw(), rng.choice(keys)) for _ in range(rng.randrange(1, 4))]
            if rng.random() < 0.6:
                p.insert(rng.randrange(len(p) + 1), readers(rng, keys, 1, multi, False)[0])
            sc["progs"].append(p)
    elif family == "doubling":
        sc["bc"] = rng.choice([1, 1, 2])
        sc["mlf"] = rng.choice([(1, 1), (1, 2), (2, 1)])
        npre = rng.randrange(0, 7)
        universe = list(range(1, 64))
        pre = rng.sample(universe, npre)
        sc["pre"] = ["ins:%d" % k for k in pre]
        if rng.random() < 0.3:
            sc["hash"] = {k: rng.getrandbits(64) for k in universe}
        keys = pre + rng.sample(universe, 6)
        for t in range(T):
            if t == T - 1 and rng.random() < 0.5:
                sc["progs"].append(readers(rng, keys, rng.randrange(1, 4), multi, False))
            else:
                sc["progs"].append(["%s:%d" % (insw(), rng.choice(keys)) for _ in range(rng.randrange(2, 6))])
    else:  # random
        universe = list(range(1, 12))
        sc["hash"] = {k: rng.choice(BOUNDARY_HASHES + [rng.getrandbits(64), rng.getrandbits(8)]) for k in universe}
        sc["bc"] = rng.choice([1, 2, 4, 8])
        sc["mlf"] = rng.choice([(4, 1), (1, 1), (1, 2)])
        sc["pre"] = ["ins:%d" % k for k in rng.sample(universe, rng.randrange(0, 4))]
        for t in range(T):
            p = []
            for _ in range(rng.randrange(1, 5)):
                if rng.random() < 0.6:
                    p.append("%s:%d" % (insw(), rng.choice(universe)))
                else:
                    p += readers(rng, universe, 1, multi, False)
            sc["progs"].append(p)
    return sc


def gen_sl(rng, family):
    kind = rng.choice(SL_KINDS)
    multi = is_multi(kind)
    T = rng.choice([2, 2, 3, 3, 4])
    sc = {"kind": kind, "family": family, "pre": [], "progs": []}
    insw = lambda: rng.choice(["ins", "ins", "ins", "emp"])
    hgt = lambda: rng.choice([1, 1, 1, 2, 2, 3, 4])
    if family == "equal":
        keys = rng.sample(range(1, 30), rng.choice([1, 1, 2]))
        if rng.random() < 0.5:
            sc["pre"] = ["ins:%d:%d" % (rng.randrange(0, 40), hgt()) for _ in range(rng.randrange(1, 4))]
        for t in range(T):
            p = ["%s:%d:%d" % (insw(), rng.choice(keys), hgt()) for _ in range(rng.randrange(1, 4))]
            if rng.random() < 0.6:
                p.insert(rng.randrange(len(p) + 1), readers(rng, keys, 1, multi, True)[0])
            sc["progs"].append(p)
    elif family == "tall":
        # neighbouring keys with tall nodes: upper-level CAS failures and re-finds; lookups through tall nodes
        keys = list(range(10, 10 + rng.choice([3, 4, 6])))
        sc["pre"] = ["ins:%d:%d" % (k, rng.choice([2, 3, 4, 5])) for k in rng.sample([1, 5, 20, 30] + keys, rng.randrange(1, 4))]
        for t in range(T):
            if t == T - 1 and rng.random() < 0.5:
                present = [int(w.split(":")[1]) for w in sc["pre"]]
                sc["progs"].append(readers(rng, present + keys, rng.randrange(1, 4), multi, True))
            else:
                sc["progs"].append(["%s:%d:%d" % (insw(), rng.choice(keys), rng.choice([2, 3, 3, 4, 5])) for _ in range(rng.randrange(1, 4))])
    elif family == "maxheight":
        keys = list(range(1, 8))
        sc["pre"] = ["ins:%d:%d" % (rng.choice(keys), rng.choice([1, 31, 32]))] if rng.random() < 0.5 else []
        for t in range(T):
            sc["progs"].append(["%s:%d:%d" % (insw(), rng.choice(keys), rng.choice([1, 2, 30, 31, 32])) for _ in range(rng.randrange(1, 3))] +
                               (readers(rng, keys, 1, multi, True) if rng.random() < 0.5 else []))
    else:  # random
        universe = list(range(0, 10))
        sc["pre"] = ["ins:%d:%d" % (rng.choice(universe), hgt()) for _ in range(rng.randrange(0, 5))]
        for t in range(T):
            p = []
            for _ in range(rng.randrange(1, 5)):
                if rng.random() < 0.6:
                    p.append("%s:%d:%d" % (insw(), rng.choice(universe), hgt()))
                else:
                    p += readers(rng, universe, 1, multi, True)
            sc["progs"].append(p)
    return sc


# hand-written scenarios that aim at the dangerous windows (also the DFS corpus)
CORPUS = [
    {"kind": "uset", "family": "corpus", "bc": 2, "mlf": (4, 1), "progs": [["ins:5", "find:5"], ["ins:5", "find:5"]]},
    {"kind": "uset", "family": "corpus", "bc": 1, "mlf": (1, 1), "pre": ["ins:1"], "progs": [["ins:3", "find:1"], ["ins:2", "trav"]]},
    {"kind": "umset", "family": "corpus", "bc": 2, "mlf": (4, 1), "hash": {1: 6, 2: 6, 3: 6}, "pre": ["ins:1"], "progs": [["ins:1", "ins:2"], ["ins:2", "cnt:1"], ["trav"]]},
    {"kind": "umap", "family": "corpus", "bc": 2, "mlf": (1, 1), "hash": {1: 4, 2: (1 << 63) + 4, 3: (1 << 62) + 4}, "progs": [["ins:1", "ins:3"], ["ins:2", "find:1"], ["emp:1", "has:2"]]},
    {"kind": "oset", "family": "corpus", "pre": ["ins:10:2"], "progs": [["ins:5:2", "find:10"], ["ins:5:1", "ins:7:2"]]},
    {"kind": "oset", "family": "corpus", "pre": ["ins:1:2", "ins:7:1"], "progs": [["ins:5:2"], ["find:7", "lb:7"]]},
    {"kind": "omset", "family": "corpus", "pre": ["ins:4:3"], "progs": [["ins:4:2", "ins:4:3"], ["ins:4:3", "cnt:4"], ["trav"]]},
    {"kind": "omap", "family": "corpus", "progs": [["ins:3:3", "find:2"], ["ins:2:3", "find:3"], ["ins:4:2", "lb:3"]]},
]

UO_FAMILIES = ["equal", "adjacent", "onebucket", "doubling", "random"]
SL_FAMILIES = ["equal", "tall", "maxheight", "random"]


# ------------------------------------------------------------------------------------------------------
# E-GEN / E-PURE
# ------------------------------------------------------------------------------------------------------
def gen(ck):
    exe = cxx_build("C12", "consts", ["harness/c12/consts.cpp", STUBS], flags=["-O0", "-fno-access-control"])
    rc, out, err = sh([exe], timeout=60)
    if rc != 0:
        raise BuildError("consts harness failed: " + err[-500:])
    c = json.loads(out)
    ck.extra["generated_constants"] = c
    gen_write("C12", "".join("def %s : Nat := %d\n" % (k, v) for k, v in sorted(c.items())))
    ck.oblige("gen:constants regenerated from the headers", "generated", True, json.dumps(c))
    return c


def pure(ck):
    rng = ck.rng
    exe = cxx_build("C12", "pure", ["harness/c12/pure.cpp", STUBS], flags=["-O1", "-g", "-fno-access-control", "-fsanitize=address,undefined", "-fno-sanitize-recover=all"])
    lines = []
    small = 1 << (10 if ck.tier == "quick" else 13)
    for x in range(small):
        for f in ("rev", "reg", "dum", "par"):
            lines.append("%s %d" % (f, x))
    for w in range(1, 9 if ck.tier == "quick" else 12):
        for x in range(1 << w):
            lines.append("revn %d %d" % (w, x))
    vals = set(BOUNDARY_HASHES)
    for k in range(64):
        for d in (-1, 0, 1):
            vals.add(((1 << k) + d) & M64)
            vals.add((M64 - (1 << k) + d) & M64)
    for _ in range(4000 if ck.tier == "quick" else 60000):
        r = rng.random()
        if r < 0.4:
            vals.add(rng.getrandbits(64))
        elif r < 0.7:
            vals.add(rng.getrandbits(rng.randrange(1, 65)))
        else:
            vals.add((rng.getrandbits(12) << rng.randrange(0, 53)) & M64)
    for x in sorted(vals):
        for f in ("rev", "reg", "dum", "par"):
            lines.append("%s %d" % (f, x))
        lines.append("revn %d %d" % (rng.randrange(1, 65), x))
        lines.append("chk %d %d" % (x, rng.randrange(0, 64)))
    for x in range(1 << 9):
        for k in range(0, 11):
            lines.append("chk %d %d" % (x, k))
    lines += ["rev", "foo 1", "rev x", "revn 0 1", "revn 65 1"]
    text = "\n".join(lines) + "\n"
    rc, out, err = sh([exe], input=text, timeout=600)
    if rc != 0:
        ck.oblige("corr:pure reverse_bits/order keys/get_parent", "correspondence", False, "harness rc=%d %s" % (rc, err[-400:]))
        return
    a = out.split("\n")[:-1]
    b = drv("c12pure", text)
    d = first_diff(a, b)
    ck.count(len(lines), None)
    for x in sorted(vals)[:3]:
        ck.distinct.add(("pure", x))
    ck.extra["pure_inputs"] = len(lines)
    ck.distinct.update(("pure", l) for l in lines[:: max(1, len(lines) // 400)])
    ck.oblige("corr:pure reverse_bits / reverse_n_bits / split_order_key_regular / split_order_key_dummy / get_parent agree with the model",
              "correspondence", d is None, "" if d is None else "input `%s`: implementation %s, model %s" % (lines[d], a[d] if d < len(a) else "-", b[d] if d < len(b) else "-"))
    # is the PROPERTY affected?  `chk` evaluates the facts of split_order_bucket_entry with the implementation's own functions
    # (dummy key even and below the regular keys of its bucket, parent below child); a different-but-harmless function is
    # only a broken correspondence
    for i, l in enumerate(lines):
        if l.startswith("chk ") and i < len(a) and a[i].startswith("bad "):
            _, x, k = l.split()
            ck.counterexample("pure:chk:%s" % a[i][4:], "hash %s, table size 2^%s: the implementation's own split-order keys violate `%s` (split_order_bucket_entry)" % (x, k, a[i][4:]),
                              {"engine": "E-PURE", "input": l, "impl": a[i], "model": "ok"})
            break


# ------------------------------------------------------------------------------------------------------
# E-SHIM
# ------------------------------------------------------------------------------------------------------
def mon_key(sc, mon):
    txt = re.sub(r"\d+", "#", mon.replace("VIOLATION ", ""))
    txt = re.sub(r"[^A-Za-z#()_-]+", "-", txt).strip("-")[:70]
    return "%s:%s" % (sc["kind"], txt or "?")


def shrink_schedule(exe, sc, sched):
    """shortest prefix of the schedule (continued non-preemptively) on which a monitor still fires"""
    def fails(pref):
        rc, out, err = run_harness(exe, sc, ["replay", ",".join(pref)], timeout=120)
        rs = parse_runs(out)
        return (rc != 0), (rs[-1] if rs else None)
    ok, r = fails(sched)
    if not ok:
        return sched, None
    lo, hi = 0, len(sched)
    best = r
    while lo < hi:
        mid = (lo + hi) // 2
        f, r = fails(sched[:mid])
        if f:
            hi = mid
            best = r or best
        else:
            lo = mid + 1
    return sched[:hi], best


def report_failure(ck, exes, sc, r, how):
    exe = exe_for(sc, exes)
    sched = r.get("sched", [])
    mon = r.get("mon", "")
    if sched:
        s2, r2 = shrink_schedule(exe, sc, sched)
        if r2 is not None:
            sched, mon = s2, r2["mon"] or mon
    ck.counterexample(mon_key(sc, mon), "%s [%s, %s]: %s | threads %s | pre %s | schedule %s" % (
        sc["kind"], sc.get("family"), how, mon, sc["progs"], sc.get("pre", []), " ".join(sched)),
        {"engine": "E-SHIM", "harness": "uo" if sc["kind"] in UO_KINDS else "sl", "scenario": sc, "schedule": sched,
         "mode": r.get("mode"), "monitor": mon})


def run_scenarios(ck, exes, scs, nrand, label, stats, with_model=True):
    """random schedules + replay on the model + monitors; returns (bad_corr, bad_mon)"""
    bad_corr, bad_mon = [], []
    for si, sc in enumerate(scs):
        exe = exe_for(sc, exes)
        seed = ck.seed * 100003 + stats["scenarios"]
        stats["scenarios"] += 1
        rc, out, err = run_harness(exe, sc, ["rand", str(seed), str(nrand)])
        runs = parse_runs(out)
        for r in runs:
            stats["runs"] += 1
            for ob in r.get("obs", []):
                stats["observations"] += 1
                if len(stats["observation_samples"]) < 3:
                    stats["observation_samples"].append({"what": ob, "scenario": sc, "schedule": " ".join(r["sched"])})
            if r["mon"] != "ok":
                bad_mon.append((sc, r))
                continue
            if not with_model:
                ck.evaluations += 1
                continue
            try:
                d, st = replay_on_model(sc, r)
            except BuildError as e:
                d, st = "model driver failed: %s" % e, {}
            ck.traces_validated += 1
            if d:
                bad_corr.append((sc, r, d))
                continue
            stats["events"] += st["events"]
            stats["skipped_loads"] += st["skipped_loads"]
            stats["unmodelled_accesses"] += st["unmodelled_accesses"]
            for o in st["orders_bad"]:
                stats["orders_bad"].add(o)
            casf = sum(1 for e in r["log"] if e[0] == "e" and e[2] == "cas" and e[6] == "0")
            for e in r["log"]:
                if e[0] != "e":
                    continue
                if e[2] == "cas" and e[3] == "bc" and e[6] == "1":
                    stats["table_doublings"] += 1
                elif e[2] == "store" and e[3].startswith("slot"):
                    stats["bucket_inits"] += 1
                elif e[2] == "cas" and e[6] == "0" and re.search(r"\.next[1-9]\d*$", e[3]):
                    stats["upper_level_cas_failures"] += 1
                elif e[2] == "cas" and e[3] == "maxh":
                    stats["max_height_cas"] += 1
            ck.count(1, (sc["kind"], sc["family"], len(sc["progs"]), min(casf, 3), r["aux"].get("bcfin", r["aux"].get("maxhfin")),
                         tuple(sorted(set(v[0] + v[-1] for v in r["res"].values())))))
            stats["cas_failures"] += casf
            fam = stats["families"].setdefault("%s/%s" % (sc["kind"], sc["family"]), 0)
            stats["families"]["%s/%s" % (sc["kind"], sc["family"])] = fam + 1
        if rc not in (0, 1, 3) or (rc == 0 and len(runs) != nrand):
            bad_mon.append((sc, {"mon": "harness crashed or was killed (rc=%d) %s" % (rc, err[-300:].replace("\n", " ")), "sched": [],
                                 "mode": ["rand", str(seed), str(nrand)]}))
        if si < 3 and runs and label == "corpus":
            ck.sample({"scenario": {k: v for k, v in sc.items()}, "trace_head": [" ".join(map(str, e[1:])) for e in runs[0]["log"][:14]],
                       "results": {"%d.%d" % k: v for k, v in runs[0]["res"].items()}, "final": runs[0]["fin"]})
    return bad_corr, bad_mon


def run_dfs(ck, exes, scs, bound, maxruns, stats):
    bad = []
    for sc in scs:
        exe = exe_for(sc, exes)
        rc, out, err = run_harness(exe, sc, ["dfs", str(bound), str(maxruns)], timeout=1500)
        m = re.search(r"summary runs=(\d+) bad=(\d+) obs=(\d+)", out)
        if m:
            stats["dfs_runs"] += int(m.group(1))
            stats["observations"] += int(m.group(3))
            ck.evaluations += int(m.group(1))
        if rc != 0 or not m or m.group(2) != "0":
            rs = parse_runs(out)
            bad.append((sc, rs[-1] if rs else {"mon": "harness crashed or was killed (rc=%d) %s" % (rc, (err or out)[-300:].replace("\n", " ")), "sched": [],
                                               "mode": ["dfs", str(bound), str(maxruns)]}))
    return bad


# schedules that exhibit behaviour worth recording in the evidence although it does not violate the property
OBSERVATION_PROBES = [
    ("skip list insert busy-waits (no pause/yield) while the thread that linked the first node has not yet raised my_max_height: "
     "fill_prev_curr_arrays reads max_height 0, so prev = head / next = nullptr and the level-0 CAS fails until the other thread runs",
     {"kind": "omap", "family": "probe", "progs": [["ins:3:3", "find:2"], ["ins:2:3", "find:3"], ["ins:4:2", "lb:3"]]}, "0,0,0,0,0,0,0,1"),
    ("count() of a multi container = std::distance over equal_range(): an element of another key linked between the two iterators is counted",
     {"kind": "umset", "family": "probe", "bc": 2, "mlf": (4, 1), "hash": {1: 6, 2: 6, 3: 6}, "pre": ["ins:1"],
      "progs": [["ins:1", "ins:2"], ["ins:2", "cnt:1"], ["trav"]]},
     "0,0,0,0,0,0,0,0,0,0,0,0,0,0,0,0,0,0,0,0,0,0,0,0,1,1,1,1,1,1,1,1,1,1,1,1,1,1,1,1,1,1,1,1,1,1,1,1,1,1,0"),
]


def run_probes(ck, exes):
    """deterministic replays of the recorded observations; returns the probes on which a property monitor fired"""
    res, bad = [], []
    for what, sc, sched in OBSERVATION_PROBES:
        rc, out, err = run_harness(exe_for(sc, exes), sc, ["replay", sched], timeout=120)
        rs = parse_runs(out)
        r = rs[-1] if rs else {"mon": "harness crashed or was killed (rc=%d)" % rc, "sched": []}
        res.append({"what": what, "scenario": sc, "schedule": sched.replace(",", " "), "monitor": r.get("mon"), "observed": r.get("obs", []),
                    "results": {"%d.%d" % k: v for k, v in r.get("res", {}).items()}})
        if r.get("mon") != "ok":
            bad.append((sc, r))
    ck.extra["observation_probes"] = res
    return bad


def make_scenarios(ck, n_uo, n_sl):
    rng = ck.rng
    scs = []
    for i in range(n_uo):
        scs.append(gen_uo(rng, UO_FAMILIES[i % len(UO_FAMILIES)]))
    for i in range(n_sl):
        scs.append(gen_sl(rng, SL_FAMILIES[i % len(SL_FAMILIES)]))
    return scs


def run(ck):
    quick = ck.tier == "quick"
    ck.rule = ("E-SHIM: hand-written contention scenarios + seeded random scenarios for the 4 unordered and 4 ordered containers (families: equal keys, "
               "order keys equal/adjacent in split order, all-to-one-bucket and constant hashes, bucket-table doublings from 1-2 buckets with max_load_factor "
               "1/2..2, tall neighbouring skip-list nodes, heights 30-32, random mixes; 2-4 threads of insert/emplace/find/contains/count/lower_bound/traversal), "
               "each under seeded random schedules, every traced access replayed on the Lean model, plus bounded-preemption DFS of the corpus with the "
               "implementation-side monitors; E-PURE: exhaustive small + boundary-biased 64-bit inputs; distinct = (container, family, #threads, #failed CAS "
               "(capped), final bucket count / max height, result kinds) classes")
    ck.assumptions += [
        "proved on the models (any number of threads, every schedule, sequentially consistent interleavings of the traced accesses): the CAS list "
        "(search_after / insert_dummy_node / level walks, try_insert, lookups, traversals), the split-ordered hash table (bucket table, recursive "
        "init_bucket, doubling) and the skip list (levels, max height, bottom-up linking); the split-order arithmetic is proved for all 64-bit values",
        "partial: for ORDERED MULTI containers `every level is a sub-sequence of the level below` (equal keys ordered by index_number) is not proved "
        "(skiplist_levels_sublists_partial); it is checked on every replayed trace by the model and by the harness's structure monitor",
        "the models are tied to the code by sampled access-by-access trace replay (E-SHIM) and E-PURE, not by proof",
        "segment_table internals (my_segment_table, segment pointers) are traced but not modelled (reported as unmodelled accesses)",
        "count()/equal_range() of multi containers and lower_bound() are monitored on the implementation; only their prepare_bucket part is replayed",
        "release/acquire visibility is not modelled (the shim serialises accesses); the memory order of every traced access is checked against the minimum "
        "the argument needs (acquire loads, release/seq_cst publication)",
        "the bucket count never exceeds 2^63 (63 segment pointers); the model stops doubling there",
        "`find after insert` for the skip list assumes the insert has RETURNED (my_max_height raised): a node linked on level 0 by an insert that has not "
        "yet raised my_max_height from 0 is invisible to lookups, and other inserters busy-wait for it (recorded as an observation)",
        "unsafe_erase/extract/merge/rehash/reserve/clear/copy/move are outside the property (not concurrency-safe by contract)",
        "weak CAS never fails spuriously under the shim; allocation failure and throwing constructors are not exercised"]
    ck.trusted += ["harness/shim (atomic shim + baton scheduler)", "harness/c12/*.cpp monitors and address canonicalisation (bump arena: no address reuse within a run)",
                   "trace replay and first-appearance node renaming in checks/c12.py (sampled correspondence)", "harness/c12/consts.cpp, pure.cpp"]
    gen(ck)
    ck.lean_stage()
    pure(ck)
    exes = {"uo": build("uo"), "sl": build("sl")}
    stats = {"scenarios": 0, "runs": 0, "events": 0, "skipped_loads": 0, "unmodelled_accesses": 0, "orders_bad": set(), "cas_failures": 0,
             "dfs_runs": 0, "families": {}, "observations": 0, "observation_samples": [],
             "table_doublings": 0, "bucket_inits": 0, "upper_level_cas_failures": 0, "max_height_cas": 0}
    bad_corr, bad_mon = run_scenarios(ck, exes, CORPUS, 40 if quick else 200, "corpus", stats)
    scs = make_scenarios(ck, 100 if quick else 800, 90 if quick else 700)
    bc2, bm2 = run_scenarios(ck, exes, scs, 12 if quick else 30, "random", stats)
    bad_corr += bc2
    bad_mon += bm2
    bad_mon += run_dfs(ck, exes, CORPUS, 2, 6000 if quick else 150000, stats)
    if not quick:
        bad_mon += run_dfs(ck, exes, CORPUS, 3, 60000, stats)
    bad_mon += run_probes(ck, exes)
    searched = False
    if (ck.broken() or bad_corr) and not bad_mon:
        # something no longer checks: look harder for a schedule on which the PROPERTY fails on the implementation
        searched = True
        log("an obligation broke: searching for a failing schedule on the implementation")
        more = make_scenarios(ck, 150 if quick else 800, 150 if quick else 800)
        cand = []
        for c in bad_corr:
            if c[0] not in cand and len(cand) < 4:
                cand.append(c[0])
        _, bm3 = run_scenarios(ck, exes, cand + more, 30 if quick else 60, "search", stats, with_model=False)
        bad_mon += bm3
        if not bad_mon:
            bad_mon += run_dfs(ck, exes, cand[:2] + CORPUS, 3, 8000 if quick else 200000, stats)
    ck.extra["schedules"] = {k: (sorted(v) if isinstance(v, set) else v) for k, v in stats.items()}
    ck.extra["searched_for_failing_schedule"] = searched
    ck.oblige("gen:memory orders of the traced accesses are at least what the argument needs (acquire loads, seq_cst CAS, release publication)",
              "generated", not stats["orders_bad"], "; ".join(sorted(stats["orders_bad"])[:8]))
    ck.oblige("corr:every traced access (list pointers, bucket slots, bucket count, size, level pointers, max height), every operation result and the "
              "final contents replay on the Lean models SplitOrder / SkipList", "correspondence", not bad_corr,
              "" if not bad_corr else "%s | %s %s | pre %s | threads %s | schedule %s" % (
                  bad_corr[0][2], bad_corr[0][0]["kind"], bad_corr[0][0].get("family"), bad_corr[0][0].get("pre", []), bad_corr[0][0]["progs"], " ".join(bad_corr[0][1]["sched"])))
    ck.oblige("monitor:final contents = successful inserts, one winner per key, find-after-insert, traversals complete/duplicate-free/ordered, bucket "
              "reachability, level structure, no deadlock/livelock (random + bounded-preemption DFS)", "correspondence", not bad_mon,
              "" if not bad_mon else "%s | %s %s | pre %s | threads %s" % (bad_mon[0][1]["mon"], bad_mon[0][0]["kind"], bad_mon[0][0].get("family"), bad_mon[0][0].get("pre", []), bad_mon[0][0]["progs"]))
    seen = set()
    for sc, r in bad_mon:
        k = mon_key(sc, r.get("mon", ""))
        if k in seen or len(seen) >= 3:
            continue
        seen.add(k)
        report_failure(ck, exes, sc, r, "monitor")


def replay(ck, obj):
    r = obj["replay"]
    if r.get("engine") == "E-PURE":
        exe = cxx_build("C12", "pure", ["harness/c12/pure.cpp", STUBS], flags=["-O1", "-g", "-fno-access-control", "-fsanitize=address,undefined", "-fno-sanitize-recover=all"])
        rc, out, err = sh([exe], input=r["input"] + "\n", timeout=60)
        m = drv("c12pure", r["input"] + "\n")
        print("input %s: implementation %s, model %s" % (r["input"], out.strip(), m[0] if m else "-"))
        return 0 if (rc == 0 and m and out.strip() == m[0]) else 1
    exe = build(r["harness"])
    sc = r["scenario"]
    if "hash" in sc:
        sc["hash"] = {int(k): v for k, v in sc["hash"].items()}
    if "mlf" in sc:
        sc["mlf"] = tuple(sc["mlf"])
    mode = r.get("mode") or ["replay", ",".join(r.get("schedule") or [])]
    rc, out, err = run_harness(exe, sc, mode, timeout=600)
    runs = parse_runs(out)
    for x in runs[-1:]:
        print("monitor: %s" % x["mon"])
        print("schedule: %s" % " ".join(x["sched"]))
        print("results: %s" % x["res"])
        print("final: %s" % " ".join(x["fin"]))
    print(out[-300:] if not runs else "")
    return 0 if rc == 0 else 1
