#!/usr/bin/env python3
"""usage: python3 checks/check.py <Cxx> [--tier quick|thorough] [--replay <file>]"""
import argparse
import importlib
import json
import os
import sys
import traceback

sys.path.insert(0, os.path.dirname(os.path.abspath(__file__)))
import common  # noqa: E402


def main():
    ap = argparse.ArgumentParser()
    ap.add_argument("pid")
    ap.add_argument("--tier", default=os.environ.get("VERIF_TIER", "quick"), choices=["quick", "thorough"])
    ap.add_argument("--replay")
    a = ap.parse_args()
    pid = a.pid.upper()
    seed = int(os.environ.get("VERIF_SEED", "0") or 0)
    os.chdir(common.ROOT)
    mod = importlib.import_module(pid.lower())
    ck = common.Check(pid, a.tier, seed)
    if a.replay:
        obj = json.load(open(a.replay))
        rc = mod.replay(ck, obj)
        sys.exit(rc)
    try:
        mod.run(ck)
    except common.BuildError as e:
        ck.oblige("harness:build", "correspondence", False, str(e))
    except Exception:
        ck.oblige("check:internal-error", "correspondence", False, traceback.format_exc())
    sys.exit(ck.finish())


if __name__ == "__main__":
    main()
