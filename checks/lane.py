#!/usr/bin/env python3
"""Parallel lanes for running the checks against seeded changes without touching /repo.

A lane is a private copy of /verif (with its build output and Lean .lake directory) plus a git worktree of /repo with
its own cmake build of libtbb/libtbbmalloc, all under /tmp/lanes/<n>/.  The checks run there with VERIF_REPO pointing at
the lane's worktree, so several seeded changes can be examined at once and /repo itself is never patched.
Lanes are scratch: `lane.py rm <n>` removes the worktree and the copy.  Nothing registered in MANIFEST.json uses a lane.

usage: lane.py new <n>                    create lane n from the committed /repo HEAD and the current /verif files
       lane.py sync <n>                   refresh the lane's copy of /verif sources (checks/, harness/, lean sources, seeded/)
       lane.py seeded <n> <name> [...]    for each seeded/<name>: apply, run its checks (quick), restore; results -> seeded/RESULTS.json
       lane.py rm <n>
       lane.py ext <Cxx>                  private full copy of /verif under /tmp/ext/<Cxx>/verif for extension work on one property
       lane.py pull <Cxx>                 copy the files that property owns back from its ext copy
"""
import json
import os
import subprocess
import sys
import time

ROOT = os.path.dirname(os.path.dirname(os.path.abspath(__file__)))
LANES = "/tmp/lanes"


def sh(cmd, **kw):
    return subprocess.run(cmd, capture_output=True, text=True, **kw)


def lane_dir(n):
    return os.path.join(LANES, str(n))


def new(n):
    d = lane_dir(n)
    os.makedirs(d, exist_ok=True)
    repo = os.path.join(d, "repo")
    if not os.path.isdir(repo):
        r = sh(["git", "-C", "/repo", "worktree", "add", "--detach", repo, "HEAD"])
        if r.returncode != 0:
            print(r.stderr)
            sys.exit(1)
    sync(n, full=True)
    b = os.path.join(repo, "_build")
    if not os.path.isdir(b):
        r = sh(["cmake", "-G", "Ninja", "-S", repo, "-B", b, "-DCMAKE_BUILD_TYPE=RelWithDebInfo", "-DTBB_TEST=OFF"])
        if r.returncode != 0:
            print(r.stdout[-2000:], r.stderr[-2000:])
            sys.exit(1)
    r = sh(["cmake", "--build", b, "--target", "tbb", "tbbmalloc", "-j", "16"])
    if r.returncode != 0:
        print(r.stdout[-2000:], r.stderr[-2000:])
        sys.exit(1)
    print("lane", n, "ready at", d)


def sync(n, full=False):
    d = os.path.join(lane_dir(n), "verif")
    os.makedirs(d, exist_ok=True)
    excl = ["--exclude", ".git", "--exclude", "replays/*.json", "--exclude", "evidence/*.json"]
    if not full:
        excl += ["--exclude", "build", "--exclude", ".lake"]
    r = sh(["rsync", "-a", "--delete"] + excl + [ROOT + "/", d + "/"])
    if r.returncode != 0:
        print(r.stderr[-2000:])
        sys.exit(1)
    os.makedirs(os.path.join(d, "evidence"), exist_ok=True)
    os.makedirs(os.path.join(d, "replays"), exist_ok=True)


def seeded(n, names, tier="quick"):
    d = lane_dir(n)
    repo, verif = os.path.join(d, "repo"), os.path.join(d, "verif")
    env = dict(os.environ, VERIF_REPO=repo)
    res_path = os.path.join(ROOT, "seeded", "RESULTS.json")
    for name in names:
        sd = os.path.join(ROOT, "seeded", name)
        meta = json.load(open(os.path.join(sd, "meta.json")))
        pid = meta["property"]
        patch = os.path.join(sd, "patch.diff")
        sh(["git", "-C", repo, "checkout", "--", "."])
        r = sh(["git", "-C", repo, "apply", patch])
        if r.returncode != 0:
            print(name, "patch does not apply:", r.stderr[-300:])
            continue
        t0 = time.time()
        out, rc = "", 0
        try:
            for q in [pid] + list(meta.get("also_checks", [])):
                try:
                    r = sh([sys.executable, os.path.join(verif, "checks", "check.py"), q, "--tier", tier], cwd=verif, env=env, timeout=5400)
                    out += r.stdout + r.stderr[-2000:]
                    rc = rc or r.returncode
                except subprocess.TimeoutExpired:
                    rc = -9
        finally:
            sh(["git", "-C", repo, "checkout", "--", "."])
        open(os.path.join(d, "seeded-%s.log" % name), "w").write(out)
        viol = [l for l in out.split("\n") if l.startswith("VIOLATION")]
        status = "missed"
        if viol:
            status = "caught-with-replay" if any("no-failing-input-found" not in l for l in viol) else "caught-no-failing-input-found"
        entry = {"property": pid, "status": status, "rc": rc, "wall_s": round(time.time() - t0, 1), "tier": tier,
                 "violation_lines": viol[:3], "verif_commit": sh(["git", "-C", ROOT, "rev-parse", "--short", "HEAD"]).stdout.strip()}
        # keep the replay files the lane produced, for the record in seeded/<name>/
        for l in viol[:1]:
            rp = l.split("replay=")[1].split()[0]
            rp = rp if os.path.isabs(rp) else os.path.join(verif, rp)
            if os.path.exists(rp):
                entry["replay_head"] = open(rp).read()[:1500]
        print(name, pid, status, "%.0fs" % (time.time() - t0), flush=True)
        # merge under a lock-free read-modify-write (lanes finish minutes apart; last writer re-reads first)
        import fcntl
        with open(res_path + ".lock", "w") as lk:
            fcntl.flock(lk, fcntl.LOCK_EX)
            try:
                results = json.load(open(res_path))
            except (OSError, ValueError):
                results = {}
            results[name] = entry
            tmp = res_path + ".tmp.%d" % os.getpid()
            json.dump(results, open(tmp, "w"), indent=1, sort_keys=True)
            os.replace(tmp, res_path)


def ext_new(pid):
    """private full copy of /verif for one property's extension work: /tmp/ext/<pid>/verif (checks run there against /repo)"""
    d = os.path.join("/tmp/ext", pid, "verif")
    os.makedirs(d, exist_ok=True)
    r = sh(["rsync", "-a", "--delete", "--exclude", ".git", ROOT + "/", d + "/"])
    if r.returncode != 0:
        print(r.stderr[-2000:])
        sys.exit(1)
    print("ext copy for", pid, "at", d)


def owned(pid):
    lo = pid.lower()
    return ["lean/TbbVerif/Model/%s*" % pid, "lean/TbbVerif/Proofs/%s*" % pid, "lean/TbbVerif/Props/%s.lean" % pid,
            "lean/TbbVerif/Generated/%s*" % pid, "lean/Driver/%s*.lean" % pid, "checks/%s*.py" % lo, "harness/%s/" % lo]


def ext_pull(pid):
    """copy the files property <pid> owns from its ext copy back into /verif (nothing else)"""
    import glob
    d = os.path.join("/tmp/ext", pid, "verif")
    for pat in owned(pid):
        for src in glob.glob(os.path.join(d, pat)):
            rel = os.path.relpath(src, d)
            dst = os.path.join(ROOT, rel)
            if os.path.isdir(src):
                os.makedirs(dst, exist_ok=True)
                r = sh(["rsync", "-a", "--delete", "--exclude", "__pycache__", src.rstrip("/") + "/", dst.rstrip("/") + "/"])
            else:
                os.makedirs(os.path.dirname(dst), exist_ok=True)
                r = sh(["rsync", "-a", src, dst])
            if r.returncode != 0:
                print(r.stderr[-500:])
    print("pulled", pid)


def rm(n):
    d = lane_dir(n)
    sh(["git", "-C", "/repo", "worktree", "remove", "--force", os.path.join(d, "repo")])
    sh(["rm", "-rf", d])
    sh(["git", "-C", "/repo", "worktree", "prune"])


if __name__ == "__main__":
    cmd = sys.argv[1]
    if cmd == "new":
        new(sys.argv[2])
    elif cmd == "sync":
        sync(sys.argv[2])
    elif cmd == "seeded":
        seeded(sys.argv[2], sys.argv[3:])
    elif cmd == "ext":
        ext_new(sys.argv[2])
    elif cmd == "pull":
        ext_pull(sys.argv[2])
    elif cmd == "rm":
        rm(sys.argv[2])
