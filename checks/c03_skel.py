"""C03 — E-GEN translators for the catch / rethrow SKELETONS of the clients of the exception machinery.

Re-extracted from the current source text on every run (comments and assertions stripped, whitespace normalised, local names abstracted):
  execSkel   task_arena_impl::execute / delegated_task (src/tbb/arena.cpp)  -> Exec.Skel (11 numbers)
  catchSkel  the catch block of local_wait_for_all (src/tbb/task_dispatcher.h) + cancel_group_execution (task_group_context.cpp)
  graphSkel  graph::wait_for_all (detail/_flow_graph_impl.h), graph::reset (flow_graph.h)  -> Graph.Skel (11 numbers)
  pipeSkel   stage_task / input_buffer (src/tbb/parallel_pipeline.cpp), concrete_filter (detail/_pipeline_filters.h) -> Pipe.Skel (9 numbers)
  tgSkel     task_group_base::wait / internal_run_and_wait (task_group.h)
Every fact is 1 (as the models assume) / 0 (not found in this shape); the Lean theorems `*_skeleton_ok` decide them.  A fact that cannot be
extracted at all (function not found) is reported as a failed `gen:` obligation by the plug-in.
"""
import os
import re


def strip(src):
    src = re.sub(r"/\*.*?\*/", " ", src, flags=re.S)
    src = re.sub(r"//[^\n]*", " ", src)
    src = re.sub(r"__TBB_ASSERT(_EX|_RELEASE)?\s*\((?:[^()]|\((?:[^()]|\([^()]*\))*\))*\)\s*;", " ", src)
    src = re.sub(r"ITT_[A-Z_]+\s*\((?:[^()]|\((?:[^()]|\([^()]*\))*\))*\)\s*;", " ", src)
    return src


def block_after(src, pos):
    """text of the brace block that starts at the first '{' at or after pos (without the outer braces), and its end offset"""
    i = src.index("{", pos)
    depth, j = 0, i
    while j < len(src):
        if src[j] == "{":
            depth += 1
        elif src[j] == "}":
            depth -= 1
            if depth == 0:
                return src[i + 1:j], j + 1
        j += 1
    raise ValueError("unbalanced braces")


def paren_after(src, pos):
    i = src.index("(", pos)
    depth, j = 0, i
    while j < len(src):
        if src[j] == "(":
            depth += 1
        elif src[j] == ")":
            depth -= 1
            if depth == 0:
                return src[i + 1:j], j + 1
        j += 1
    raise ValueError("unbalanced parentheses")


def body_of(src, sig_re, start=0):
    m = re.compile(sig_re, re.S).search(src, start)
    if not m:
        raise KeyError(sig_re)
    return block_after(src, m.end() - 1 if src[m.end() - 1] == "{" else m.end())[0]


def norm(s):
    return re.sub(r"\s+", " ", s).strip()


def pos(s, pat, start=0):
    m = re.compile(pat, re.S).search(s, start)
    return m.start() if m else -1


def depth_at(s, p):
    """brace depth of offset p inside s"""
    return s[:p].count("{") - s[:p].count("}")


def read(repo, rel):
    return strip(open(os.path.join(repo, rel)).read())


# ---------------------------------------------------------------------------------------------------------------------

def exec_skel(repo):
    src = read(repo, "src/tbb/arena.cpp")
    ex = body_of(src, r"void\s+task_arena_impl::execute\s*\(\s*d1::task_arena_base\s*&\s*\w+\s*,\s*d1::delegate_base\s*&\s*\w+\s*\)\s*\{")
    # the delegated block: from the wait_context declaration to its closing brace
    m = re.search(r"d1::wait_context\s+(\w+)\s*\(\s*1\s*\)\s*;", ex)
    info = {}
    if not m:
        raise KeyError("wait_context wo(1) in task_arena_impl::execute")
    wo = m.group(1)
    mc = re.search(r"d1::task_group_context\s+(\w+)\s*\(", ex)
    md = re.search(r"delegated_task\s+(\w+)\s*\(", ex)
    ctx = mc.group(1) if mc else None
    dt_last = bool(mc and md and m.start() < md.start() and mc.start() < md.start())
    # no other local with a destructor is declared after dt inside the same block up to the wait loop
    loop = re.search(r"\bdo\s*\{", ex)
    loop_end = block_after(ex, loop.start())[1] if loop else -1
    wm = re.compile(r"\}\s*while\s*\(").search(ex, loop_end - 1) if loop else None
    after_loop = paren_after(ex, wm.end() - 1)[1] if wm else -1
    ml = re.compile(r"auto\s+(\w+)\s*=\s*%s\s*\.\s*my_exception\s*\.\s*load\s*\(\s*std::memory_order_(\w+)\s*\)\s*;" % re.escape(ctx or "exec_context")).search(ex)
    load_after = bool(ml and loop and ml.start() > after_loop and depth_at(ex, ml.start()) == depth_at(ex, loop.start()))
    rethrow_always = False
    if ml:
        v = ml.group(1)
        mi = re.compile(r"if\s*\(").search(ex, ml.end())
        if mi:
            cond, ce = paren_after(ex, mi.end() - 1)
            cond = norm(cond)
            thenb = block_after(ex, ce)[0] if ex[ce:].lstrip().startswith("{") else ex[ce:ex.index(";", ce) + 1]
            rethrow_always = cond in (v, "%s != nullptr" % v, "%s!=nullptr" % v, "nullptr != %s" % v) and re.search(r"\b%s\s*->\s*throw_self\s*\(\s*\)" % v, thenb) is not None \
                and norm(ex[ml.end():mi.start()]) == ""
    info["load_order"] = ml.group(2) if ml else None
    # delegated_task
    cm = re.search(r"class\s+delegated_task\b[^{;]*\{", src)
    cls = block_after(src, cm.end() - 1)[0]
    fin = body_of(cls, r"void\s+finalize\s*\(\s*\)\s*\{")
    order = []
    for name, pat in (("release", r"m_wait_ctx\s*\.\s*release\s*\("), ("notify", r"m_monitor\s*\.\s*notify\s*\("), ("completed", r"m_completed\s*\.\s*store\s*\(\s*true")):
        order.append((pos(fin, pat), name))
    idx = {n: i for i, (p, n) in enumerate(sorted(order)) if p >= 0}
    fin_order = [idx.get("release", 9), idx.get("notify", 9), idx.get("completed", 9)]
    canc = body_of(cls, r"d1::task\s*\*\s*cancel\s*\(\s*d1::execution_data\s*&\s*\w*\s*\)\s*override\s*\{")
    exe = body_of(cls, r"d1::task\s*\*\s*execute\s*\(\s*d1::execution_data\s*&\s*\w*\s*\)\s*override\s*\{")
    cancel_fin = re.search(r"\bfinalize\s*\(\s*\)\s*;", canc) is not None
    pcall = pos(exe, r"m_delegate\s*\(\s*\)")
    pfin = pos(exe, r"\bfinalize\s*\(\s*\)\s*;")
    ptry = pos(exe, r"try_call\s*\(")
    exec_fin = pcall >= 0 and pfin > pcall and ptry >= 0 and ptry < pcall and depth_at(exe, pfin) == 0
    dtor = body_of(cls, r"~\s*delegated_task\s*\(\s*\)\s*(?:override\s*)?\{")
    dtor_waits = re.search(r"spin_wait_until_eq\s*\(\s*m_completed\s*,\s*true\s*\)", dtor) is not None
    skel = [int(rethrow_always), int(load_after), int(dt_last), int(dtor_waits)] + fin_order + [int(cancel_fin), int(exec_fin)]
    cs = catch_skel(repo)
    skel += [cs[0] & cs[1], cs[2]]
    return skel, info


def catch_skel(repo):
    src = read(repo, "src/tbb/task_dispatcher.h")
    m = re.search(r"catch\s*\(\s*\.\.\.\s*\)\s*\{", src)
    if not m:
        raise KeyError("catch (...) in task_dispatcher.h")
    cb = block_after(src, m.end() - 1)[0]
    mi = re.search(r"if\s*\(\s*ed\s*\.\s*context\s*->\s*cancel_group_execution\s*\(\s*\)\s*\)", cb)
    store_in_if = False
    only_store = False
    if mi:
        inner = block_after(cb, mi.end())[0]
        store_in_if = re.search(r"my_exception\s*\.\s*store\s*\(\s*tbb_exception_ptr::allocate\s*\(\s*\)\s*,\s*std::memory_order_release\s*\)", inner) is not None
        rest = cb[:mi.start()] + cb[block_after(cb, mi.end())[1]:]
        only_store = "my_exception" not in rest
    ctxsrc = read(repo, "src/tbb/task_group_context.cpp")
    cg = body_of(ctxsrc, r"bool\s+task_group_context_impl::cancel_group_execution\s*\(\s*d1::task_group_context\s*&\s*\w+\s*\)\s*\{")
    xm = re.search(r"if\s*\(", cg)
    by_xchg = False
    if xm:
        cond, ce = paren_after(cg, xm.end() - 1)
        cond = norm(cond)
        by_xchg = re.search(r"my_cancellation_requested\s*\.\s*exchange\s*\(\s*1\s*\)", cond) is not None and "||" in cond and \
            re.search(r"return\s+false\s*;", block_after(cg, ce)[0]) is not None and re.search(r"return\s+true\s*;", cg[ce:]) is not None and \
            "my_cancellation_requested.store" not in cg.replace(" ", "")
    return [int(store_in_if), int(only_store), int(by_xchg)]


def graph_skel(repo):
    src = read(repo, "include/oneapi/tbb/detail/_flow_graph_impl.h")
    w = body_of(src, r"void\s+wait_for_all\s*\(\s*\)\s*\{")
    ptry = pos(w, r"try_call\s*\(")
    entry = w[:ptry] if ptry >= 0 else ""
    entry_clears = re.search(r"\bcancelled\s*=\s*false\s*;", entry) is not None and re.search(r"\bcaught_exception\s*=\s*false\s*;", entry) is not None
    wait_in = read_flag = False
    handler = ""
    rethrows = False
    tail = ""
    if ptry >= 0:
        arg, ae = paren_after(w, ptry)
        tb = block_after(arg, 0)[0]
        pw = pos(tb, r"my_task_arena\s*->\s*execute\s*\(")
        pwait = pos(tb, r"\bwait\s*\(\s*my_wait_context_vertex\s*\.\s*get_context\s*\(\s*\)\s*,\s*\*\s*my_context\s*\)")
        wait_in = pw >= 0 and pwait > pw
        pf = pos(tb, r"\bcancelled\s*=\s*my_context\s*->\s*is_group_execution_cancelled\s*\(\s*\)\s*;")
        read_flag = pf > pwait >= 0 and depth_at(tb, pf) == 0
        mh = re.compile(r"\.\s*(on_exception|on_completion)\s*\(").match(w, ae) or re.compile(r"\s*\.\s*(on_exception|on_completion)\s*\(").match(w, ae)
        if mh:
            rethrows = mh.group(1) == "on_exception"
            harg, he = paren_after(w, mh.end() - 1)
            handler = block_after(harg, 0)[0]
            tail = w[he:]
    h_reset = re.search(r"my_context\s*->\s*reset\s*\(\s*\)\s*;", handler) is not None
    h_caught = re.search(r"\bcaught_exception\s*=\s*true\s*;", handler) is not None
    h_canc = re.search(r"\bcancelled\s*=\s*true\s*;", handler) is not None
    reset_after = re.search(r"my_context\s*->\s*reset\s*\(\s*\)\s*;", tail) is not None
    fg = read(repo, "include/oneapi/tbb/flow_graph.h")
    r = body_of(fg, r"inline\s+void\s+graph::reset\s*\(\s*reset_flags\s+\w+\s*\)\s*\{")
    r_flags = re.search(r"\bcancelled\s*=\s*false\s*;", r) is not None and re.search(r"\bcaught_exception\s*=\s*false\s*;", r) is not None
    r_ctx = re.search(r"my_context\s*->\s*reset\s*\(\s*\)\s*;", r) is not None
    pd = pos(r, r"deactivate_graph\s*\(\s*\*\s*this\s*\)")
    pa = pos(r, r"\bactivate_graph\s*\(\s*\*\s*this\s*\)\s*;\s*$")
    pn = pos(r, r"reset_node\s*\(")
    r_act = 0 <= pd < pn < pa
    return [int(entry_clears), int(wait_in), int(read_flag), int(h_reset), int(h_caught), int(h_canc), int(rethrows), int(reset_after),
            int(r_flags), int(r_ctx), int(r_act)]


def pipe_skel(repo):
    src = read(repo, "src/tbb/parallel_pipeline.cpp")
    cm = re.search(r"class\s+stage_task\b[^{;]*\{", src)
    cls = block_after(src, cm.end() - 1)[0]
    dtor = body_of(cls, r"~\s*stage_task\s*\(\s*\)\s*(?:override\s*)?\{")
    mi = re.search(r"if\s*\(", dtor)
    d_fin = d_last = False
    if mi:
        cond, ce = paren_after(dtor, mi.end() - 1)
        cond = norm(cond).replace(" ", "")
        inner, be = block_after(dtor, ce)
        d_fin = cond in ("my_filter&&my_object", "my_object&&my_filter") and re.search(r"my_filter\s*->\s*finalize\s*\(\s*my_object\s*\)\s*;", inner) is not None
        rest = norm(dtor[be:])
        d_last = re.fullmatch(r"my_pipeline\s*\.\s*wait_ctx\s*\.\s*release\s*\(\s*\)\s*;", rest) is not None and "release" not in dtor[:be]
    canc = body_of(cls, r"task\s*\*\s*cancel\s*\(\s*d1::execution_data\s*&\s*\w+\s*\)\s*override\s*\{")
    fin = body_of(cls, r"void\s+finalize\s*\(\s*d1::execution_data\s*&\s*\w+\s*\)\s*\{")
    c_fin = re.search(r"\bfinalize\s*\(\s*\w+\s*\)\s*;", canc) is not None and re.search(r"m_allocator\s*\.\s*delete_object\s*\(\s*this\s*,", fin) is not None
    exe = body_of(cls, r"task\s*\*\s*execute\s*\(\s*d1::execution_data\s*&\s*\w+\s*\)\s*override\s*\{")
    e_fin = re.search(r"if\s*\(\s*!\s*execute_filter\s*\(\s*\w+\s*\)\s*\)\s*\{\s*finalize\s*\(\s*\w+\s*\)\s*;\s*return\s+nullptr\s*;\s*\}\s*return\s+this\s*;", norm(exe)) is not None
    ef = body_of(src, r"bool\s+stage_task::execute_filter\s*\(\s*d1::execution_data\s*&\s*\w+\s*\)\s*\{")
    mp = re.search(r"if\s*\(\s*my_filter\s*->\s*my_input_buffer\s*->\s*try_put_token\s*\(\s*\*\s*this\s*\)\s*\)", ef)
    park_clears = False
    if mp:
        inner = norm(block_after(ef, mp.end())[0])
        park_clears = re.fullmatch(r"my_filter\s*=\s*nullptr\s*;\s*return\s+false\s*;", inner) is not None
    # does anything finalise the tokens still parked when the buffers / the pipeline are destroyed?
    bm = re.search(r"class\s+input_buffer\b[^{;]*\{", src)
    bcls = block_after(src, bm.end() - 1)[0]
    bdtor = body_of(bcls, r"~\s*input_buffer\s*\(\s*\)\s*\{")
    pdtor = body_of(src, r"pipeline::~\s*pipeline\s*\(\s*\)\s*\{")
    clears = bool(re.search(r"finalize\s*\(", bdtor) or re.search(r"finalize\s*\(", pdtor) or re.search(r"\bclear\s*\(", pdtor))
    fh = read(repo, "include/oneapi/tbb/detail/_pipeline_filters.h")
    # intermediate and output filters: operator() destroys the input after the body; finalize destroys the input
    ops = [m.start() for m in re.finditer(r"void\s*\*\s*operator\s*\(\s*\)\s*\(\s*void\s*\*\s*\w*\s*\)\s*override\s*\{", fh)]
    f_destroy = True
    n_in = 0
    stop_destroys = False
    for p in ops:
        b = block_after(fh, p)[0]
        if "flow_control" in b:
            mm = re.search(r"if\s*\(\s*\w+\s*\.\s*is_pipeline_stopped\s*\)", b)
            if mm and "output_helper" in b:
                inner = block_after(b, mm.end())[0]
                stop_destroys = re.search(r"output_helper::destroy_token\s*\(\s*\w+\s*\)\s*;", inner) is not None and re.search(r"return\s+nullptr\s*;", inner) is not None
            continue
        n_in += 1
        pb = pos(b, r"invoke\s*\(\s*my_body")
        pdst = pos(b, r"input_helper::destroy_token\s*\(\s*\w+\s*\)\s*;")
        f_destroy = f_destroy and 0 <= pb < pdst
    fins = [block_after(fh, m.start())[0] for m in re.finditer(r"void\s+finalize\s*\(\s*void\s*\*\s*\w+\s*\)\s*override\s*\{", fh)]
    fin_destroys = len(fins) >= 2 and all(re.search(r"input_helper::destroy_token\s*\(\s*\w+\s*\)\s*;", b) for b in fins)
    return [int(d_fin), int(d_last), int(park_clears), int(c_fin), int(e_fin), int(f_destroy and n_in >= 2), int(fin_destroys), int(stop_destroys), int(clears)]


def tg_skel(repo):
    src = read(repo, "include/oneapi/tbb/task_group.h")
    out = []
    sigs = [r"task_group_status\s+wait\s*\(\s*\)\s*\{", r"task_group_status\s+internal_run_and_wait\s*\(\s*const\s+F\s*&\s*\w+\s*\)\s*\{",
            r"task_group_status\s+internal_run_and_wait\s*\(\s*d2::task_handle\s*&&\s*\w+\s*\)\s*\{"]
    cm = re.search(r"class\s+task_group_base\b[^{;]*\{", src)
    cls = block_after(src, cm.end() - 1)[0]
    for sig in sigs:
        b = body_of(cls, sig)
        mh = re.search(r"\.\s*(on_completion|on_exception)\s*\(", b)
        oncomp = bool(mh and mh.group(1) == "on_completion")
        order = False
        if mh:
            harg = paren_after(b, mh.end() - 1)[0]
            hb = block_after(harg, 0)[0]
            pr = pos(hb, r"\w+\s*=\s*(?:m_context|context\s*\(\s*\))\s*\.\s*is_group_execution_cancelled\s*\(\s*\)\s*;")
            ps = pos(hb, r"context\s*\(\s*\)\s*\.\s*reset\s*\(\s*\)\s*;")
            order = 0 <= pr < ps
        out += [int(oncomp), int(order)]
    return out


def all_skeletons(repo):
    """{name: list of ints} and the list of extraction errors"""
    res, errs, info = {}, [], {}
    for name, fn in (("execSkel", exec_skel), ("graphSkel", graph_skel), ("pipeSkel", pipe_skel), ("tgSkel", tg_skel), ("catchSkel", catch_skel)):
        try:
            r = fn(repo)
            if name == "execSkel":
                r, info = r
            res[name] = r
        except (KeyError, ValueError, AttributeError, IndexError) as ex:
            errs.append("%s: %s: %s" % (name, type(ex).__name__, ex))
    return res, errs, info


if __name__ == "__main__":
    import sys
    print(all_skeletons(sys.argv[1] if len(sys.argv) > 1 else "/repo"))
