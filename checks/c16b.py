"""C16, second half (imported by checks/c16.py): isolation filters, mandatory concurrency, observers, end-to-end bounds.

  E-GEN   the isolation conditions at every take point (arena_slot.cpp get_task_impl / steal_task, mailbox.h internal_pop,
          task_dispatcher.h get_mailbox_task / receive_or_steal_task / get_critical_task, arena.h get_critical_task,
          task_stream.h look_specific), the isolation tags written at spawn / enqueue / submit, the mandatory-concurrency
          decisions of advertise_new_work / out_of_work / on_thread_leaving, the observer notification call sites
          -> Generated/C16.lean (the Lean theorems are stated over these generated definitions)
  E-PURE  op sequences on a real arena of the whole instrumented runtime played by one thread ("puppet": r1::spawn, enqueue,
          submit(critical), arena_slot::get_task, one pass of receive_or_steal_task, get_critical_task) == Iso machine
  E-SHIM  arena::advertise_new_work / out_of_work on the white-box world under controlled schedules, every access to the two
          atomic_flag words replayed by the Mand interleaving model (harness/c16/wb.cpp `mand`)
  E-SHIM  whole instrumented runtime (harness/c16/rt.cpp): isolation / worker budget / observer / concurrency-bound monitors
"""
import os
import re

from common import BuildError, REPO


class GenError(Exception):
    pass


def build_rt():
    import common
    objs = common.shim_runtime_objects()
    exe = common.cxx_build("C16", "rt", ["harness/c16/rt.cpp", common.SHIM_SRC],
                           flags=["-O1", "-g", "-fno-access-control", "-I" + REPO + "/src"] + common.SHIM_FLAGS, libs=objs + ["-ldl"])
    return exe


# ---------------------------------------------------------------------------------------------------------
# a tiny C++ condition -> Lean translator (bool / nat / int expressions over a fixed atom table)
# ---------------------------------------------------------------------------------------------------------
TOK = re.compile(r"\s*(?:(\d+)[uUlL]*|(@\w+)|(&&|\|\||==|!=|>=|<=|[!()<>?:\-]))")


def tokenize(s):
    out, i = [], 0
    s = s.strip()
    while i < len(s):
        m = TOK.match(s, i)
        if not m or m.end() == i:
            raise GenError("cannot tokenize `%s` at `%s`" % (s, s[i:i + 40]))
        if m.group(1) is not None:
            out.append(("num", int(m.group(1))))
        elif m.group(2) is not None:
            out.append(("atom", m.group(2)[1:]))
        else:
            out.append(("op", m.group(3)))
        i = m.end()
    return out


class Tr:
    """expr := ternary; every node is (lean, type) with type in {bool, nat, int}"""

    def __init__(self, toks, types):
        self.t, self.i, self.types = toks, 0, types

    def peek(self):
        return self.t[self.i] if self.i < len(self.t) else ("eof", None)

    def eat(self, v=None):
        k, x = self.peek()
        if v is not None and x != v:
            raise GenError("expected %s, got %s" % (v, x))
        self.i += 1
        return k, x

    @staticmethod
    def as_bool(n):
        return n if n[1] == "bool" else ("(%s != 0)" % n[0], "bool")

    @staticmethod
    def unify(a, b):
        if a[1] == b[1]:
            return a, b, a[1]
        if "bool" in (a[1], b[1]):
            raise GenError("bool/number mix: %s %s" % (a, b))
        to_int = lambda n: n if n[1] == "int" else ("(%s : Int)" % n[0], "int")
        return to_int(a), to_int(b), "int"

    def ternary(self):
        c = self.lor()
        if self.peek() == ("op", "?"):
            self.eat()
            a = self.ternary()
            self.eat(":")
            b = self.ternary()
            a, b, ty = self.unify(a, b)
            return ("(if %s then %s else %s)" % (self.as_bool(c)[0], a[0], b[0]), ty)
        return c

    def lor(self):
        a = self.land()
        while self.peek() == ("op", "||"):
            self.eat()
            b = self.land()
            a = ("(%s || %s)" % (self.as_bool(a)[0], self.as_bool(b)[0]), "bool")
        return a

    def land(self):
        a = self.cmp()
        while self.peek() == ("op", "&&"):
            self.eat()
            b = self.cmp()
            a = ("(%s && %s)" % (self.as_bool(a)[0], self.as_bool(b)[0]), "bool")
        return a

    def cmp(self):
        a = self.unary()
        k, v = self.peek()
        if k == "op" and v in ("==", "!=", ">", "<", ">=", "<="):
            self.eat()
            b = self.unary()
            if a[1] == "bool" and b[1] == "bool" and v in ("==", "!="):
                return ("(%s %s %s)" % (a[0], v, b[0]), "bool")
            a, b, _ = self.unify(a, b)
            if v in ("==", "!="):
                return ("(%s %s %s)" % (a[0], v, b[0]), "bool")
            return ("(decide (%s %s %s))" % (a[0], v, b[0]), "bool")
        return a

    def unary(self):
        k, v = self.peek()
        if (k, v) == ("op", "!"):
            self.eat()
            a = self.unary()
            return ("(!%s)" % self.as_bool(a)[0], "bool")
        if (k, v) == ("op", "-"):
            self.eat()
            a = self.unary()
            if a[1] == "bool":
                raise GenError("negated bool")
            return ("(-(%s : Int))" % a[0], "int")
        if (k, v) == ("op", "("):
            self.eat()
            a = self.ternary()
            self.eat(")")
            return a
        if k == "num":
            self.eat()
            return ("%d" % v, "nat")
        if k == "atom":
            self.eat()
            if v not in self.types:
                raise GenError("atom %s not allowed here" % v)
            return (v, self.types[v])
        raise GenError("unexpected token %s %s" % (k, v))


# C++ sub-expressions recognised as atoms (longest first); anything else makes the extraction fail
ATOMS = [
    ("task_accessor::isolation(*result)", "tag"), ("task_accessor::isolation(*curr)", "tag"),
    ("task_accessor::isolation(*crit_t)", "tag"), ("task_accessor::isolation(*t)", "tag"),
    ("task_accessor::is_proxy_task(*result)", "isProxy"),
    ("task_proxy::is_shared(tp.task_and_tag)", "shared"), ("tp.outbox->recipient_is_idle()", "destIdle"),
    ("a.mailbox(slot_index).recipient_is_idle()", "victimIdle"),
    ("tls->my_task_dispatcher->m_execute_data_ext.isolation", "edIso"), ("tls.my_task_dispatcher->m_execute_data_ext.isolation", "edIso"),
    ("dl_guard.old_execute_data_ext.isolation", "edIso"), ("dispatcher->m_execute_data_ext.isolation", "edIso"), ("ed.isolation", "edIso"),
    ("reinterpret_cast<isolation_type>(&d)", "fresh"), ("current_isolation", "cur"), ("previous_isolation", "prev"),
    ("no_isolation", "0"), ("isolation", "iso"), ("fifo_allowed", "fifoAllowed"), ("omit", "omitted"), ("result", "nonNull"),
    ("work_type == work_enqueued", "enq"), ("my_num_reserved_slots", "reserved"), ("my_num_slots", "numSlots"),
    ("is_mandatory_needed", "m"), ("are_workers_needed", "w"), ("disable_mandatory", "m"), ("release_workers", "w"),
    ("is_arena_workerless()", "workerless"), ("(int)my_max_num_workers", "maxW"), ("my_max_num_workers", "maxW"),
    ("has_enqueued_tasks()", "hasEnq"), ("has_tasks()", "hasTasks"),
    ("ref_param == ref_external", "external"), ("my_mandatory_concurrency.test()", "mandSet"),
    ("last == my_tail.load(std::memory_order_relaxed)", "lastIsTail"), ("last == nullptr", "lastIsNull"),
    ("num_workers_active()", "active"), ("my_num_workers_allotted.load(std::memory_order_relaxed)", "allot"),
]
TYPES = {"tag": "nat", "iso": "nat", "edIso": "nat", "fresh": "nat", "cur": "nat", "prev": "nat", "isProxy": "bool", "shared": "bool",
         "destIdle": "bool", "victimIdle": "bool", "fifoAllowed": "bool", "omitted": "bool", "nonNull": "bool", "enq": "bool",
         "reserved": "nat", "numSlots": "nat", "m": "bool", "w": "bool", "workerless": "bool", "maxW": "nat", "hasEnq": "bool",
         "hasTasks": "bool", "external": "bool", "mandSet": "bool", "lastIsTail": "bool", "lastIsNull": "bool", "active": "nat", "allot": "nat"}


def translate(src, allowed, want):
    s = norm(src)
    for c, a in ATOMS:
        s = s.replace(norm(c), " %s " % a if a == "0" else " @%s " % a)
    node = Tr(tokenize(s), {a: TYPES[a] for a in allowed})
    r = node.ternary()
    if node.peek()[0] != "eof":
        raise GenError("trailing tokens in `%s`" % src)
    if want == "bool":
        r = Tr.as_bool(r)
    elif want == "int" and r[1] == "nat":
        r = ("(%s : Int)" % r[0], "int")
    if r[1] != want:
        raise GenError("`%s` has type %s, wanted %s" % (src, r[1], want))
    return r[0]


# ---------------------------------------------------------------------------------------------------------
# source access
# ---------------------------------------------------------------------------------------------------------
def strip_comments(s):
    s = re.sub(r"/\*.*?\*/", " ", s, flags=re.S)
    s = re.sub(r"//[^\n]*", " ", s)
    return s


def norm(s):
    """canonical spacing: no blank next to any operator / bracket / punctuation character"""
    s = re.sub(r"\s+", " ", strip_comments(s))
    s = re.sub(r" ?([^\w ]) ?", r"\1", s)     # a blank survives only between two word characters
    return s.strip()


_SRC = {}


def src(rel):
    if rel not in _SRC:
        with open(os.path.join(REPO, rel)) as f:
            _SRC[rel] = strip_comments(f.read())
    return _SRC[rel]


def body_of(rel, head_re):
    """text of the brace block that follows the first match of head_re (normalised)"""
    s = src(rel)
    m = re.search(head_re, s)
    if not m:
        raise GenError("%s: `%s` not found" % (rel, head_re))
    i = s.index("{", m.end() - 1) if s[m.end() - 1] != "{" else m.end() - 1
    depth, j = 0, i
    while j < len(s):
        if s[j] == "{":
            depth += 1
        elif s[j] == "}":
            depth -= 1
            if depth == 0:
                return norm(s[i:j + 1])
        j += 1
    raise GenError("%s: unbalanced braces after `%s`" % (rel, head_re))


def one(pattern, text, what):
    ms = re.findall(pattern, text)
    if len(ms) != 1:
        raise GenError("%s: expected exactly one match, found %d" % (what, len(ms)))
    return ms[0]


# ---------------------------------------------------------------------------------------------------------
# the generated definitions: (lean name, lean signature, result type, allowed atoms, extractor, most permissive fallback)
# ---------------------------------------------------------------------------------------------------------
def x_own():
    b = body_of("src/tbb/arena_slot.cpp", r"arena_slot::get_task_impl\s*\([^)]*\)\s*\{")
    omit = one(r"bool omit=([^;]+);", b, "get_task_impl: `bool omit = ...;`")
    c1, c2 = one(r"if\(([^{};]+?)\)\{return result;\}else if\(([^{};]+?)\)\{tasks_omitted=true;return nullptr;\}", b,
                 "get_task_impl: `if (..) { return result; } else if (..) { tasks_omitted = true; return nullptr; }`")
    return {"isoOwnOmit": omit, "isoOwnPlain": c1, "isoOwnSkip": c2}


def x_steal():
    b = body_of("src/tbb/arena_slot.cpp", r"arena_slot::steal_task\s*\([^)]*\)\s*\{")
    c1, c2, c3 = one(r"if\(result\)\{if\(([^{};]+?)\)\{if\(([^{};]+?)\)\{break;\}task_proxy& ?tp=\*static_cast<task_proxy\*>\(result\);"
                     r"if\(([^{};]+?)\)\{break;\}\}result=nullptr;tasks_omitted=true;\}", b,
                     "steal_task: `if (result) { if (ISO) { if (!proxy) break; ...; if (PROXY) break; } result = nullptr; tasks_omitted = true; }`")
    return {"isoStealOk": c1, "isoStealPlain": c2, "isoStealProxyTake": c3}


def x_mail():
    b = body_of("src/tbb/mailbox.h", r"task_proxy\*\s*internal_pop\s*\([^)]*\)\s*\{")
    g, s = one(r"atomic_proxy_ptr\*prev_ptr=&my_first;if\(([^{};]+?)\)\{while\(([^{};]+?)\)\{prev_ptr=&curr->next_in_mailbox;", b,
               "mailbox internal_pop: `if (GUARD) { while (SKIP) { prev_ptr = &curr->next_in_mailbox; ...`")
    return {"isoMailGuard": g, "isoMailSkip": s}


def x_args():
    """the isolation argument handed down to every take point, from the dispatch loop's `isolation`"""
    td = "src/tbb/task_dispatcher.h"
    lw = body_of(td, r"d1::task\*\s*task_dispatcher::local_wait_for_all\s*\(d1::task\*\s*t,\s*Waiter&\s*waiter\s*\)\s*\{")
    out = {"isoLoop": one(r"const isolation_type isolation=([^;]+);", lw, "local_wait_for_all: `const isolation_type isolation = ...;`")}
    out["isoArgOwn1"] = one(r"slot\.get_task\(ed,([^()]+?)\)", lw, "local_wait_for_all: slot.get_task(ed, ISO)")
    out["isoArgIdle"] = one(r"receive_or_steal_task<ITTPossible>\(\*m_thread_data,ed,waiter,([^(),]+?),", lw, "local_wait_for_all: receive_or_steal_task(.., ISO, ..)")
    gt = body_of("src/tbb/arena_slot.cpp", r"arena_slot::get_task\s*\([^)]*\)\s*\{")
    out["isoArgOwn2"] = one(r"get_task_impl\(T,ed,tasks_omitted,([^()]+?)\)", gt, "get_task: get_task_impl(T, ed, tasks_omitted, ISO)")
    rs = body_of(td, r"d1::task\*\s*task_dispatcher::receive_or_steal_task\s*\([^)]*\)\s*\{")
    out["isoArgMail1"] = one(r"get_inbox_or_critical_task\(ed,inbox,([^(),]+?),", rs, "receive_or_steal_task: get_inbox_or_critical_task(ed, inbox, ISO, ..)")
    out["isoArgSteal1"] = one(r"steal_or_get_critical\(ed,a,arena_index,tls\.my_random,([^(),]+?),", rs, "receive_or_steal_task: steal_or_get_critical(.., ISO, ..)")
    out["isoFifoOk"] = one(r"else if\(([^{};]+?)&&\(t=get_stream_or_critical_task\(ed,a,fifo_stream,", rs,
                           "receive_or_steal_task: `else if (COND && (t = get_stream_or_critical_task(ed, a, fifo_stream, ...`")
    ib = body_of(td, r"d1::task\*\s*task_dispatcher::get_inbox_or_critical_task\s*\([^)]*\)\s*\{")
    out["isoArgMail2"] = one(r"result=get_mailbox_task\(inbox,ed,([^()]+?)\);", ib, "get_inbox_or_critical_task: get_mailbox_task(inbox, ed, ISO)")
    mb = body_of(td, r"d1::task\*\s*task_dispatcher::get_mailbox_task\s*\([^)]*\)\s*\{")
    out["isoArgMail3"] = one(r"while\(task_proxy\*const tp=my_inbox\.pop\(([^()]+?)\)\)", mb, "get_mailbox_task: my_inbox.pop(ISO)")
    sc = body_of(td, r"d1::task\*\s*task_dispatcher::steal_or_get_critical\s*\([^)]*\)\s*\{")
    out["isoArgSteal2"] = one(r"a\.steal_task\(arena_index,random,ed,([^()]+?)\)", sc, "steal_or_get_critical: a.steal_task(arena_index, random, ed, ISO)")
    ah = body_of("src/tbb/arena.h", r"inline d1::task\*\s*arena::steal_task\s*\([^)]*\)\s*\{")
    out["isoArgSteal3"] = one(r"victim->steal_task\(\*this,([^(),]+?),k\)", ah, "arena::steal_task: victim->steal_task(*this, ISO, k)")
    cr = body_of(td, r"inline d1::task\*\s*task_dispatcher::get_critical_task\s*\(d1::task\*\s*t,\s*execution_data_ext&\s*ed,[^)]*\)\s*\{")
    out["isoArgCrit1"] = one(r"a\.get_critical_task\(slot\.hint_for_critical_stream,([^()]+?)\)", cr, "get_critical_task: a.get_critical_task(hint, ISO)")
    ac = body_of("src/tbb/arena.h", r"inline d1::task\*\s*arena::get_critical_task\s*\([^)]*\)\s*\{")
    g, a2 = one(r"if\(([^{};]+?)\)\{return my_critical_task_stream\.pop_specific\(hint,([^()]+?)\);\}else\{return my_critical_task_stream\.pop\(", ac,
                "arena::get_critical_task: `if (COND) { return pop_specific(hint, ISO); } else { return pop(..`")
    out["isoCritSpecific"], out["isoArgCrit2"] = g, a2
    ps = body_of("src/tbb/task_stream.h", r"d1::task\*\s*pop_specific\s*\([^)]*\)\s*\{")
    out["isoArgCrit3"] = one(r"result=look_specific\(lane\.my_queue,([^()]+?)\);", ps, "pop_specific: look_specific(lane.my_queue, ISO)")
    ls = body_of("src/tbb/task_stream.h", r"d1::task\*\s*look_specific\s*\([^)]*\)\s*\{")
    out["isoCritMatch"] = one(r"d1::task\*result=\*--curr;if\(([^{};]+?)\)\{", ls, "look_specific: `d1::task* result = *--curr; if (COND) {`")
    return out


def x_tags():
    tdc = "src/tbb/task_dispatcher.cpp"
    s1 = body_of(tdc, r"spawn\s*\(d1::task&\s*t,\s*d1::task_group_context&\s*ctx\s*\)\s*\{")
    s2 = body_of(tdc, r"spawn\s*\(d1::task&\s*t,\s*d1::task_group_context&\s*ctx,\s*d1::slot_id\s+id\s*\)\s*\{")
    sb = body_of(tdc, r"submit\s*\(d1::task&\s*t,[^)]*\)\s*\{")
    eq = body_of("src/tbb/arena.cpp", r"void arena::enqueue_task\s*\([^)]*\)\s*\{")
    out = {"tagSpawn": one(r"task_accessor::isolation\(t\)=([^;]+);", s1, "spawn(t, ctx): isolation(t) = ..."),
           "tagSpawnAff": one(r"task_accessor::isolation\(t\)=([^;]+);", s2, "spawn(t, ctx, id): isolation(t) = ..."),
           "tagProxy": one(r"task_accessor::isolation\(\*proxy\)=([^;]+);", s2, "spawn(t, ctx, id): isolation(*proxy) = ..."),
           "tagCritical": one(r"task_accessor::isolation\(t\)=([^;]+);", sb, "submit: isolation(t) = ..."),
           "tagEnqueue": one(r"task_accessor::isolation\(t\)=([^;]+);", eq, "enqueue_task: isolation(t) = ...")}
    if not re.search(r"execution_data_ext& ?ed=tls->my_task_dispatcher->m_execute_data_ext;", s2):
        raise GenError("spawn(t, ctx, id): `ed` is no longer the dispatcher's m_execute_data_ext")
    td = "src/tbb/task_dispatcher.h"
    lw = body_of(td, r"d1::task\*\s*task_dispatcher::local_wait_for_all\s*\(d1::task\*\s*t,\s*Waiter&\s*waiter\s*\)\s*\{")
    out["edAfterOwn"] = one(r"slot\.get_task\(ed,[^()]+\)\)\)\)\{(?:__TBB_ASSERT\([^;]*\);)?ed\.context=task_accessor::context\(\*t\);ed\.isolation=([^;]+);", lw,
                            "local_wait_for_all: ed.isolation = ... after slot.get_task")
    rs = body_of(td, r"d1::task\*\s*task_dispatcher::receive_or_steal_task\s*\([^)]*\)\s*\{")
    out["edAfterIdle"] = one(r"if\(t!=nullptr\)\{ed\.context=task_accessor::context\(\*t\);ed\.isolation=([^;]+);", rs,
                             "receive_or_steal_task: ed.isolation = ... after a successful take")
    cr = body_of(td, r"inline d1::task\*\s*task_dispatcher::get_critical_task\s*\(d1::task\*\s*t,\s*execution_data_ext&\s*ed,[^)]*\)\s*\{")
    out["edAfterCrit"] = one(r"ed\.context=task_accessor::context\(\*crit_t\);ed\.isolation=([^;]+);", cr, "get_critical_task: ed.isolation = ...")
    iw = body_of("src/tbb/arena.cpp", r"void isolate_within_arena\s*\([^)]*\)\s*\{")
    out["isolateTag"] = one(r"isolation_type current_isolation=([^;]+);", iw, "isolate_within_arena: current_isolation = ...")
    out["isolateSet"] = one(r"(?:previous_isolation=)?dispatcher->set_isolation\(([^()]+?)\);d\(\);", iw, "isolate_within_arena: set_isolation(current); d();")
    # (what is saved, when, and what the completion guard restores: checks/c16c.py x_isolate)
    return out


def x_mand():
    ah = "src/tbb/arena.h"
    adv = body_of(ah, r"void arena::advertise_new_work\s*\(\s*\)\s*\{")
    m = re.search(r"if\(([^{};]+?)\)\{is_mandatory_needed=my_mandatory_concurrency\.test_and_set\(\);\}"
                  r"are_workers_needed=my_pool_state\.test_and_set\(\);"
                  r"if\(([^{};]+?)\)\{int mandatory_delta=([^;]+);int workers_delta=([^;]+);"
                  r"if\(([^{};]+?)\)\{workers_delta=([^;]+);\}request_workers\(mandatory_delta,workers_delta,true\);\}\}$", adv)
    if not m or not re.search(r"^\{bool is_mandatory_needed=false;bool are_workers_needed=false;", adv):
        raise GenError("advertise_new_work: test_and_set(mandatory); test_and_set(pool); if (..) { deltas; override; request_workers } not recognised")
    out = dict(zip(["advMandCond", "advReports", "advMandDelta", "advWorkersDelta", "advOverrideCond", "advOverrideVal"], m.groups()))
    oow = body_of("src/tbb/arena.cpp", r"void arena::out_of_work\s*\(\s*\)\s*\{")
    m = re.search(r"^\{bool disable_mandatory=my_mandatory_concurrency\.try_clear_if\(\[this\]\{return ?([^;]+);\}\);"
                  r"bool release_workers=my_pool_state\.try_clear_if\(\[this\]\{return ?([^;]+);\}\);"
                  r"if\(([^{};]+?)\)\{int mandatory_delta=([^;]+);int workers_delta=([^;]+);"
                  r"if\(([^{};]+?)\)\{workers_delta=([^;]+);\}request_workers\(mandatory_delta,workers_delta\);\}\}$", oow)
    if not m:
        raise GenError("out_of_work: try_clear_if(mandatory); try_clear_if(pool); if (..) { deltas; override; request_workers } not recognised")
    out.update(zip(["oowMandPred", "oowPoolPred", "oowReports", "oowMandDelta", "oowWorkersDelta", "oowOverrideCond", "oowOverrideVal"], m.groups()))
    wl = body_of(ah, r"bool is_arena_workerless\s*\(\s*\)\s*const\s*\{")
    out["arenaWorkerless"] = one(r"^\{return ?([^;]+);\}$", wl, "is_arena_workerless")
    he = body_of("src/tbb/arena.cpp", r"bool arena::has_enqueued_tasks\s*\(\s*\)\s*\{")
    if he != "{return!my_fifo_task_stream.empty();}":
        raise GenError("has_enqueued_tasks is no longer `!my_fifo_task_stream.empty()`")
    otl = body_of("src/tbb/arena.cpp", r"void arena::on_thread_leaving\s*\(\s*unsigned ref_param\s*\)\s*\{")
    out["leaveCallsOow"] = one(r"if\(([^{};]+?)\)\{out_of_work\(\);\}threading_control\*tc=my_threading_control;", otl,
                               "on_thread_leaving: `if (COND) { out_of_work(); }` before the reference is released")
    rw = body_of("src/tbb/arena.cpp", r"void arena::request_workers\s*\([^)]*\)\s*\{")
    if not rw.startswith("{my_threading_control->adjust_demand(my_tc_client,mandatory_delta,workers_delta);"):
        raise GenError("request_workers no longer forwards (mandatory_delta, workers_delta) to adjust_demand")
    tc = body_of("src/tbb/threading_control.cpp", r"void threading_control_impl::adjust_demand\s*\([^)]*\)\s*\{")
    if "my_thread_request_serializer->register_mandatory_request(mandatory_delta);my_permit_manager->adjust_demand(c,mandatory_delta,workers_delta);" not in tc:
        raise GenError("threading_control_impl::adjust_demand: serializer register_mandatory_request then permit manager adjust_demand not recognised")
    return out


def x_obs():
    oh = "src/tbb/observer_proxy.h"
    en = body_of(oh, r"void observer_list::notify_entry_observers\s*\([^)]*\)\s*\{")
    ex = body_of(oh, r"void observer_list::notify_exit_observers\s*\([^)]*\)\s*\{")
    out = {"obsEntrySkip": one(r"^\{if\(([^{};]+?)\)return;do_notify_entry_observers\(last,worker\);\}$", en, "notify_entry_observers"),
           "obsExitSkip": one(r"^\{if\(([^{};]+?)\)\{return;\}(?:__TBB_ASSERT\([^;]*\);)?do_notify_exit_observers\(last,worker\);", ex, "notify_exit_observers")}
    pr = body_of("src/tbb/arena.cpp", r"void arena::process\s*\(thread_data&\s*tls\)\s*\{")
    flags = {}
    flags["obsEntryOnWorkerJoin"] = bool(re.search(r"tls\.attach_arena\(\*this,index\);.*my_observers\.notify_entry_observers\(tls\.my_last_observer,tls\.my_is_worker\);.*local_wait_for_all\(nullptr,waiter\);", pr))
    flags["obsExitOnWorkerLeave"] = bool(re.search(r"local_wait_for_all\(nullptr,waiter\);.*my_observers\.notify_exit_observers\(tls\.my_last_observer,tls\.my_is_worker\);tls\.my_last_observer=nullptr;.*tls\.my_arena_slot->release\(\);", pr))
    nc = body_of("src/tbb/arena.cpp", r"nested_arena_context\s*\(thread_data&\s*td,[^)]*\)\s*:[^{]*\{")
    flags["obsEntryOnExecuteJoin"] = bool(re.search(r"if\(td\.my_arena!=&nested_arena\)\{.*td\.attach_arena\(nested_arena,slot_index\);.*td\.my_last_observer=nullptr;"
                                                     r"td\.my_arena->my_observers\.notify_entry_observers\(td\.my_last_observer,false\);\}", nc))
    nd = body_of("src/tbb/arena.cpp", r"~nested_arena_context\s*\(\s*\)\s*\{")
    flags["obsExitOnExecuteLeave"] = bool(re.search(r"if\(m_orig_arena\)\{td\.my_arena->my_observers\.notify_exit_observers\(td\.my_last_observer,false\);"
                                                     r"td\.my_last_observer=m_orig_last_observer;.*td\.my_arena_slot->release\(\);", nd))
    at = body_of("src/tbb/governor.cpp", r"void governor::auto_terminate\s*\(void\*\s*tls\)\s*\{")
    flags["obsExitOnThreadEnd"] = bool(re.search(r"if\(td->my_arena_slot\)\{.*a->my_observers\.notify_exit_observers\(td->my_last_observer,td->my_is_worker\);.*td->my_arena_slot->release\(\);", at))
    ob = body_of("src/tbb/observer_proxy.cpp", r"observe\s*\(d1::task_scheduler_observer\s*&\s*tso,\s*bool enable\s*\)\s*\{")
    flags["obsEntryOnActivate"] = bool(re.search(r"p->my_list->insert\(p\);if\(td&&td->my_arena&&&td->my_arena->my_observers==p->my_list\)\{"
                                                  r"p->my_list->notify_entry_observers\(td->my_last_observer,td->my_is_worker\);\}", ob))
    return out, flags


# name -> (lean parameter list, result type, atoms allowed in the C++ expression, fallback used when the source is not recognised:
#          the most permissive reading, so that the Lean soundness lemmas fail instead of silently keeping an old definition)
DEFS = [
    ("isoOwnOmit", "(iso tag : Nat)", "bool", ["iso", "tag"], "false"),
    ("isoOwnPlain", "(omitted isProxy : Bool)", "bool", ["omitted", "isProxy"], "(!isProxy)"),
    ("isoOwnSkip", "(omitted : Bool)", "bool", ["omitted"], "false"),
    ("isoStealOk", "(iso tag : Nat)", "bool", ["iso", "tag"], "true"),
    ("isoStealPlain", "(isProxy : Bool)", "bool", ["isProxy"], "(!isProxy)"),
    ("isoStealProxyTake", "(shared destIdle victimIdle : Bool)", "bool", ["shared", "destIdle", "victimIdle"], "true"),
    ("isoMailGuard", "(iso : Nat)", "bool", ["iso"], "false"),
    ("isoMailSkip", "(iso tag : Nat)", "bool", ["iso", "tag"], "false"),
    ("isoLoop", "(edIso : Nat)", "nat", ["edIso"], "0"),
    ("isoArgOwn1", "(iso : Nat)", "nat", ["iso"], "0"), ("isoArgOwn2", "(iso : Nat)", "nat", ["iso"], "0"),
    ("isoArgIdle", "(iso : Nat)", "nat", ["iso"], "0"),
    ("isoArgMail1", "(iso : Nat)", "nat", ["iso"], "0"), ("isoArgMail2", "(iso : Nat)", "nat", ["iso"], "0"), ("isoArgMail3", "(iso : Nat)", "nat", ["iso"], "0"),
    ("isoArgSteal1", "(iso : Nat)", "nat", ["iso"], "0"), ("isoArgSteal2", "(iso : Nat)", "nat", ["iso"], "0"), ("isoArgSteal3", "(iso : Nat)", "nat", ["iso"], "0"),
    ("isoArgCrit1", "(iso : Nat)", "nat", ["iso"], "0"), ("isoArgCrit2", "(iso : Nat)", "nat", ["iso"], "0"), ("isoArgCrit3", "(iso : Nat)", "nat", ["iso"], "0"),
    ("isoFifoOk", "(fifoAllowed : Bool) (iso : Nat)", "bool", ["fifoAllowed", "iso"], "fifoAllowed"),
    ("isoCritSpecific", "(iso : Nat)", "bool", ["iso"], "false"),
    ("isoCritMatch", "(nonNull : Bool) (iso tag : Nat)", "bool", ["nonNull", "iso", "tag"], "nonNull"),
    ("tagSpawn", "(edIso : Nat)", "nat", ["edIso"], "0"), ("tagSpawnAff", "(edIso : Nat)", "nat", ["edIso"], "0"),
    ("tagProxy", "(edIso : Nat)", "nat", ["edIso"], "0"), ("tagCritical", "(edIso : Nat)", "nat", ["edIso"], "0"),
    ("tagEnqueue", "(edIso : Nat)", "nat", ["edIso"], "edIso"),
    ("edAfterOwn", "(tag : Nat)", "nat", ["tag"], "0"), ("edAfterIdle", "(tag : Nat)", "nat", ["tag"], "0"), ("edAfterCrit", "(tag : Nat)", "nat", ["tag"], "0"),
    ("isolateTag", "(iso fresh : Nat)", "nat", ["iso", "fresh"], "0"),
    ("isolateSet", "(cur : Nat)", "nat", ["cur"], "0"),
    ("advMandCond", "(enq : Bool) (numSlots reserved : Nat)", "bool", ["enq", "numSlots", "reserved"], "false"),
    ("advReports", "(m w : Bool)", "bool", ["m", "w"], "false"),
    ("advMandDelta", "(m : Bool)", "int", ["m"], "0"),
    ("advWorkersDelta", "(w : Bool) (maxW : Nat)", "int", ["w", "maxW"], "0"),
    ("advOverrideCond", "(m workerless : Bool)", "bool", ["m", "workerless"], "false"),
    ("advOverrideVal", "", "int", [], "0"),
    ("oowMandPred", "(hasEnq : Bool)", "bool", ["hasEnq"], "true"),
    ("oowPoolPred", "(hasTasks : Bool)", "bool", ["hasTasks"], "true"),
    ("oowReports", "(m w : Bool)", "bool", ["m", "w"], "false"),
    ("oowMandDelta", "(m : Bool)", "int", ["m"], "0"),
    ("oowWorkersDelta", "(w : Bool) (maxW : Nat)", "int", ["w", "maxW"], "0"),
    ("oowOverrideCond", "(m workerless : Bool)", "bool", ["m", "workerless"], "false"),
    ("oowOverrideVal", "", "int", [], "0"),
    ("arenaWorkerless", "(maxW : Nat)", "bool", ["maxW"], "false"),
    ("leaveCallsOow", "(external mandSet : Bool)", "bool", ["external", "mandSet"], "false"),
    ("obsEntrySkip", "(lastIsTail : Bool)", "bool", ["lastIsTail"], "true"),
    ("obsExitSkip", "(lastIsNull : Bool)", "bool", ["lastIsNull"], "true"),
]
OBS_FLAGS = ["obsEntryOnWorkerJoin", "obsExitOnWorkerLeave", "obsEntryOnExecuteJoin", "obsExitOnExecuteLeave", "obsExitOnThreadEnd", "obsEntryOnActivate"]
LEAN_TY = {"bool": "Bool", "nat": "Nat", "int": "Int"}


def gen_part2():
    """-> (lean text to append to Generated/C16.lean, [(obligation name, ok, detail)], {name: C++ source expression})"""
    found, obl = {}, []
    flags = {f: False for f in OBS_FLAGS}
    groups = [("isolation conditions of get_task_impl", x_own), ("isolation / proxy conditions of arena_slot::steal_task", x_steal),
              ("isolation walk of mail_outbox::internal_pop", x_mail),
              ("isolation argument chain and stream conditions (local_wait_for_all .. look_specific)", x_args),
              ("isolation tags written by spawn / enqueue / submit / isolate_within_arena and ed.isolation after a take", x_tags),
              ("mandatory-concurrency decisions of advertise_new_work / out_of_work / on_thread_leaving", x_mand)]
    for what, fn in groups:
        try:
            found.update(fn())
            obl.append(("gen:" + what + " recognised in the source", True, ""))
        except (GenError, OSError) as e:
            obl.append(("gen:" + what + " recognised in the source", False, str(e)))
    try:
        o, fl = x_obs()
        found.update(o)
        flags.update(fl)
        missing = [k for k in OBS_FLAGS if not fl[k]]
        obl.append(("gen:observer notification call sites (worker join/leave, execute join/leave, thread end, activation) recognised", not missing,
                    "not recognised: " + ", ".join(missing)))
    except (GenError, OSError) as e:
        obl.append(("gen:observer notification call sites (worker join/leave, execute join/leave, thread end, activation) recognised", False, str(e)))
    lines = ["", "set_option linter.unusedVariables false", "/-! isolation filters, isolation tags, mandatory-concurrency decisions, observer call sites: regenerated from the source text -/"]
    srcs = {}
    for name, params, ty, atoms, fallback in DEFS:
        expr, note = fallback, "NOT RECOGNISED: most permissive fallback"
        if name in found:
            try:
                expr, note = translate(found[name], atoms, ty), found[name]
                srcs[name] = found[name]
            except GenError as e:
                obl.append(("gen:%s translates" % name, False, "%s: %s" % (found[name], e)))
                note = "NOT TRANSLATABLE (%s): most permissive fallback" % found[name]
        lines.append("/-- `%s` -/" % note.replace("-/", "- /"))
        lines.append("def %s %s: %s := %s" % (name, params + " " if params else "", LEAN_TY[ty], expr))
    for f in OBS_FLAGS:
        lines.append("def %s : Bool := %s" % (f, "true" if flags[f] else "false"))
    return "\n".join(lines) + "\n", obl, srcs


# ---------------------------------------------------------------------------------------------------------
# E-SHIM component: mandatory-concurrency flag protocol (harness/c16/wb.cpp `mand`) vs the Mand interleaving model
# ---------------------------------------------------------------------------------------------------------
def parse_mand_runs(out):
    runs, cur = [], None
    for l in out.split("\n"):
        if l.startswith("run "):
            cur = {"ev": [], "cfg": None, "fin": None, "tail": None, "fin2": None, "mon": None, "sched": None}
            runs.append(cur)
        elif cur is None:
            continue
        elif l.startswith("cfg "):
            cur["cfg"] = l
        elif l.startswith("e "):
            cur["ev"].append(l[2:])
        elif l.startswith("fin2 "):
            cur["fin2"] = l[5:]
        elif l.startswith("fin "):
            cur["fin"] = l[4:]
        elif l.startswith("tail "):
            cur["tail"] = l
        elif l.startswith("mon "):
            cur["mon"] = l[4:]
        elif l.startswith("sched"):
            cur["sched"] = l.split()[1:]
    return runs


def mand_model_lines(r):
    """events the model explains: all flag accesses, the population word only where the protocol reads / writes it"""
    lines, window = [r["cfg"]], {}
    for e in r["ev"]:
        w = e.split()
        t = w[0]
        if w[1] == "cas" and w[2] == "mand":
            window[t] = (w[3] == "1" and w[5] == "1")       # SET -> busy succeeded: the predicate of the mandatory flag follows
        if w[1] == "load" and w[2] == "fifo":
            if not window.get(t):
                continue
            window[t] = False
        lines.append(e)
    return lines


def mand_fields(s):
    return dict(kv.split("=") for kv in s.split())


def mand_compare(r, drv):
    """-> None or a description of the first difference between the implementation trace and the model"""
    lines = mand_model_lines(r)
    text = "\n".join(lines + ["check"] + ([r["tail"]] if r["tail"] else [])) + "\n"
    mo = drv("c16mand", text)
    for a, b in zip(lines[1:], mo[1:len(lines)]):
        if a != b:
            return "implementation access `%s`, model `%s`" % (a, b)
    keys = ["mand", "pool", "hasEnq", "mandReq", "totalReq", "minW", "maxW", "marketMand", "proxyMand"]
    for tag, impl, model in (("after the concurrent phase", r["fin"], mo[len(lines)]), ("after the sequential tail", r["fin2"], mo[len(lines) + 1] if r["tail"] else None)):
        if impl is None or model is None or model == "bad-op":
            return "state %s missing (implementation %r, model %r)" % (tag, impl, model)
        fi, fm = mand_fields(impl), mand_fields(model)
        if fm.get("idle") != "1":
            return "model threads not at rest %s: %s" % (tag, model)
        for k in keys:
            if fi.get(k) != fm.get(k):
                return "%s: implementation %s=%s, model %s=%s" % (tag, k, fi.get(k), k, fm.get(k))
    return None


# ---------------------------------------------------------------------------------------------------------
# E-PURE: isolation op sequences on a real arena of the whole runtime ("puppet", harness/c16/rt.cpp `iso`) vs the Iso machine
# ---------------------------------------------------------------------------------------------------------
def gen_iso_seq(rng, nops):
    n = rng.choice([2, 3, 3, 4])
    ops = ["cfg %d" % n]
    depth = [[] for _ in range(n)]          # per thread: stack of 'w' / 'i'
    nxt = [100]
    for t in range(n):
        ops.append("wait %d" % t)
        depth[t].append("w")
    style = rng.random()
    for _ in range(nops):
        t = rng.randrange(n)
        r = rng.random()
        top = depth[t][-1] if depth[t] else None
        if r < 0.10 and len(depth[t]) < 6:
            nxt[0] += 1
            ops.append("iso %d %d" % (t, nxt[0] if rng.random() < 0.8 else rng.choice([101, 102])))   # sometimes a tag is reused
            depth[t].append("i")
        elif r < 0.18 and len(depth[t]) < 6:
            ops.append("wait %d" % t)
            depth[t].append("w")
        elif r < 0.26 and len(depth[t]) > 1:
            ops.append(("endwait %d" if top == "w" else "endiso %d") % t)
            depth[t].pop()
        elif r < 0.40:
            ops.append("spawn %d" % t)
        elif r < 0.52:
            ops.append("spawna %d %d" % (t, rng.randrange(n + 1)))
        elif r < 0.58:
            ops.append("enq %d" % t)
        elif r < 0.64:
            ops.append("crit %d" % t)
        elif r < 0.68:
            ops.append("setidle %d %d" % (t, rng.randrange(2)))
        elif r < 0.80:
            ops.append("own %d" % t)
        elif r < 0.95:
            v = rng.choice([x for x in range(n) if x != t])
            ops.append("idle %d %d %d" % (t, v, 1 if (style < 0.7 or rng.random() < 0.5) else 0))
        elif r < 0.99:
            ops.append("critget %d" % t)
        else:
            ops.append(rng.choice(["endwait %d" % t, "endiso %d" % t, "own 9", "frob 1", "idle %d %d 1" % (t, t)]))   # rejected by both sides
        if rng.random() < 0.06:
            ops.append("check")
    ops.append("check")
    return ops


def iso_run(exe, ops, sh, drv):
    """-> (implementation lines, model lines, model input lines)"""
    rc, out, err = sh([exe, "iso"], input="\n".join(ops) + "\n", timeout=300)
    impl = out.split("\n")[:-1]
    if len(impl) != len(ops):
        return impl, None, "harness died rc=%d after %d of %d operations: %s" % (rc, len(impl), len(ops), err[-300:])
    mops = []
    for o, r in zip(ops, impl):
        w = o.split()
        if w[0] in ("idle", "critget") and (len(w) == (4 if w[0] == "idle" else 2)):
            hint = r.split()[1] if r.startswith("got ") else "-1"
            mops.append(o + " " + hint)
        else:
            mops.append(o)
    return impl, drv("c16iso", "\n".join(mops) + "\n"), None


def iso_monitor(ops, impl):
    """implementation-side monitor on a puppet run (independent of the model): replays only the harness's own bookkeeping —
    the isolation word of every thread's dispatch loop and the tag each task got — and checks the property on every take."""
    tag, stack, edv = {}, {}, {}
    for o, r in zip(ops, impl):
        w = o.split()
        if r == "bad-op" or w[0] in ("cfg", "check"):
            continue
        t = int(w[1])
        st = stack.setdefault(t, [])
        ed = edv.get(t, 0)
        if w[0] == "wait":
            st.append(("w", ed, ed))
        elif w[0] == "iso":
            st.append(("i", 0, ed))
            edv[t] = int(w[2])
        elif w[0] in ("endwait", "endiso"):
            edv[t] = st.pop()[2]
        elif r.startswith("task "):
            f = r.split()
            tag[int(f[1])] = (int(f[3]), ed if w[0] != "enq" else 0)
            if w[0] != "enq" and int(f[3]) != ed:
                return "task %s created by `%s` inside isolation %d carries tag %s" % (f[1], o, ed, f[3])
            if "ptag" in f and int(f[f.index("ptag") + 1]) != int(f[3]):
                return "proxy of task %s carries tag %s, the task %s" % (f[1], f[f.index("ptag") + 1], f[3])
        elif r.startswith("got "):
            f = r.split()
            iso = st[-1][1]
            tg, region = tag.get(int(f[1]), (None, None))
            if iso != 0 and region != iso:
                return "thread %d waiting inside isolation %d took task %s of isolation region %s (operation `%s`)" % (t, iso, f[1], region, o)
            edv[t] = int(f[3])
            if tg is not None and int(f[3]) != tg:
                return "after taking task %s (tag %d) the execute data carry isolation %s" % (f[1], tg, f[3])
    return None


# ---------------------------------------------------------------------------------------------------------
# plug-in stages (called from c16.run)
# ---------------------------------------------------------------------------------------------------------
MAND_FIXED = [(1, 1, 0, ["eo", "po"]), (1, 1, 0, ["e", "o", "p"]), (2, 1, 0, ["epo", "so", "ogo"]), (3, 0, 2, ["ep", "oe", "spgo"]),
              (1, 1, 0, ["eso", "po", "o"]), (2, 1, 0, ["es", "po", "o"]), (2, 2, 0, ["e", "o"]), (1, 0, 0, ["ep", "oo"])]


def mand_text(sc):
    return "cfg %d %d %d\n" % sc[:3] + "".join("th %s\n" % p for p in sc[3])


def run_mand(ck, wb, sh, drv):
    quick = ck.tier == "quick"
    rng = ck.rng
    scs = list(MAND_FIXED)
    while len(scs) < (24 if quick else 300):
        maxc = rng.choice([1, 1, 2, 3])
        res = rng.randrange(0, min(maxc, 2) + 1)
        T = rng.choice([2, 3, 3, 4])
        progs = ["".join(rng.choice("eeoopsg") for _ in range(rng.choice([1, 2, 3, 4]))) for _ in range(T)]
        scs.append((maxc, res, rng.choice([0, 0, 0, 1, 2]), progs))
    bad_mon, bad_corr, nruns, nev = None, None, 0, 0
    for sc in scs:
        rc, out, err = sh([wb, "mand", "rand", str(rng.randrange(1, 1 << 30)), str(8 if quick else 30)], input=mand_text(sc), timeout=600)
        runs = parse_mand_runs(out)
        if not runs:
            bad_mon = (sc, None, "harness died rc=%d %s" % (rc, (out + err)[-300:]))
            break
        for r in runs:
            nruns += 1
            nev += len(r["ev"])
            if r["mon"] != "ok" and bad_mon is None:
                bad_mon = (sc, r["sched"], r["mon"])
            if ck.extra.get("model_ok") and bad_corr is None and r["fin"]:
                try:
                    d = mand_compare(r, drv)
                except BuildError as e:
                    d = "model driver failed: %s" % e
                if d:
                    bad_corr = (sc, r["sched"], d)
                ck.traces_validated += 1
            fin = mand_fields(r["fin"]) if r["fin"] else {}
            ck.count(1, ("mand", sc[0], sc[1], sc[2] == 0, len(sc[3]), fin.get("mand"), fin.get("pool"),
                         sum(1 for e in r["ev"] if " cas " in e and e.endswith(" 0")) > 0))
        if bad_mon:
            break
    dfs_total = 0
    if bad_mon is None:
        for sc in (MAND_FIXED[:3] if quick else MAND_FIXED + scs[8:14]):
            small = (sc[0], sc[1], sc[2], [p[:2] for p in sc[3][:3]])
            rc, out, err = sh([wb, "mand", "dfs", "2", str(1500 if quick else 40000)], input=mand_text(small), timeout=900)
            summ = [l for l in out.split("\n") if l.startswith("summary")]
            if summ:
                dfs_total += int(summ[0].split()[1].split("=")[1])
            runs = parse_mand_runs(out)
            if runs and runs[-1]["mon"] not in ("ok", None):
                bad_mon = (small, runs[-1]["sched"], runs[-1]["mon"])
                break
    ck.count(dfs_total)
    ck.extra["mand_random_runs"] = nruns
    ck.extra["mand_events_replayed"] = nev
    ck.extra["mand_dfs_schedules"] = dfs_total
    ck.sample({"mand_scenario": mand_text(scs[0]).split("\n")[:-1]})
    ck.oblige("monitor:mandatory flag set <=> arena / market / serializer mandatory counts are 1 at rest; withdrawn once the fifo stream is empty and "
              "out_of_work() has run (all explored schedules)", "correspondence", bad_mon is None,
              "" if bad_mon is None else "%s in scenario %r" % (bad_mon[2], mand_text(bad_mon[0])))
    if ck.extra.get("model_ok"):
        ck.oblige("corr:advertise_new_work / out_of_work trace == Mand model (every access to the two atomic_flag words and the population word; counters at rest)",
                  "correspondence", bad_corr is None,
                  "" if bad_corr is None else "%s; scenario %r schedule %s" % (bad_corr[2], mand_text(bad_corr[0]), ",".join(bad_corr[1] or [])[:200]))
    if bad_mon is None and bad_corr is not None:
        # the code left the modelled protocol: hunt for a schedule on which the property itself breaks
        for sc in [bad_corr[0]] + MAND_FIXED:
            small = (sc[0], sc[1], sc[2], [p[:3] for p in sc[3][:3]])
            rc, out, err = sh([wb, "mand", "dfs", "2" if quick else "3", str(8000 if quick else 200000)], input=mand_text(small), timeout=1800)
            runs = parse_mand_runs(out)
            if runs and runs[-1]["mon"] not in ("ok", None):
                bad_mon = (small, runs[-1]["sched"], runs[-1]["mon"])
                break
    if bad_mon is not None and bad_mon[1] is not None:
        sc, sched, what = bad_mon
        ck.counterexample("mand:" + what.replace("VIOLATION ", "").split(":")[0].split(",")[0][:60].replace(" ", "-"),
                          "arena(max_concurrency=%d, reserved=%d), soft limit %d, thread programs %s, schedule %s: %s" % (sc[0], sc[1], sc[2], sc[3], ",".join(sched), what),
                          {"engine": "E-SHIM", "mode": "mand", "stdin": mand_text(sc), "schedule": ",".join(sched), "violation": what})


def run_iso(ck, rt, sh, drv, first_diff):
    from concurrent.futures import ThreadPoolExecutor
    import common
    quick = ck.tier == "quick"
    rng = ck.rng
    seqs = [gen_iso_seq(rng, rng.choice([20, 60, 150, 300])) for _ in range(300 if quick else 6000)]
    model_ok = bool(ck.extra.get("model_ok"))

    def one(ops):
        impl, model, err = iso_run(rt, ops, sh, drv if model_ok else (lambda *_: None))
        if err:
            return ("died", err, ops, None)
        mon = iso_monitor(ops, impl)
        d = first_diff(impl, model) if model is not None else None
        ntake = sum(1 for r in impl if r.startswith("got "))
        nskip = sum(1 for o, r in zip(ops, impl) if r == "none" and o.split()[0] in ("own", "idle", "critget"))
        return ("ok", mon, d, (ops, impl, model, ntake, nskip))
    with ThreadPoolExecutor(max_workers=common.NCPU) as ex:
        res = list(ex.map(one, seqs))
    bad_mon, bad_corr, nops = None, None, 0
    for r in res:
        if r[0] == "died":
            bad_mon = bad_mon or (r[2], r[1])
            continue
        _, mon, d, (ops, impl, model, ntake, nskip) = r
        nops += len(ops)
        ck.count(len(ops), ("iso", ops[0], min(ntake, 20) // 4, min(nskip, 20) // 4))
        if mon and bad_mon is None:
            bad_mon = (ops, mon)
        if d is not None and bad_corr is None:
            bad_corr = (ops[:d + 1], impl[d], model[d] if d < len(model) else None)
    ck.extra["iso_puppet_sequences"] = len(seqs)
    ck.extra["iso_puppet_operations"] = nops
    ck.sample({"iso_ops": seqs[0][:14], "note": "first operations of one puppet sequence"})
    ck.oblige("monitor:puppet runs on a real arena: a dispatch loop with isolation i != 0 only obtains tasks created under isolation i, tags follow the execute data "
              "(own pool, one pass of receive_or_steal_task, get_critical_task)", "correspondence", bad_mon is None,
              "" if bad_mon is None else "%s" % (bad_mon[1],))
    if model_ok:
        ck.oblige("corr:r1::spawn / enqueue_task / submit / arena_slot::get_task / receive_or_steal_task / get_critical_task on a real arena == Iso machine "
                  "(result of every operation, contents of every pool, mailbox and stream)", "correspondence", bad_corr is None,
                  "" if bad_corr is None else "after %s: implementation %r, model %r" % (bad_corr[0][-5:], bad_corr[1][:300], (bad_corr[2] or "")[:300]))
    if bad_mon is not None:
        ops, what = bad_mon
        if isinstance(what, str) and not what.startswith("harness died"):
            # shrink: drop operations while the monitor still fires
            def fails(o2):
                rc, out, err = sh([rt, "iso"], input="\n".join(o2) + "\n", timeout=120)
                im = out.split("\n")[:-1]
                return len(im) == len(o2) and iso_monitor(o2, im) is not None
            cur = list(ops)
            i = len(cur) - 1
            while i >= 1:
                cand = cur[:i] + cur[i + 1:]
                if fails(cand):
                    cur = cand
                i -= 1
            rc, out, err = sh([rt, "iso"], input="\n".join(cur) + "\n", timeout=120)
            what = iso_monitor(cur, out.split("\n")[:-1]) or what
            ops = cur
        ck.counterexample("iso-puppet:" + re.sub(r"\d+", "N", what)[:70].replace(" ", "-"),
                          "operations %s on a real arena (one thread playing every slot): %s" % (ops, what),
                          {"engine": "E-PURE", "mode": "iso", "stdin": "\n".join(ops), "violation": what})


# ---------------------------------------------------------------------------------------------------------
# E-SHIM whole runtime: scenario programs for harness/c16/rt.cpp `scen`
# ---------------------------------------------------------------------------------------------------------
def prog_text(L, arenas, threads):
    return "L %d\n" % L + "".join("arena %d %d\n" % a for a in arenas) + "".join("thread { %s }\n" % t for t in threads)


W = "work"


def fixed_scenarios():
    """(family, L, arenas, thread scripts) — targeted programs; see the comments for what each one aims at"""
    S = []
    # --- isolation: a waiter inside isolate while other slots / mailboxes / streams hold foreign work ---------------------
    S.append(("iso-plain", 3, [(3, 1)], [
        "exec 0 { tg { run { iso { pfor 4 0 { work } } } run { work } run { iso { tg { run { work } run { work } } } } pfor 3 0 { work } } }",
        "exec 0 { tg { run { work } run { iso { pfor 3 0 { work } } } run { work } } }"]))
    S.append(("iso-mailed", 3, [(3, 1)], [          # static / affinity partitioners mail proxies to every slot, busy or not
        "exec 0 { tg { run { iso { pfor 6 1 { work } } } run { pfor 4 1 { work } } } }",
        "exec 0 { tg { run { iso { pfor 3 2 { work } } } run { work } } }"]))
    S.append(("iso-mailed3", 4, [(4, 2)], [
        "exec 0 { iso { pfor 8 1 { work } } }",
        "exec 0 { tg { run { iso { tg { run { work } run { work } } } } pfor 6 1 { work } } }",
        "exec 0 { iso { pfor 4 2 { work } } }"]))
    S.append(("iso-enqueued", 2, [(2, 1)], [         # the outermost level of execute allows fifo tasks: only the isolation test keeps them out
        "exec 0 { tg { enq 0 { work } enq 0 { work } enq 0 { work } iso { tg { run { work } run { work } run { work } } } } }"]))
    S.append(("iso-enqueued2", 3, [(3, 1)], [
        "exec 0 { tg { enq 0 { work } enq 0 { work } iso { pfor 4 0 { work } } enq 0 { work } iso { tg { run { work } } } } }",
        "exec 0 { tg { enq 0 { work } run { iso { pfor 3 0 { work } } } } }"]))
    S.append(("iso-critical", 3, [(3, 1)], [
        "exec 0 { tg { crit { work } run { iso { tg { crit { work } run { work } run { work } } } } crit { work } run { work } } }",
        "exec 0 { tg { run { iso { tg { crit { work } run { work } } } } crit { work } } }"]))
    S.append(("iso-nested", 3, [(3, 1)], [
        "exec 0 { iso { tg { run { iso { pfor 3 0 { work } } } run { work } run { iso { tg { run { work } run { iso { pfor 2 0 { work } } } } } } } } }",
        "exec 0 { tg { run { work } run { work } pfor 4 1 { work } } }"]))
    S.append(("iso-nested-then-wait", 3, [(3, 1)], [     # a wait in the ENCLOSING scope after a nested scope returned (normally / by exception)
        "exec 0 { tg { run { work } run { work } iso { iso { pfor 3 0 { work } } tg { run { work } run { work } } isot { tg { run { work } } } pfor 3 1 { work } } } }",
        "exec 0 { tg { run { work } iso { isot { isot { work } tg { run { work } } } tg { run { work } run { work } } } run { work } } }"]))
    S.append(("iso-throw", 2, [(2, 1)], [
        "exec 0 { tg { run { work } run { work } isot { tg { run { work } run { work } } } iso { isot { work } isot { pfor 2 0 { work } } tg { run { work } } } } }",
        "exec 0 { tg { enq 0 { work } run { isot { iso { tg { run { work } } } tg { run { work } } } } } }"]))
    S.append(("iso-bypass", 2, [(2, 1)], [             # a bypassed task inside a region: its spawns and waits stay in the region (foreign tasks below in the own pool)
        "exec 0 { tg { run { work } run { work } iso { tg { byp { tg { run { work } run { work } } } byp { work } } } isot { tg { byp { tg { run { work } } } } } } }",
        "exec 0 { tg { run { work } iso { tg { byp { pfor 3 0 { work } } } } } }"]))
    S.append(("iso-target-mailed", 3, [(3, 1)], [     # the isolated waiter is idle while a worker runs its task; then another slot mails proxies around
        "exec 0 { spin 1 pfor 6 1 { work } pfor 6 1 { work } set 2 }",
        "exec 0 { iso { tg { run { set 1 spin 2 } spin 1 } } }"]))
    S.append(("iso-target-affinity", 4, [(4, 1)], [
        "exec 0 { spin 1 pfor 8 2 { work } set 2 }",
        "exec 0 { iso { tg { run { set 1 spin 2 } spin 1 } } }"]))
    S.append(("iso-ownpool", 2, [(2, 1)], [           # foreign tasks below the region's tasks in the waiter's own pool
        "exec 0 { tg { run { work } run { work } run { work } iso { tg { run { work } run { work } } } } }"]))
    # --- worker budget / mandatory concurrency --------------------------------------------------------------------------
    S.append(("bud-mand1", 1, [(1, 1)], [             # task_arena(1): the single mandatory worker, then nothing
        "exec 0 { tg { enq 0 { work } run { work } run { work } } } quiesce 0 exec 0 { pfor 4 0 { work } tg { run { work } run { work } } }"]))
    S.append(("bud-mand-slot", 1, [(3, 2)], [         # out_of_work by an isolated waiter while another slot still holds spawned tasks
        "exec 0 { spin 1 tg { run { work } run { work } run { work } spinmand 0 0 set 3 } } quiesce 0 exec 0 { pfor 4 0 { work } }",
        "exec 0 { enq 0 { spin 2 } iso { tg { run { set 1 spin 3 } set 2 spin 1 } } }"]))
    S.append(("bud-mand2", 1, [(2, 1), (2, 1)], [     # arena 1 never has enqueued work: no worker may show up there
        "exec 0 { tg { enq 0 { work work } enq 0 { work } run { work } } } quiesce 0 exec 0 { pfor 3 0 { work } }",
        "exec 1 { tg { run { work } run { work } run { work } } pfor 4 0 { work } }"]))
    S.append(("bud-l2", 2, [(2, 1), (3, 1)], [
        "exec 0 { tg { run { work } enq 0 { work } run { work } } pfor 6 3 { work } }",
        "exec 1 { pfor 6 0 { work } tg { run { work } run { work } } }"]))
    S.append(("bud-l3", 3, [(3, 1), (2, 0)], [
        "exec 0 { pfor 8 0 { work } } exec 1 { tg { run { work } run { work } } }",
        "exec 0 { tg { run { work } enq 1 { work } run { work } } }",
        "exec 1 { pfor 4 3 { work } }"]))
    # the limit is lowered in mid-run while the arena has a long backlog of enqueued tasks: recalled workers (local pool empty) must leave although the arena
    # is not empty; work that starts after they had the time to leave runs on at most N-1 workers
    for (L0, N, held, ntask) in ((4, 2, 3, 60), (4, 3, 3, 60), (3, 2, 2, 50)):
        S.append(("bud-lowered-%d-%d" % (L0, N), L0, [(L0, 1)], [
            "exec 0 { " + " ".join(["enq 0 { spin 1 }"] * held) + " spinworkers 0 %d " % held + " ".join(["enq 0 { work work work }"] * ntask) +
            " set 1 lim %d 0 20 { waitenq } }" % N]))
    S.append(("bud-l1-pfor", 1, [(3, 1)], ["exec 0 { pfor 6 0 { work } tg { run { work } run { work } } } quiesce 0 exec 0 { pfor 4 3 { work } }"]))
    # --- observers ------------------------------------------------------------------------------------------------------
    S.append(("obs-basic", 3, [(3, 1)], [
        "obs 0 -1 obs 1 0 exec 0 { tg { run { work } run { work } run { work } } pfor 6 0 { work } } unobs 1 obs 2 0 exec 0 { pfor 4 0 { work } }",
        "exec 0 { pfor 4 0 { work } } exec 0 { tg { run { work } } }"]))
    S.append(("obs-life", 3, [(2, 1)], [
        "obs 0 0 mk 2 3 1 obs 1 2 exec 2 { pfor 6 0 { work } } set 1 exec 0 { tg { run { work } run { work } } } spin 2 rm 2 obs 3 0 exec 0 { pfor 3 0 { work } }",
        "spin 1 exec 2 { tg { run { work } run { work } } } set 2 exec 0 { pfor 3 0 { work } }"]))
    # a slow exit callback: while one thread is still inside on_scheduler_exit another one enters the arena; the two are never inside with one index
    S.append(("obs-exit-window", 3, [(2, 2)], [
        "obs 0 0 exec 0 { set 1 spin 2 }",
        "spin 1 exec 0 { work } exec 0 { work } exec 0 { work }",
        "spin 1 exec 0 { work } exec 0 { work } exec 0 { work } set 2"]))
    S.append(("obs-exit-window-w", 3, [(3, 1)], [           # the same with workers coming and going
        "obs 0 0 exec 0 { tg { run { work } run { work } run { work } } pfor 4 0 { work } }",
        "exec 0 { work } exec 0 { tg { run { work } run { work } } } exec 0 { work }"]))
    S.append(("obs-during", 3, [(3, 1)], [
        "exec 0 { tg { run { obs 0 0 work } run { work } run { work obs 1 0 } pfor 4 0 { work } } } unobs 0 exec 0 { pfor 3 0 { work } }",
        "exec 0 { tg { run { work } run { work } } }"]))
    # --- concurrency bound ----------------------------------------------------------------------------------------------
    S.append(("bound-over", 3, [(2, 1)], [
        "exec 0 { tg { run { work } run { work } run { work } } }", "exec 0 { tg { run { work } run { work } } }", "exec 0 { pfor 4 0 { work } }"]))
    S.append(("bound-one", 2, [(1, 1)], [            # one external thread + the mandatory worker in a one-thread arena
        "exec 0 { tg { enq 0 { work } enq 0 { work } run { work } run { work } } } exec 0 { tg { enq 0 { work } run { work } } }"]))
    S.append(("bound-res", 4, [(4, 2)], [
        "exec 0 { pfor 8 0 { work } }", "exec 0 { tg { run { work } run { work } run { work } } }", "exec 0 { pfor 4 3 { work } }"]))
    for sc in S:
        for t in sc[3]:
            assert t.count("{") == t.count("}"), sc[0]
    return S


def rand_block(rng, depth, in_tg, narenas, cur_arena, allow_iso=True):
    """a random statement list for a thread that is inside arena cur_arena"""
    out = []
    for _ in range(rng.choice([1, 2, 2, 3])):
        r = rng.random()
        if r < 0.25 or depth <= 0:
            out.append("run { %s }" % (W if depth <= 0 or rng.random() < 0.5 else rand_block(rng, depth - 1, True, narenas, cur_arena, allow_iso))
                       if in_tg else "tg { %s }" % rand_block(rng, depth - 1, True, narenas, cur_arena, allow_iso))
        elif r < 0.40:
            out.append("pfor %d %d { work }" % (rng.choice([2, 3, 4, 6]), rng.choice([0, 0, 1, 1, 2, 3])))
        elif r < 0.58 and allow_iso:
            out.append("%s { %s }" % ("isot" if rng.random() < 0.3 else "iso", rand_block(rng, depth - 1, False, narenas, cur_arena, allow_iso)))
        elif r < 0.72:
            out.append("tg { %s }" % rand_block(rng, depth - 1, True, narenas, cur_arena, allow_iso))
        elif r < 0.82 and in_tg:
            out.append("enq %d { work }" % cur_arena)
        elif r < 0.87 and in_tg:
            out.append("crit { work }")
        elif r < 0.91 and in_tg:
            out.append("byp { %s }" % (W if depth <= 0 else rand_block(rng, depth - 1, True, narenas, cur_arena, allow_iso)))
        else:
            out.append(W)
    return " ".join(out)


def random_scenario(rng):
    L = rng.choice([1, 2, 2, 3, 3, 4])
    narenas = rng.choice([1, 1, 2])
    T = rng.choice([1, 2, 2, 3])
    arenas = []
    for _ in range(narenas):
        n = rng.choice([1, 2, 2, 3, 3])
        arenas.append((n, rng.randrange(0 if n > 1 else 1, min(n, 2) + 1)))
    threads = []
    nobs = [0]
    for t in range(T):
        parts = []
        for _ in range(rng.choice([1, 1, 2])):
            # a one-thread arena (1 slot, reserved) is entered by thread 0 only: a second external thread gets its worker slot
            # (known finding `one-thread-arena-second-external-thread`, demonstrated by its own scenario)
            cands = [a for a in range(narenas) if t == 0 or arenas[a] != (1, 1)]
            if not cands:
                parts.append("work")
                continue
            a = rng.choice(cands)
            if rng.random() < 0.25 and nobs[0] < 4:
                parts.append("obs %d %d" % (nobs[0], a))
                nobs[0] += 1
            parts.append("exec %d { %s }" % (a, rand_block(rng, 2, False, narenas, a)))
        if t > 0:
            parts.append("set %d" % (8 + t))
        threads.append(" ".join(parts))
    if rng.random() < 0.6:
        # thread 0 waits for the others, then checks every arena at rest; under L = 1 later work must stay on the caller
        tail = ["spin %d" % (8 + t) for t in range(1, T)] + ["waitenq"]
        for a in range(narenas):
            tail.append("quiesce %d" % a)
        if L == 1:
            tail.append("exec %d { pfor 3 0 { work } tg { run { work } run { work } } }" % rng.randrange(narenas))
        threads[0] += " " + " ".join(tail)
    return ("random", L, arenas, threads)


def rt_run(rt, sh, prog, mode, arg, stay=None, timeout=300):
    import hashlib
    import common
    d = os.path.join(common.BUILD, "C16", "scen")
    os.makedirs(d, exist_ok=True)
    path = os.path.join(d, hashlib.sha1(prog.encode()).hexdigest()[:16] + ".txt")
    if not os.path.exists(path):
        import threading
        tmp = path + ".tmp%d.%d" % (os.getpid(), threading.get_ident())
        with open(tmp, "w") as f:
            f.write(prog)
        os.replace(tmp, path)
    cmd = [rt, "scen", path, mode, str(arg)] + ([str(stay)] if stay is not None else [])
    rc, out, err = sh(cmd, timeout=timeout)
    r = {"rc": rc, "mon": [], "stat": {}, "sched": "", "err": err[-300:]}
    for l in out.split("\n"):
        if l.startswith("mon ") or l.startswith("mon+ "):
            r["mon"].append(l.split(" ", 1)[1])
        elif l.startswith("stat "):
            w = l.split()
            r["stat"] = {w[i]: int(w[i + 1]) for i in range(1, len(w) - 1, 2)}
        elif l.startswith("sched "):
            r["sched"] = l[6:]
    return r


def rt_problem(r):
    if r["rc"] == 0 and r["mon"] == ["ok"]:
        return None
    bad = [m for m in r["mon"] if m != "ok"]
    if bad:
        return bad[0]
    return "harness died rc=%s %s" % (r["rc"], r["err"])


def rt_key(what):
    cls = what.split()[0]
    rest = re.sub(r"\d+", "N", what[len(cls):]).strip()
    return "rt:%s:%s" % (cls, rest[:70].replace(" ", "-"))


def run_rt(ck, rt, sh):
    from concurrent.futures import ThreadPoolExecutor
    import common
    quick = ck.tier == "quick"
    rng = ck.rng
    import shutil
    shutil.rmtree(os.path.join(common.BUILD, "C16", "scen"), ignore_errors=True)      # program files of earlier runs
    fixed = fixed_scenarios()
    jobs = []
    for sc in fixed:
        for _ in range(30 if quick else 400):
            jobs.append((sc, rng.randrange(1, 1 << 40), rng.choice([16, 64, 96, 160, 224])))
    for _ in range(500 if quick else 15000):
        sc = random_scenario(rng)
        for _ in range(2 if quick else 4):
            jobs.append((sc, rng.randrange(1, 1 << 40), rng.choice([16, 64, 96, 160, 224])))

    def one(job):
        sc, seed, stay = job
        prog = prog_text(sc[1], sc[2], sc[3])
        r = rt_run(rt, sh, prog, "rand", seed, stay)
        r["job"], r["prog"] = job, prog
        return r
    results, nbad = [], 0
    with ThreadPoolExecutor(max_workers=common.NCPU) as ex:
        for i in range(0, len(jobs), 8 * common.NCPU):
            chunk = list(ex.map(one, jobs[i:i + 8 * common.NCPU]))
            results += chunk
            nbad += sum(1 for r in chunk if rt_problem(r))
            if nbad >= 12:
                break
    classes = {"ISO": None, "BUDGET": None, "BOUND": None, "OBS": None, "REST": None, "STUCK": None, "DEADLOCK": None, "LIVELOCK": None, "other": None}
    tot = {"runs": 0, "steps": 0, "bodies": 0, "iso_checked": 0, "worker_bodies": 0, "obs_calls": 0, "enq_done": 0}
    for r in results:
        sc = r["job"][0]
        st = r["stat"]
        tot["runs"] += 1
        for k in ("steps", "bodies", "iso_checked", "worker_bodies", "obs_calls", "enq_done"):
            tot[k] += st.get(k, 0)
        ck.count(1, ("rt", sc[0], sc[1], len(sc[2]), len(sc[3]), st.get("threads"), min(st.get("iso_checked", 0), 12) // 3, min(st.get("worker_bodies", 0), 12) // 3,
                     st.get("max_workers_in_bodies"), min(st.get("obs_calls", 0), 16) // 4))
        p = rt_problem(r)
        if p:
            cls = p.split()[0] if p.split()[0] in classes else "other"
            if classes[cls] is None or r["stat"].get("steps", 1 << 60) < classes[cls][0]["stat"].get("steps", 1 << 60):
                classes[cls] = (r, p)
    ck.extra["rt_totals"] = tot
    ck.sample({"rt_program": prog_text(*fixed[10][1:]).split("\n")[:-1], "family": fixed[10][0]})
    names = {"ISO": "monitor:isolation — a thread waiting inside an isolate region (or inside a task of it) starts only bodies created in that region (whole runtime, E-SHIM)",
             "BUDGET": "monitor:worker budget — at most L-1 workers inside user bodies; under L=1 one worker and only in an arena with an open mandatory window (whole runtime, E-SHIM)",
             "BOUND": "monitor:concurrency bound — threads inside one arena <= max_concurrency (+ the mandatory worker of a one-thread arena), distinct current_thread_index "
                      "below the bound, no worker in a reserved slot (whole runtime, E-SHIM)",
             "OBS": "monitor:observers — per (observer, thread) entry / exit alternate, nothing after observe(false) returned, balanced at the end (whole runtime, E-SHIM)",
             "REST": "monitor:at rest — mandatory flag, my_mandatory_requests, market and serializer mandatory counters are 0, no worker request left (whole runtime, E-SHIM)",
             "STUCK": "monitor:an arena in which no task is left comes to rest: out_of_work() clears the pool-state flag (whole runtime, E-SHIM)",
             "DEADLOCK": "monitor:no deadlock in the scenario programs (whole runtime, E-SHIM)", "LIVELOCK": "monitor:no livelock in the scenario programs (whole runtime, E-SHIM)",
             "other": "monitor:the whole-runtime harness runs to completion"}
    # ---- known finding: an emptied task_proxy left in a slot's pool keeps the arena non-empty for ever (deterministic demonstration) ----
    sprog = prog_text(1, [(2, 1)], ["spin 1 exec 0 { pfor 8 1 { work ifthread 1 { wake 2 } ifthread 0 { spin 9 } } } quiesce 0", "exec 0 { set 1 idle 2 } set 9"])
    for seed in (1, 2):
        r = rt_run(rt, sh, sprog, "rand", seed, 96)
        r["job"], r["prog"] = (("finding-stuck", 1, [(2, 1)], []), seed, 96), sprog
        p = rt_problem(r)
        if p and (classes["STUCK"] is None or not p.startswith("STUCK")):
            cls = p.split()[0] if p.split()[0] in classes else "other"
            classes[cls] = (r, p)
    for cls, name in names.items():
        hit = classes[cls]
        key = None if hit is None else (FINDING_STUCK if cls == "STUCK" else rt_key(hit[1]))
        ck.oblige(name, "correspondence", hit is None, "" if hit is None else "%s | program: %s | seed %s" % (hit[1], hit[0]["prog"].replace("\n", " ; "), hit[0]["job"][1]),
                  cex_keys=[key] if cls == "STUCK" and hit is not None else None)
        if hit is not None:
            r, what = hit
            ck.counterexample(key, "program `%s` under schedule (rle) %s...: %s" % (r["prog"].replace("\n", " ; "), r["sched"][:120], what),
                              {"engine": "E-SHIM", "mode": "scen", "program": r["prog"], "seed": r["job"][1], "stay": r["job"][2],
                               "schedule": r["sched"] if len(r["sched"]) < 60000 else None, "violation": what, "family": r["job"][0][0]})
    # ---- known finding: a one-thread arena admits a second external thread (its own obligation, its own key) ----
    fprog = prog_text(2, [(1, 1)], ["exec 0 { set 1 spin 2 }", "spin 1 exec 0 { set 2 }"])
    fr = [rt_run(rt, sh, fprog, "rand", seed, 96) for seed in (1, 2)]
    hit = [r for r in fr if any(m.startswith("BOUND") for m in r["mon"])]
    other = [rt_problem(r) for r in fr if rt_problem(r) and not any(m.startswith("BOUND") for m in r["mon"])]
    ck.oblige("monitor:a one-thread arena (max_concurrency 1, one reserved slot) admits one external thread at a time", "correspondence", not hit and not other,
              (hit[0]["mon"][0] if hit else (other[0] if other else "")) + " | program: " + fprog.replace("\n", " ; "), cex_keys=[FINDING_ONE_THREAD_ARENA] if hit and not other else None)
    if hit:
        ck.counterexample(FINDING_ONE_THREAD_ARENA,
                          "task_arena(1): thread 0 is inside a.execute(), thread 1 calls a.execute(): it occupies the second slot (kept for the mandatory-concurrency "
                          "worker) and both run at once: " + "; ".join(hit[0]["mon"][:2]),
                          {"engine": "E-SHIM", "mode": "scen", "program": fprog, "seed": 1, "stay": 96, "schedule": hit[0]["sched"], "violation": hit[0]["mon"][0],
                           "family": "finding"})
    # ---- observation (outside the claimed domain, see assumptions): the isolation tag is the address of the delegate object, so a later
    # region entered at the same stack depth re-uses the tag of an earlier one; a task that outlived the earlier region is then taken by the
    # waiter of the later region.  Deterministic with one thread: a critical task submitted inside region 1, region 2 waits.
    oprog = prog_text(1, [(2, 1)], ["exec 0 { tg { iso { crit { work } } iso { tg { run { work } } } } }"])
    orr = rt_run(rt, sh, oprog, "rand", 1, 96)
    ck.extra["observation_isolation_tag_reuse"] = {"program": oprog.replace("\n", " ; "), "monitor": orr["mon"][:2],
                                                   "note": "whole-runtime view of the known finding isolation-tag-reuse-foreign-task-in-later-region (its obligation and replay are "
                                                           "produced on the nest puppet, checks/c16c.py): both regions carry the same tag word (address of a stack object)"}
    return results


FINDING_ONE_THREAD_ARENA = "one-thread-arena-second-external-thread"
FINDING_STUCK = "emptied-proxy-keeps-arena-nonempty-finalize-hangs"


def replay_part2(ck, r, sh, drv):
    """replay of the counterexamples produced by this module; returns True if the property still fails"""
    import common
    mode = r["mode"]
    if mode == "mand":
        import c16
        wb = c16.build_wb()
        rc, out, err = sh([wb, "mand", "replay", r["schedule"], "1"], input=r["stdin"], timeout=600)
        print(out[-3000:])
        runs = parse_mand_runs(out)
        return not runs or runs[-1]["mon"] != "ok"
    rt = build_rt()
    if mode == "iso":
        ops = r["stdin"].split("\n")
        rc, out, err = sh([rt, "iso"], input=r["stdin"] + "\n", timeout=300)
        impl = out.split("\n")[:-1]
        for o, x in zip(ops, impl):
            print("%-16s -> %s" % (o, x[:200]))
        m = iso_monitor(ops, impl) if len(impl) == len(ops) else "harness died rc=%d" % rc
        print("monitor: %s" % (m or "ok"))
        return m is not None
    if mode == "nest":
        import c16c
        return c16c.replay_nest(r, rt, sh)
    if mode == "life":
        import c16c
        return c16c.replay_life(r, rt, sh)
    if mode == "scen":
        print(r["program"])
        # runs are reproducible from the seed (one process per run, init_determinism); the explicit schedule is kept as well when it is short
        res = rt_run(rt, sh, r["program"], "rand", r.get("seed", 1), r.get("stay", 96))
        if rt_problem(res) is None and r.get("schedule"):
            res = rt_run(rt, sh, r["program"], "replay", r["schedule"])
        for m in res["mon"]:
            print("monitor: " + m)
        print("stat: %s" % res["stat"])
        if rt_problem(res) is None and r.get("family") not in ("finding", "finding-stuck"):
            # the recorded schedule no longer fits the changed code (different number of scheduling points): search again
            for seed in range(1, 200):
                res = rt_run(rt, sh, r["program"], "rand", seed)
                if rt_problem(res):
                    print("seed %d: %s" % (seed, rt_problem(res)))
                    break
        return rt_problem(res) is not None
    return True
