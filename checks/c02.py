"""C02 — no lost wake-up; enqueued work eventually runs (DESIGN.md §3 C02).

Theorems (lean/TbbVerif/Props/C02.lean): Monitor (N sleepers x M notifiers, all schedules, access granularity; every
notify entry point incl. notify_one_relaxed(pred): which node its scan dequeues, at most one, none matching => none,
no lost wake-up for K contexts with one waiter each = mutexes sharing an address_waiter bucket), BinSem (futex word),
Tso (1x1 monitor instance with store buffers, parameterised by the observed Orders), Flag (arena's three-state flag),
WaitCtx (Monitor + wait_context reference counter); BQ (concurrent_bounded_queue's blocking push / pop: tickets, capacity,
two Monitor instances with ticket-tagged waits and predicate_leq, abort), AE (arena::enqueue_task ->
advertise_new_work<work_enqueued> / out_of_work / mandatory-concurrency demand bookkeeping: two Flag instances + the
proxy counter + the market's critical section), EX (task_arena::execute waiting for a slot: per-slot try_occupy, delegated
task, exit monitor = a Monitor instance, baton).

Tie, on every run, against the current tree of /repo:
  * E-SHIM component harnesses on the REAL concurrent_monitor.h + semaphore.h (harness/c02/mon.cpp), the REAL
    arena.h atomic_flag (flag.cpp) and the REAL wait_context + monitor (wctx.cpp): every atomic access is replayed on
    the Lean models (kind, variable, memory order, values, results); implementation-side monitors (deadlock = every
    thread parked; parked-while-predicate-true; V on an open semaphore; flag UNSET with work; demand accounting);
    random schedules + bounded-preemption DFS;
  * the memory orders observed in the trace regenerate Generated/C02.lean (Orders) -> `fences_ok_observed` is a checked
    obligation of the Lean build; so does the dequeue ORDER of every notify entry point on wait sets with a known
    arrival order (scanObs) -> `scan_order_observed`;
  * wait sets with >= 2 sleepers of different contexts, both arrival orders (harness gates), first match = the older /
    the newer / oldest / middle / newest node, for every notify entry point (mon_order_scenarios), with the
    implementation-side monitors LOST-WAKEUP, WRONG-CONTEXT-WAKEUP, UNLOCKED-WAITSET-WRITE, DOUBLE-V;
  * the whole instrumented runtime (common.shim_runtime_objects) in end-to-end scenarios where a lost wake-up is a
    deadlock of the controlled scheduler (task_group wait, enqueue with nobody waiting, mandatory concurrency, bounded
    queue, tbb::mutex, tbb::rw_mutex) + the notify-site rule (no plain store between the last drain and the racy
    emptiness test of a notify); rt2.cpp: tbb::mutex / rw_mutex objects colliding in ONE address_waiter bucket (bucket
    found by calibration, not by replicating the hash) with one sleeping waiter each, and the two-arena family
    "enqueue into B vs spawn-only demand of C" under a zero-worker soft limit.
  * bq.cpp: the REAL concurrent_bounded_queue + concurrent_bounded_queue.cpp under the shim: access-level replay on BQ
    (random + bounded-preemption DFS + state-guided schedules through every point between the sleeper's predicate
    re-check and commit_wait, against notify and against abort); the replayed model's `clean` flag decides which
    implementation-side verdicts are inside the theorems' hypotheses (the excluded histories are the C09 findings);
  * ae.cpp (whole runtime, white box): enqueue / out_of_work programs with the worker held back: access-level replay on
    AE and comparison of the REAL quiescent demand state (flags, my_mandatory_requests, workers requested, min/max
    workers, proxy counter, soft limit) with the model's and with arena_enqueue_mandatory; rt.cpp evaluates the same
    predicate on the real state at every scheduling point of the enqueue scenarios (incl. enqueue racing the last
    worker's out_of_work);
  * ex.cpp (whole runtime, white box): task_arena(S,S).execute from N threads: access-level replay on EX, state-guided
    schedules releasing a slot before / inside / after the waiter's re-check, implementation-side monitor
    SLEEPS-WHILE-SLOT-FREE; the replayed model's `absorbed` flag separates the runs the theorems speak about from the
    known finding execute-wakeup-absorbed-by-entering-waiter, which is demonstrated on every run.
Failing-input search: bounded-preemption DFS / more schedules with the monitors; for a broken fence obligation the
executable TSO explorer of the Lean model with the observed Orders (model-level schedule, said so in the replay).
"""
import os
import re

import common
from common import REPO, cxx_build, drv, gen_write, log, sh

STUBS = "harness/common/r1_stubs.cpp"
STRENGTH = {"rlx": 0, "cns": 1, "acq": 1, "rel": 1, "acqrel": 2, "sc": 3}
RMW = ("xchg", "cas", "fadd", "fsub", "fand", "for", "fxor")

# ----------------------------------------------------------------------------------------------------------------
# builds
# ----------------------------------------------------------------------------------------------------------------


def build_comp(name):
    return cxx_build("C02", name, ["harness/c02/%s.cpp" % name, common.SHIM_SRC, STUBS],
                     flags=["-O1", "-g", "-fno-access-control", "-D__TBB_BUILD", "-I" + REPO + "/src"] + common.SHIM_FLAGS)


def build_rt():
    objs = common.shim_runtime_objects()
    return cxx_build("C02", "rt", ["harness/c02/rt.cpp", common.SHIM_SRC],
                     flags=["-O1", "-g", "-fno-access-control", "-D__TBB_BUILD", "-I" + REPO + "/src"] + common.SHIM_FLAGS,
                     libs=objs + ["-ldl"])


def build_rt2():
    objs = common.shim_runtime_objects()
    return cxx_build("C02", "rt2", ["harness/c02/rt2.cpp", common.SHIM_SRC],
                     flags=["-O1", "-g", "-fno-access-control", "-D__TBB_BUILD", "-I" + REPO + "/src"] + common.SHIM_FLAGS,
                     libs=objs + ["-ldl"])


# ----------------------------------------------------------------------------------------------------------------
# trace parsing / abstraction
# ----------------------------------------------------------------------------------------------------------------

def parse_runs(out):
    runs, cur = [], None
    for l in out.split("\n"):
        w = l.split()
        if not w:
            continue
        if w[0] == "run":
            cur = {"ev": [], "res": {}, "mon": "", "sched": [], "fin": []}
        elif cur is None:
            continue
        elif w[0] == "e":
            cur["ev"].append(w[1:])
        elif w[0] == "res":
            cur["res"][int(w[1])] = w[2:]
        elif w[0] == "fin":
            cur["fin"] = w[1:]
        elif w[0] == "mon":
            cur["mon"] = " ".join(w[1:])
        elif w[0] == "sched":
            cur["sched"] = w[1:]
        elif w[0] == "end":
            runs.append(cur)
            cur = None
    return runs


def same_access(impl, model, stronger):
    """impl/model: 'kind var order values...'; a stronger memory order on the implementation side is tolerated (counted)."""
    a, b = impl.split(), model.split()
    if len(a) != len(b):
        return False
    for i, (x, y) in enumerate(zip(a, b)):
        if x == y:
            continue
        if i == 2 and x in STRENGTH and y in STRENGTH and STRENGTH[x] > STRENGTH[y]:
            stronger[0] += 1
            continue
        return False
    return True


def monitor_abstraction(evs):
    """E-SHIM events of mon.cpp -> [(tid, canonical access)] at the granularity of the Lean `Monitor` model:
    the monitor mutex is an abstract lock (only the successful acquire / the release are steps), the semaphore is
    abstract (P = the access that obtains the open word, V = exchange(0)), loads that are the read half of a non-atomic
    read-modify-write under the lock are dropped (their value is implied by the following store)."""
    evs = [e for e in evs if e[1] != "note"]
    nxt, nextof = {}, [None] * len(evs)
    for i in range(len(evs) - 1, -1, -1):
        nextof[i] = nxt.get(evs[i][0])
        nxt[evs[i][0]] = i
    out, holder, dropped_loads = [], None, 0
    for i, e in enumerate(evs):
        t, k, var, o, a, b, ok = e
        t = int(t)
        if var.startswith("sem"):
            if k == "store":
                out.append((t, "store %s %s %s" % (var, o, a)))
            elif k == "cas" and ok == "1":
                out.append((t, "P " + var))
            elif k == "xchg" and b == "0":
                out.append((t, "V " + var))
            elif k == "xchg" and a == "0":
                out.append((t, "P " + var))
            continue
        if var == "mwait" or k in ("fwait", "fwake"):
            continue
        if var == "mflag":
            if k == "xchg" and a == "0" and b == "1":
                out.append((t, "xchg mflag %s 0 1" % o))
                holder = t
            elif k == "xchg" and b == "0":
                out.append((t, "xchg mflag %s %s 0" % (o, a)))
                holder = None
            continue
        if k == "load":
            j = nextof[i]
            if (j is not None and evs[j][1] == "store" and evs[j][2] == var) or (var == "count" and holder == t):
                dropped_loads += 1
                continue
            out.append((t, "load %s %s %s" % (var, o, a)))
        elif k == "store":
            out.append((t, "store %s %s %s" % (var, o, a)))
        elif k == "fence":
            out.append((t, "fence - %s" % o))
        else:
            out.append((t, "%s %s %s %s %s" % (k, var, o, a, b)))
    return out, dropped_loads


def model_scenario(scn):
    """the scenario as the Lean model sees it: the arrival-order gates `g,<k>` are harness-only (they perform no access
    to the monitor; their spin loops are unnamed accesses, not part of the trace)"""
    return "\n".join(" ".join(w for w in l.split() if not w.startswith("g,")) for l in scn.strip().split("\n"))


def replay_monitor(scn, run, stats):
    ab, dropped = monitor_abstraction(run["ev"])
    stats["dropped_loads"] += dropped
    mscn = model_scenario(scn)
    lines = ["reset"] + mscn.split("\n") + ["s %d" % t for t, _ in ab] + ["state", "left"]
    out = drv("c02mon", "\n".join(lines) + "\n")
    n0 = 1 + len(mscn.split("\n"))
    stronger = [0]
    for i, (t, c) in enumerate(ab):
        if not same_access(c, out[n0 + i], stronger):
            return "access %d of thread %d: implementation '%s', model '%s'" % (i, t, c, out[n0 + i])
    stats["stronger_orders"] += stronger[0]
    st = out[n0 + len(ab)].split(" | ") if out[n0 + len(ab)] else []
    nsl = len([l for l in scn.strip().split("\n") if l.startswith("S")])
    for i in range(nsl):
        r = st[i].split() if i < len(st) else []
        if r != run["res"].get(i, []):
            return "results of sleeper %d: implementation %s, model %s" % (i, run["res"].get(i), r)
    if run["mon"] == "ok" and out[n0 + len(ab) + 1] != "0":
        return "complete implementation run, but the model has %s unfinished threads" % out[n0 + len(ab) + 1]
    return None


def replay_binsem(run):
    """Every binary_semaphore instance of the run (one per wait() call: `new binary_semaphore` = store sem := 1)
    is replayed on the word-level `BinSem` model."""
    inst = {}          # var -> current instance
    done = []
    pending_wake = {}  # (var, tid) -> instance that owes the futex wake
    for e in run["ev"]:
        if e[1] == "note":
            continue
        t, k, var, o, a, b, ok = e
        if not var.startswith("sem"):
            continue
        t = int(t)
        if k == "store":
            if var in inst:
                done.append(inst[var])
            inst[var] = {"var": var, "owner": t, "ev": [], "np": 0, "v": {}}
            continue
        cur = inst.get(var)
        if cur is None:
            return "access to %s before its construction" % var, 0
        if k == "fwake" and (var, t) in pending_wake:
            cur = pending_wake.pop((var, t))
        if k == "cas":
            cur["np"] += 1
            acc = "cas %s %s %s" % (a, b, ok)
        elif k == "xchg":
            if b == "0":
                cur["v"][t] = cur["v"].get(t, 0) + 1
                if a == "2":
                    pending_wake[(var, t)] = cur
            acc = "xchg %s %s 1" % (a, b)
        elif k == "fwait":
            acc = "fwait %s %s %s" % (a, b, ok)
        elif k == "fwake":
            acc = "fwake %s %s 1" % (a, b)
        else:
            return "unexpected access %s to %s" % (k, var), 0
        cur["ev"].append((t, acc))
    done += list(inst.values())
    n = 0
    lines, spans = [], []
    for c in done:
        posters = sorted(c["v"].keys())
        tidmap = {c["owner"]: 0}
        for i, p in enumerate(posters):
            tidmap[p] = i + 1
        start = len(lines)
        lines.append("init %d %s" % (c["np"], " ".join(str(c["v"][p]) for p in posters)))
        for (t, acc) in c["ev"]:
            if t not in tidmap:
                return "%s: thread %d performs '%s' but never a V" % (c["var"], t, acc), n
            lines.append("s %d" % tidmap[t])
        lines.append("state")
        spans.append((c, start))
    if not lines:
        return None, 0
    out = drv("c02sem", "\n".join(lines) + "\n")
    for c, start in spans:
        for i, (t, acc) in enumerate(c["ev"]):
            if out[start + 1 + i] != acc:
                return "%s access %d of thread %d: implementation '%s', model '%s'" % (c["var"], i, t, acc, out[start + 1 + i]), n
        st = out[start + 1 + len(c["ev"])].split()
        if st[3] != "0":
            return "%s: V() on an open semaphore" % c["var"], n
        n += 1
    return None, n


def replay_flag(scn, run, nP, nC):
    """flag.cpp trace -> `Flag` model.  busy values (addresses of locals) are renamed 2 + cleaner index."""
    busy = {}
    acc = []
    for e in run["ev"]:
        t, k, var, o, a, b, ok = e
        t = int(t)
        if var == "flag" and k == "cas" and a == "1" and ok == "1" and nP <= t < nP + nC:
            busy[b] = str(2 + t - nP)

        def cv(x):
            return busy.get(x, x)
        if k == "fence":
            acc.append((t, "fence - - 1"))
        elif k == "load":
            acc.append((t, "load %s %s - 1" % (var, cv(a))))
        elif k == "cas":
            acc.append((t, "cas flag %s %s %s" % (cv(a), cv(b), ok)))
        elif k == "fadd":
            acc.append((t, "fadd work %s %s 1" % (a, b)))
        elif k == "fsub":
            acc.append((t, "take work %s %s 1" % (a, b)))
        else:
            return "unexpected access %s %s" % (k, var)
    w = scn.strip().split("\n")
    g = {l.split()[0]: l.split()[1:] for l in w}
    lines = ["init %s | %s | %s" % (" ".join(g.get("P", [])), " ".join(g.get("C", [])), " ".join(g.get("T", [])))]
    lines += ["s %d" % t for t, _ in acc] + ["state"]
    out = drv("c02flag", "\n".join(lines) + "\n")
    for i, (t, a) in enumerate(acc):
        if out[1 + i] != a:
            return "access %d of thread %d: implementation '%s', model '%s'" % (i, t, a, out[1 + i])
    st = out[1 + len(acc)].split(" | ")
    fl, wk, req, rel = st[0].split()
    fin = run["fin"]
    if fin and (("2" if int(fl) > 1 else fl) != fin[0] or wk != fin[1] or str(int(req) - int(rel)) != fin[2]):
        return "final state: implementation flag=%s work=%s demand=%s, model flag=%s work=%s req=%s rel=%s" % (fin[0], fin[1], fin[2], fl, wk, req, rel)
    pub = [x.split() for x in (st[1].split(" ; ") if len(st) > 1 else [])]
    cl = [x.split() for x in (st[2].split(" ; ") if len(st) > 2 else [])]
    for i in range(nP):
        if (pub[i] if i < len(pub) else []) != run["res"].get(i, []):
            return "results of publisher %d: implementation %s, model %s" % (i, run["res"].get(i), pub[i] if i < len(pub) else None)
    for i in range(nC):
        if (cl[i] if i < len(cl) else []) != run["res"].get(nP + i, []):
            return "results of cleaner %d: implementation %s, model %s" % (i, run["res"].get(nP + i), cl[i] if i < len(cl) else None)
    return None


# ----------------------------------------------------------------------------------------------------------------
# E-GEN: the Orders table from the observed trace
# ----------------------------------------------------------------------------------------------------------------

ORD_SCN = "S w,1,0\nN sig,0,c1,f\n"


def observe_orders(mon_exe, rt_exe):
    """Which accesses of the two Dekker sides of concurrent_monitor (1 sleeper, 1 notifier) are fences, as executed."""
    # schedule: sleeper runs alone until it parks, then the notifier (both sides then pass every site)
    rc, out, err = sh([mon_exe, "replay", ",".join(["0"] * 40 + ["1"] * 60)], input=ORD_SCN, timeout=60)
    runs = parse_runs(out)
    if not runs:
        raise common.BuildError("orders scenario produced no trace: rc=%d %s" % (rc, (out + err)[-400:]))
    ev = [e for e in runs[0]["ev"] if e[1] != "note"]
    s = [e for e in ev if e[0] == "0"]
    n = [e for e in ev if e[0] == "1"]
    obs = {"prepFence": False, "unlockRmw": False, "notifyFence": False, "chgRmw": False, "found": []}
    # sleeper: enqueue (store count) -> unlock -> [fence] -> predicate load
    try:
        i_enq = next(i for i, e in enumerate(s) if e[1] == "store" and e[2] == "count")
        i_chk = next(i for i, e in enumerate(s) if i > i_enq and e[1] == "load" and e[2] == "cond0")
        between = s[i_enq + 1:i_chk]
        unl = [e for e in between if e[2] == "mflag" and e[5] == "0"]
        obs["unlockRmw"] = bool(unl) and unl[0][1] in RMW and unl[0][3] == "sc"
        obs["prepFence"] = any(e[1] == "fence" and e[3] == "sc" for e in between)
        obs["found"].append("sleeper")
    except StopIteration:
        pass
    # notifier: state change (access to cond0) -> [fence] -> waitset emptiness test (load count)
    try:
        i_chg = next(i for i, e in enumerate(n) if e[2] == "cond0")
        i_tst = next(i for i, e in enumerate(n) if i > i_chg and e[1] == "load" and e[2] == "count")
        obs["chgRmw"] = n[i_chg][1] in RMW and n[i_chg][3] == "sc"
        obs["notifyFence"] = any(e[1] == "fence" and e[3] == "sc" for e in n[i_chg + 1:i_tst])
        obs["found"].append("notifier")
    except StopIteration:
        pass
    sites = sorted(set(("sleeper" if e[0] == "0" else "notifier", e[1], re.sub(r"\d+$", "", e[2]), e[3]) for e in ev))
    obs["sites"] = sites
    # advertise_new_work<work_enqueued>: fence between making the task visible and the flag test (whole runtime)
    obs["enqueueFence"] = False
    rc, out, err = sh([rt_exe, "enq2", "rand", "0", "1", "trace"], timeout=120)
    tr = [l.split()[1:] for l in out.split("\n") if l.startswith("e ")]
    try:
        i0 = next(i for i, e in enumerate(tr) if e[1] == "note" and e[2] == "enqueue_begin")
        i1 = next(i for i, e in enumerate(tr) if i > i0 and e[0] == "0" and e[1] != "note" and re.match(r"(pool_state|mandatory)", e[2]))
        obs["enqueueFence"] = any(e[0] == "0" and e[1] == "fence" and e[3] == "sc" for e in tr[i0:i1])
        obs["found"].append("enqueue")
    except StopIteration:
        pass
    return obs


# wait sets (contexts, oldest first) x notification for which the dequeue order is observed and regenerated
SCAN_OBS = [([1, 2, 1], "p1"), ([1, 2, 1], "c1"), ([1, 2, 3], "p1"), ([1, 2, 3], "p2"), ([1, 2, 3], "p3"), ([1, 2, 3], "p9"),
            ([1, 2, 3], "c1"), ([1, 2, 3], "c3"), ([2, 1, 1], "p1"), ([1, 1, 2], "p1"), ([1, 1, 2], "c1"), ([1, 2, 3], "one"),
            ([1, 2], "all"), ([2, 1], "abort"), ([1, 2], "c7")]


def lean_kind(tok):
    return {"all": ".all", "one": ".one", "abort": ".abort"}.get(tok) or (".ctx %s" % tok[1:] if tok[0] == "c" else ".onec %s" % tok[1:])


def observe_scan(mon_exe):
    """For each (wait set with known arrival order, notification): which nodes did the notifier dequeue, in which order
    (the `my_is_in_list.store(false)` accesses inside its critical section), as executed by the real code."""
    obs = []
    for ctxs, kind in SCAN_OBS:
        n = len(ctxs)
        scn = "\n".join("S %sw,%d,%d" % ("g,%d " % i if i else "", c, i) for i, c in enumerate(ctxs))
        scn += "\nN g,%d sig,-,%s,r sig,-,all,f" % (n, kind)
        rc, out, err = sh([mon_exe, "rand", "1", "1"], input=scn + "\n", timeout=60)
        runs = parse_runs(out)
        if not runs:
            return None, "no trace for %s %s: rc=%d %s" % (ctxs, kind, rc, (out + err)[-300:])
        ev = [e for e in runs[0]["ev"] if e[0] == str(n) and e[1] != "note"]
        seq, inside, seen = [], False, False
        for e in ev:
            if e[2] == "mflag" and e[1] == "xchg":
                if e[4] == "0" and e[5] == "1" and not seen:
                    inside = seen = True
                elif e[5] == "0":
                    inside = False
            elif inside and e[1] == "store" and e[2].startswith("inl") and e[4] == "0":
                seq.append(int(e[2][3:]))
        if not seen and kind != "p9" and kind != "c7":
            return None, "notifier never entered its critical section for %s %s" % (ctxs, kind)
        obs.append((ctxs, kind, seq))
    return obs, ""


def b(x):
    return "true" if x else "false"


def gen(ck, mon_exe, rt_exe):
    obs = observe_orders(mon_exe, rt_exe)
    ck.extra["observed_orders"] = {k: obs[k] for k in ("prepFence", "unlockRmw", "notifyFence", "chgRmw", "enqueueFence")}
    ck.extra["observed_sites"] = [" ".join(s) for s in obs["sites"]]
    body = "open TbbVerif.C02.Tso\n"
    for k in ("prepFence", "unlockRmw", "notifyFence", "chgRmw"):
        body += "def %s : Bool := %s\n" % (k, b(obs[k]))
    body += "def ordersX86 : Orders := ⟨prepFence, unlockRmw, notifyFence, chgRmw, true⟩\n"
    body += "def ordersPortable : Orders := ⟨prepFence, unlockRmw, notifyFence, chgRmw, false⟩\n"
    body += "def enqueueFence : Bool := %s\n" % b(obs["enqueueFence"])
    body += "def sites : List (String × String × String × String) := [%s]\n" % ", ".join('("%s", "%s", "%s", "%s")' % s for s in obs["sites"])
    sobs, why = observe_scan(mon_exe)
    ck.extra["observed_dequeue_order"] = ["%s %s -> %s" % (c, k, q) for c, k, q in (sobs or [])]
    body += "open TbbVerif.C02 in\ndef scanObs : List (List Nat × NKind × List Nat) := [%s]\n" % ", ".join(
        "(%s, %s, %s)" % (c, lean_kind(k), q) for c, k, q in (sobs or []))
    gen_write("C02", body, imports=("TbbVerif.Core.Cint", "TbbVerif.Model.C02"))
    ck.oblige("gen:dequeue order of every notify entry point observed on wait sets with known arrival order (%d shapes)" % len(SCAN_OBS),
              "generated", sobs is not None, why)
    ck.oblige("gen:Orders regenerated from the E-SHIM trace (sleeper / notifier / enqueue sites found)", "generated",
              set(obs["found"]) == {"sleeper", "notifier", "enqueue"}, "found %s" % obs["found"])
    return obs


def fences_ok(obs, rmw_fence):
    return (obs["prepFence"] or (obs["unlockRmw"] and rmw_fence)) and (obs["notifyFence"] or (obs["chgRmw"] and rmw_fence))


# ----------------------------------------------------------------------------------------------------------------
# scenarios
# ----------------------------------------------------------------------------------------------------------------

MON_CORPUS = [
    "S w,1,0\nN sig,0,c1,f",
    "S w,1,0\nN sig,0,all,f",
    "S w,1,0\nN sig,0,abort,f",
    "S w,1,0\nS w,1,0\nN sig,0,c1,f",
    "S w,1,0\nS w,2,1\nN sig,0,c1,f sig,1,c2,f",
    "S w,1,0\nS w,2,1\nN sig,0,c1,f\nN sig,1,all,f",
    "S w,1,0 w,1,0\nN sig,-,one,f sig,0,c1,f",
    "S w,1,0\nS w,1,0\nS w,2,1\nN sig,0,c1,f\nN sig,1,c2,f",
    "S w,1,0\nS w,2,0\nN sig,-,c1,r sig,0,abort,f",
    "S w,1,0 w,2,1\nS w,2,1\nN sig,1,c2,f sig,0,c1,f\nN sig,-,all,r",
    "S w,1,0\nS w,1,0\nN sig,-,one,r sig,-,one,f sig,0,all,f",
    "S w,7,0\nN clr,0 sig,0,c7,f\nN sig,-,c7,f",
]
MON_DFS = [0, 1, 2, 3, 5, 6]      # corpus indices explored exhaustively (bounded preemption)

# every notify entry point of concurrent_monitor.h: (kind token builder, relaxed flag)
ENTRY_POINTS = [("c", "f"), ("c", "r"), ("p", "f"), ("p", "r"), ("one", "f"), ("one", "r"),
                ("all", "f"), ("all", "r"), ("abort", "f"), ("abort", "r")]


def mon_order_scenarios():
    """Wait sets with >= 2 sleepers of DIFFERENT contexts and a KNOWN arrival order (gates), for every notify entry
    point, both arrival orders, and both targets: the first notification's predicate matches only the OLDER waiter /
    only the NEWER waiter; plus 3-sleeper sets where the only match is the oldest / the middle / the newest node and
    sets with two matching nodes (notify_one(pred) must take the newest one, notify(pred) both, newest first).
    Sleeper 0 has context 1 and waits on cond0, sleeper 1 context 2 / cond1, sleeper 2 context 3 / cond2."""
    out = []
    for kind, rl in ENTRY_POINTS:
        for first in (0, 1):                       # which sleeper arrives first (= is the older node)
            older, newer = first, 1 - first
            sl = ["S " + ("g,1 " if t == newer else "") + "w,%d,%d" % (t + 1, t) for t in (0, 1)]
            for target in (older, newer):
                other = 1 - target
                if kind in ("c", "p"):
                    n = "N g,2 sig,%d,%s%d,%s sig,%d,%s%d,%s" % (target, kind, target + 1, rl, other, kind, other + 1, rl)
                elif kind == "one":
                    # notify_one has no predicate: it takes the front (oldest) node whatever its context
                    n = "N g,2 sig,%d,one,%s sig,%d,one,%s sig,-,all,f" % (target, rl, other, rl)
                else:
                    n = "N g,2 sig,%d,%s,%s sig,%d,all,f" % (target, kind, rl, other)
                out.append(("%s-%s:%s-first:%s" % (kind, rl, "s0" if first == 0 else "s1", "older" if target == older else "newer"),
                            "\n".join(sl) + "\n" + n))
    # three nodes, arrival order 0,1,2: the single match is the oldest / middle / newest; then the rest
    for kind, rl in (("c", "f"), ("c", "r"), ("p", "f"), ("p", "r")):
        for target in (0, 1, 2):
            rest = [t for t in (2, 1, 0) if t != target]
            sl = ["S " + ("g,%d " % t if t else "") + "w,%d,%d" % (t + 1, t) for t in (0, 1, 2)]
            n = "N g,3 " + " ".join("sig,%d,%s%d,%s" % (t, kind, t + 1, rl) for t in [target] + rest)
            out.append(("%s-%s:3nodes:match-%s" % (kind, rl, ("oldest", "middle", "newest")[target]), "\n".join(sl) + "\n" + n))
    # two matching nodes (same context 1, conditions 0 and 2) around a non-matching one
    for kind, rl in (("c", "f"), ("p", "r"), ("p", "f")):
        sl = ["S w,1,0", "S g,1 w,2,1", "S g,2 w,1,2"]
        if kind == "p":
            n = "N g,3 sig,2,p1,%s sig,0,p1,%s sig,1,p2,%s" % (rl, rl, rl)     # newest match first, then the older one
        else:
            n = "N g,3 sig,0,c1,%s sig,1,c2,%s sig,2,all,f" % (rl, rl)
        out.append(("%s-%s:3nodes:two-matches" % (kind, rl), "\n".join(sl) + "\n" + n))
    return out


MON_ORDER_DFS = ("p-r:s0-first:older", "p-f:s1-first:older", "c-r:s0-first:older", "p-r:3nodes:match-oldest")


def mon_random_scenario(rng):
    """1-3 sleepers x 1-2 notifiers; every condition a sleeper waits on is eventually signalled by a notification that
    accepts the sleeper's context (so every complete schedule ends with all sleepers returned)."""
    nconds = rng.choice([1, 1, 2, 2, 3])
    ctx_of = [rng.choice([1, 2, 3]) for _ in range(nconds)]
    sl = []
    for _ in range(rng.choice([1, 2, 2, 3])):
        ops = []
        for _ in range(rng.choice([1, 1, 2])):
            c = rng.randrange(nconds)
            ops.append("w,%d,%d" % (ctx_of[c], c))
        sl.append(ops)
    nn = rng.choice([1, 2, 2])
    nt = [[] for _ in range(nn)]
    nwaits = [sum(1 for ops in sl for o in ops if o.endswith(",%d" % c)) for c in range(nconds)]
    for c in range(nconds):
        kinds = ["c%d" % ctx_of[c], "c%d" % ctx_of[c], "all", "abort"]
        if nwaits[c] == 1 and ctx_of.count(ctx_of[c]) == 1:
            # notify_one_relaxed(pred) wakes ONE matching waiter: usable as the only announcement when a single wait has that context
            kinds += ["p%d" % ctx_of[c]] * 3
        nt[rng.randrange(nn)].append("sig,%d,%s,%s" % (c, rng.choice(kinds), rng.choice("ffr")))
    for q in nt:
        for _ in range(rng.choice([0, 0, 1])):       # spurious notifications without a state change
            # (a context nobody waits with: a spurious notify_one(pred) must not steal... it wakes nobody)
            q.insert(rng.randrange(len(q) + 1), "sig,-,%s,%s" % (rng.choice(["one", "all", "c1", "c2", "p9", "p8"]), rng.choice("fr")))
    nt = [q for q in nt if q] or [["sig,-,all,f"]]
    sl = [list(o) for o in sl]
    if len(sl) >= 2 and rng.randrange(3) == 0:
        # known arrival order: sleeper k's first wait starts after k nodes were enqueued, the notifiers after all first waits
        for k in range(1, len(sl)):
            sl[k][0] = "g,%d %s" % (k, sl[k][0])
        for q in nt:
            q[0] = "g,%d %s" % (len(sl), q[0])
    return "\n".join("S " + " ".join(o) for o in sl) + "\n" + "\n".join("N " + " ".join(q) for q in nt)


def flag_random_scenario(rng):
    P = [rng.choice([1, 1, 2, 3]) for _ in range(rng.choice([1, 2, 2, 3]))]
    C = [rng.choice([1, 2, 3]) for _ in range(rng.choice([1, 1, 2]))]
    T = [rng.choice([1, 2, 4]) for _ in range(rng.choice([0, 1, 1, 2]))]
    return "P %s\nC %s\nT %s" % (" ".join(map(str, P)), " ".join(map(str, C)), " ".join(map(str, T)))


FLAG_CORPUS = ["P 1\nC 1\nT", "P 2\nC 1\nT 1", "P 1 1\nC 1 1\nT 2", "P 2\nC 2\nT 2"]

RT_SCENARIOS = ["tg2", "tg3", "enq2", "enq3", "enq1r", "enq0w", "enq2a", "enqrace1", "enqrace2", "bq", "bq2", "mtx2", "mtx3", "rw"]

# rt2.cpp: mutexes colliding in one address_waiter bucket (types x arrival order x which waiter's mutex is unlocked first)
RT2_COLL = ["coll.%s.%s.%s" % (ty, first, tg) for ty in ("mm", "rr", "mr", "rm") for first in "ab" for tg in ("older", "newer")] + \
           ["coll.%s.a.%s" % (ty, tg) for ty in ("mmm", "mrm") for tg in ("oldest", "middle", "newest")]
# rt2.cpp: zero-worker soft limit, enqueue into arena B vs spawn-only demand of arena C (creation order x priorities x variant)
RT2_ENQSP = ["enqsp.%s.%s.%s.%s.%d" % (o, pb, pc, v, 1 + (i + j + len(o + v)) % 3)
             for o in ("bc", "cb") for i, pb in enumerate("lnh") for j, pc in enumerate("lnh") for v in "ws"]


def rt2_shape(sc):
    """counterexample key naming the shape of an rt2 scenario"""
    p = sc.split(".")
    if p[0] == "coll":
        return "mutex-bucket-collision:%s:%s-waiter" % (p[1], p[3])
    if p[0] == "enqsp":
        return "two-arenas:enqueue-vs-spawn-demand:%s:prio-%s%s:%s" % ({"bc": "B-created-first", "cb": "C-created-first"}[p[1]], p[2], p[3],
                                                                      {"w": "owner-waits", "s": "owner-busy"}[p[4]])
    return sc


# ----------------------------------------------------------------------------------------------------------------
# the check
# ----------------------------------------------------------------------------------------------------------------

def cex_monitor(ck, family, scn, r, args=None, shape=None):
    verdict = r["mon"] or "?"
    if family == "mon" and shape is None:
        shape = next((name for name, sc in mon_order_scenarios() if sc == scn), None)
    key = "%s:%s" % (family + (":" + shape if shape else ""), verdict.split(" ")[0])
    ck.counterexample(key, "%s: %s | scenario %s | schedule of %d steps" % (family, verdict, scn.replace("\n", " / "), len(r["sched"])),
                      {"engine": "E-SHIM", "harness": family, "scenario": scn, "args": args or [], "schedule": r["sched"],
                       "monitor": verdict, "trace": [" ".join(e) for e in r.get("ev", [])][:300]})


def run_mon(ck, exe):
    quick = ck.tier == "quick"
    nrand = 25 if quick else 40
    order = mon_order_scenarios()
    scs = [(scn, nrand, None) for scn in MON_CORPUS] + [(scn, 6 if quick else 20, name) for name, scn in order] + \
          [(mon_random_scenario(ck.rng), nrand, None) for _ in range(100 if quick else 300)]
    stats = {"dropped_loads": 0, "stronger_orders": 0}
    bad_corr, bad_sem, bad_mon = [], [], []
    nruns = nsem = 0
    shapes_seen = {}
    for si, (scn, nr, shape) in enumerate(scs):
        rc, out, err = sh([exe, "rand", str(ck.seed * 1000 + si), str(nr)], input=scn + "\n", timeout=300)
        runs = parse_runs(out)
        if rc not in (0, 1, 3) or not runs:
            bad_mon.append((scn, {"mon": "harness rc=%d %s" % (rc, (out + err)[-300:]), "sched": []}))
            continue
        for r in runs:
            nruns += 1
            kinds = tuple(sorted(set((e[1], re.sub(r"\d+$", "", e[2])) for e in r["ev"] if e[1] != "note")))
            ck.count(1, ("mon", scn.count("\nS") + 1, scn.count("\nN"), kinds, tuple(tuple(v) for v in r["res"].values())))
            if r["mon"] != "ok":
                bad_mon.append((scn, r))
                continue
            if shape:
                # measured: the notifier's first racy emptiness test saw >= 2 enqueued nodes (the gated arrival order held)
                nt = str(scn.count("\nS") + 1)
                c0 = next((int(e[4]) for e in r["ev"] if e[0] == nt and e[1] == "load" and e[2] == "count"), 0)
                if c0 >= 2:
                    shapes_seen[shape] = shapes_seen.get(shape, 0) + 1
            d = replay_monitor(scn, r, stats)
            ck.traces_validated += 1
            if d:
                bad_corr.append((scn, r, d))
            d, n = replay_binsem(r)
            nsem += n
            if d:
                bad_sem.append((scn, r, d))
        if si < 2 and runs:
            ck.sample({"harness": "mon", "scenario": scn, "trace_head": [" ".join(e) for e in runs[0]["ev"][:16]], "results": runs[0]["res"]})
    dfs_runs = 0
    dfs_scs = [(MON_CORPUS[ci], "10000" if quick else "100000") for ci in (MON_DFS if not quick else MON_DFS[:5])] + \
              [(scn, "3000" if quick else "60000") for name, scn in order if name in MON_ORDER_DFS]
    for scn, budget in dfs_scs:
        rc, out, err = sh([exe, "dfs", "2" if quick else "3", budget], input=scn + "\n", timeout=1700)
        m = re.search(r"summary runs=(\d+) bad=(\d+)", out)
        if m:
            dfs_runs += int(m.group(1))
        if rc != 0 or not m or m.group(2) != "0":
            rs = parse_runs(out)
            bad_mon.append((scn, rs[-1] if rs else {"mon": "harness rc=%d %s" % (rc, (out + err)[-300:]), "sched": []}))
    ck.evaluations += dfs_runs
    ck.extra.setdefault("schedules", {})["monitor"] = {"random_runs": nruns, "dfs_runs": dfs_runs, "binsem_instances": nsem,
                                                        "tolerated_loads_under_lock": stats["dropped_loads"],
                                                        "stronger_orders_tolerated": stats["stronger_orders"]}
    missing = [name for name, _ in order if not shapes_seen.get(name)]
    ck.extra["schedules"]["monitor"]["arrival_order_shapes"] = {"shapes": len(order), "exercised": len(order) - len(missing),
                                                                "runs_with_2plus_nodes_at_the_scan": sum(shapes_seen.values())}
    ck.oblige("monitor:coverage — every notify entry point (notify, notify_relaxed, notify_one[_relaxed], notify_one_relaxed(pred), "
              "notify_all[_relaxed], abort_all[_relaxed]) ran against a wait set of >= 2 nodes with different contexts, both arrival orders, "
              "first match = the older / the newer node (plus oldest / middle / newest of 3 and two matches)", "correspondence",
              not missing or bool(bad_mon), "shapes never exercised with >= 2 enqueued nodes: %s" % missing[:6])
    ck.oblige("corr:concurrent_monitor access trace (kind, variable, memory order, values, results) replays on the Lean Monitor model",
              "correspondence", not bad_corr,
              "" if not bad_corr else "%s | scenario %s | sched %s" % (bad_corr[0][2], bad_corr[0][0].replace("\n", " / "), " ".join(bad_corr[0][1]["sched"])[:600]))
    ck.oblige("corr:binary_semaphore word trace replays on the Lean BinSem model (no V on an open semaphore)", "correspondence", not bad_sem,
              "" if not bad_sem else "%s | scenario %s" % (bad_sem[0][2], bad_sem[0][0].replace("\n", " / ")))
    ck.oblige("monitor:concurrent_monitor no deadlock / no thread parked while its predicate is true / no double V (random + bounded-preemption DFS)",
              "correspondence", not bad_mon, "" if not bad_mon else "%s | scenario %s" % (bad_mon[0][1]["mon"], bad_mon[0][0].replace("\n", " / ")))
    shaped = {sc: name for name, sc in order}
    for scn, r in sorted(bad_mon, key=lambda x: (x[0] not in shaped or not x[1].get("sched")))[:1]:
        cex_monitor(ck, "mon", scn, r, shape=shaped.get(scn))
    return bad_corr or bad_sem, bad_mon


def run_flag(ck, exe):
    quick = ck.tier == "quick"
    scs = FLAG_CORPUS + [flag_random_scenario(ck.rng) for _ in range(15 if quick else 150)]
    nrand = 15 if quick else 50
    bad_corr, bad_mon = [], []
    nruns = dfs_runs = 0
    for si, scn in enumerate(scs):
        g = {l.split()[0]: l.split()[1:] for l in scn.split("\n")}
        nP, nC = len(g.get("P", [])), len(g.get("C", []))
        rc, out, err = sh([exe, "rand", str(ck.seed * 1000 + si), str(nrand)], input=scn + "\n", timeout=300)
        runs = parse_runs(out)
        if rc not in (0, 1, 3) or not runs:
            bad_mon.append((scn, {"mon": "harness rc=%d %s" % (rc, (out + err)[-300:]), "sched": []}))
            continue
        for r in runs:
            nruns += 1
            ck.count(1, ("flag", nP, nC, tuple(sorted(set((e[1], e[6]) for e in r["ev"]))), tuple(tuple(v) for v in r["res"].values())))
            if r["mon"] != "ok":
                bad_mon.append((scn, r))
                continue
            d = replay_flag(scn, r, nP, nC)
            ck.traces_validated += 1
            if d:
                bad_corr.append((scn, r, d))
    for scn in FLAG_CORPUS[:3 if quick else 4]:
        rc, out, err = sh([exe, "dfs", "2" if quick else "3", "8000" if quick else "80000"], input=scn + "\n", timeout=1700)
        m = re.search(r"summary runs=(\d+) bad=(\d+)", out)
        if m:
            dfs_runs += int(m.group(1))
        if rc != 0 or not m or m.group(2) != "0":
            rs = parse_runs(out)
            bad_mon.append((scn, rs[-1] if rs else {"mon": "harness rc=%d %s" % (rc, (out + err)[-300:]), "sched": []}))
    ck.evaluations += dfs_runs
    ck.extra.setdefault("schedules", {})["atomic_flag"] = {"random_runs": nruns, "dfs_runs": dfs_runs}
    ck.oblige("corr:arena atomic_flag (test_and_set / try_clear_if) access trace replays on the Lean Flag model", "correspondence", not bad_corr,
              "" if not bad_corr else "%s | scenario %s | sched %s" % (bad_corr[0][2], bad_corr[0][0].replace("\n", " / "), " ".join(bad_corr[0][1]["sched"])[:400]))
    ck.oblige("monitor:atomic_flag never UNSET with work present after all publishers returned; demand = [flag != UNSET]", "correspondence",
              not bad_mon, "" if not bad_mon else "%s | scenario %s" % (bad_mon[0][1]["mon"], bad_mon[0][0].replace("\n", " / ")))
    for scn, r in bad_mon[:1]:
        cex_monitor(ck, "flag", scn, r)
    return bad_corr, bad_mon


def run_wctx(ck, exe):
    quick = ck.tier == "quick"
    bad = []
    nruns = 0
    for (w, rl) in [(1, 1), (1, 2), (2, 2), (1, 3), (2, 3)]:
        rc, out, err = sh([exe, "rand", str(ck.seed * 100 + w * 10 + rl), str(60 if quick else 600), str(w), str(rl)], timeout=600)
        m = re.search(r"summary runs=(\d+) bad=(\d+)", out)
        nruns += int(m.group(1)) if m else 0
        ck.count(int(m.group(1)) if m else 0, ("wctx", w, rl))
        if rc != 0 or not m or m.group(2) != "0":
            rs = parse_runs(out)
            bad.append(("%d %d" % (w, rl), rs[-1] if rs else {"mon": "harness rc=%d %s" % (rc, (out + err)[-300:]), "sched": []}))
    dfs_runs = 0
    for (w, rl) in [(1, 2), (2, 2)] if quick else [(1, 2), (2, 2), (1, 3)]:
        rc, out, err = sh([exe, "dfs", "2" if quick else "3", str(8000 if quick else 60000), str(w), str(rl)], timeout=1700)
        m = re.search(r"summary runs=(\d+) bad=(\d+)", out)
        dfs_runs += int(m.group(1)) if m else 0
        if rc != 0 or not m or m.group(2) != "0":
            rs = parse_runs(out)
            bad.append(("%d %d" % (w, rl), rs[-1] if rs else {"mon": "harness rc=%d %s" % (rc, (out + err)[-300:]), "sched": []}))
    ck.evaluations += dfs_runs
    ck.extra.setdefault("schedules", {})["wait_context"] = {"random_runs": nruns, "dfs_runs": dfs_runs}
    ck.oblige("monitor:wait_context release -> notify_waiters wakes every external waiter (no waiter parked after the last release)", "correspondence",
              not bad, "" if not bad else "%s | waiters/releasers %s" % (bad[0][1]["mon"], bad[0][0]))
    for a, r in bad[:1]:
        cex_monitor(ck, "wctx", "", r, args=a.split())
    return bad


def run_rt(ck, exe, scenarios=RT_SCENARIOS, nruns=None, seeds=1):
    quick = ck.tier == "quick"
    n = nruns or (60 if quick else 600)
    bad = []
    total = parks = 0
    sites = {"fence": 0, "rmw": 0, "dirty": 0}
    dirty_detail = rmw_detail = ""
    demand = {"quiescent_states_checked": 0, "with_a_task_in_the_stream": 0}
    for sc in scenarios:
        for sd in range(seeds):
            rc, out, err = sh([exe, sc, "rand", str(ck.seed * 7 + sd * 1009 + len(sc)), str(n)], timeout=1700)
            m = re.search(r"summary runs=(\d+) bad=(\d+)", out)
            done = int(m.group(1)) if m else 0
            total += done
            p = len(re.findall(r" parks=[1-9]", out))
            parks += p
            ck.count(done, ("rt", sc, p > 0))
            md = re.search(r"demand checks=(\d+) nonempty=(\d+)", out)
            if md:
                demand["quiescent_states_checked"] += int(md.group(1))
                demand["with_a_task_in_the_stream"] += int(md.group(2))
            ms = re.search(r"sites fence=(\d+) rmw=(\d+) dirty=(\d+) ?(.*)", out)
            if ms:
                sites["fence"] += int(ms.group(1))
                sites["rmw"] += int(ms.group(2))
                sites["dirty"] += int(ms.group(3))
                if int(ms.group(3)) and not dirty_detail:
                    dirty_detail = "%s: %s" % (sc, ms.group(4))
                if int(ms.group(2)) and not rmw_detail:
                    rmw_detail = "scenario %s" % sc
            if rc != 0 or not m or m.group(2) != "0":
                lines = out.split("\n")
                verdict = next((l for l in lines if l.startswith("run ") and " ok " not in l), "harness rc=%d %s" % (rc, (out + err)[-300:]))
                sched = next((l.split()[1:] for l in lines if l.startswith("sched")), [])
                bad.append((sc, verdict, sched))
                break
    ck.extra.setdefault("schedules", {})["whole_runtime"] = {"runs": total, "runs_with_a_thread_parked_in_a_futex": parks, "notify_sites": sites,
                                                              "arena_demand_monitor": demand}
    if any(sc.startswith("enq") for sc in scenarios):
        ck.oblige("monitor:coverage — the arena-demand monitor (at every scheduling point where no thread is inside advertise_new_work / out_of_work / "
                  "a request: tasks in the fifo stream => both flags SET and my_mandatory_requests >= 1, soft limit >= 1) saw states with tasks in the stream",
                  "correspondence", demand["with_a_task_in_the_stream"] > 0 or bool(bad), str(demand))
    ck.oblige("monitor:whole instrumented runtime — task_group wait, enqueue with nobody waiting (incl. max_concurrency 1, zero workers, two arenas), "
              "bounded queue, tbb::mutex, tbb::rw_mutex never end with every thread parked", "correspondence", not bad,
              "" if not bad else "%s: %s" % (bad[0][0], bad[0][1]))
    ck.oblige("monitor:notify sites — no plain store between a thread's last drain and its racy waitset-emptiness test (x86-TSO)", "correspondence",
              sites["dirty"] == 0, dirty_detail)
    ck.oblige("monitor:notify sites — the emptiness test follows a seq_cst FENCE, not merely a seq_cst RMW (portable reading)", "correspondence",
              sites["rmw"] == 0, "%d sites rely on an RMW as the barrier; first in %s" % (sites["rmw"], rmw_detail))
    for sc, verdict, sched in bad[:1]:
        ck.counterexample("rt:%s:%s" % (sc, verdict.split()[2] if len(verdict.split()) > 2 else "?"),
                          "whole runtime scenario %s: %s (schedule of %d steps)" % (sc, verdict, len(sched)),
                          {"engine": "E-SHIM", "harness": "rt", "scenario": sc, "schedule": sched, "monitor": verdict})
    return bad, sites["dirty"], dirty_detail or (rmw_detail if sites["rmw"] else ""), sites["rmw"]


def run_rt2(ck, exe, scenarios=None, nruns=None, seeds=1):
    quick = ck.tier == "quick"
    bad = []
    total = parks = 0
    fams = {"coll": 0, "enqsp": 0}
    for sc in scenarios or (RT2_COLL + RT2_ENQSP):
        fam = sc.split(".")[0]
        n = nruns or ((20 if fam == "coll" else 6) if quick else (200 if fam == "coll" else 60))
        for sd in range(seeds):
            rc, out, err = sh([exe, sc, "rand", str(ck.seed * 7 + sd * 1009 + len(sc)), str(n)], timeout=1700)
            m = re.search(r"summary runs=(\d+) bad=(\d+)", out)
            done = int(m.group(1)) if m else 0
            total += done
            fams[fam] = fams.get(fam, 0) + done
            p = len(re.findall(r" parks=[1-9]", out))
            parks += p
            ck.count(done, ("rt2", sc, p > 0))
            if rc != 0 or not m or m.group(2) != "0":
                lines = out.split("\n")
                verdict = next((l for l in lines if l.startswith("run ") and " ok " not in l), "harness rc=%d %s" % (rc, (out + err)[-300:]))
                sched = next((l.split()[1:] for l in lines if l.startswith("sched")), [])
                bad.append((sc, verdict, sched))
                break
    ck.extra.setdefault("schedules", {})["whole_runtime_2"] = {"runs": total, "runs_with_a_thread_parked_in_a_futex": parks, "per_family": fams}
    bc = [b for b in bad if b[0].startswith("coll")]
    be = [b for b in bad if not b[0].startswith("coll")]
    ck.oblige("monitor:whole instrumented runtime — tbb::mutex / tbb::rw_mutex objects colliding in one address_waiter bucket, one sleeping "
              "waiter each, both arrival orders: unlocking the mutex of the older / the newer / the middle waiter wakes that waiter "
              "(no run ends with every thread parked)", "correspondence", not bc, "" if not bc else "%s: %s" % (bc[0][0], bc[0][1]))
    ck.oblige("monitor:whole instrumented runtime — zero-worker soft limit, two arenas: a task enqueued into arena B (nobody waits there) runs "
              "although arena C has spawn-only demand (creation orders x priorities low/normal/high x owner waits / owner busy)", "correspondence",
              not be, "" if not be else "%s: %s" % (be[0][0], be[0][1]))
    for group in (bc, be):
        for sc, verdict, sched in group[:1]:
            ck.counterexample("rt:%s:%s" % (rt2_shape(sc), verdict.split()[2] if len(verdict.split()) > 2 else "?"),
                              "whole runtime scenario %s: %s (schedule of %d steps)" % (sc, verdict, len(sched)),
                              {"engine": "E-SHIM", "harness": "rt2", "scenario": sc, "schedule": sched, "monitor": verdict})
    return bad


# ----------------------------------------------------------------------------------------------------------------
# concurrent_bounded_queue: blocking push / pop on two monitors (harness/c02/bq.cpp, Lean model BQ)
# ----------------------------------------------------------------------------------------------------------------

def build_bq():
    return cxx_build("C02", "bq", ["harness/c02/bq.cpp", REPO + "/src/tbb/concurrent_bounded_queue.cpp", common.SHIM_SRC, STUBS],
                     flags=["-O1", "-g", "-fno-access-control", "-D__TBB_BUILD", "-I" + REPO + "/src"] + common.SHIM_FLAGS)


def bq_abstraction(evs):
    """E-SHIM events of bq.cpp -> [(tid, canonical access)] at the granularity of the Lean `BQ` model: queue-level
    accesses (head / tail / abortc) verbatim; the two monitors as in monitor_abstraction (variables tagged S. / I.);
    the micro-queue level below a ticket collapses to `pub <valid>` (the pusher's tail_counter.fetch_add of its
    micro-queue; invalid when preceded by ++n_invalid_entries: abort_push) and `con <valid>` (the popper's final
    head_counter.store of its micro-queue; invalid when preceded by --n_invalid_entries)."""
    evs = [e for e in evs if e[1] != "note"]
    nxt, nextof = {}, [None] * len(evs)
    for i in range(len(evs) - 1, -1, -1):
        nextof[i] = nxt.get(evs[i][0])
        nxt[evs[i][0]] = i
    out, holder, dropped = [], {"S.": None, "I.": None}, 0
    inval, cinval = {}, {}
    for i, e in enumerate(evs):
        t, k, var, o, a, b, ok = e
        t = int(t)
        if k == "fence":
            out.append((t, "fence - %s" % o))
            continue
        if var in ("head", "tail", "abortc"):
            if k == "load":
                out.append((t, "load %s %s %s" % (var, o, a)))
            elif k == "cas":
                out.append((t, "cas %s %s %s %s %s" % (var, o, a, b, ok)))
            else:
                out.append((t, "%s %s %s %s %s" % (k, var, o, a, b)))
            continue
        if var == "ninv":
            if k == "fadd":
                inval[t] = True
            elif k == "fsub":
                cinval[t] = True
            continue
        if var.startswith("mqt"):
            if k == "fadd":
                out.append((t, "pub %d" % (0 if inval.pop(t, False) else 1)))
            elif k != "load":
                out.append((t, "%s %s %s %s %s" % (k, var, o, a, b)))
            continue
        if var.startswith("mqh"):
            if k == "store":
                out.append((t, "con %d" % (0 if cinval.pop(t, False) else 1)))
            elif k != "load":
                out.append((t, "%s %s %s %s %s" % (k, var, o, a, b)))
            continue
        if var.startswith("sem"):
            if k == "store":
                out.append((t, "store %s %s %s" % (var, o, a)))
            elif k == "cas" and ok == "1":
                out.append((t, "P " + var))
            elif k == "xchg" and b == "0":
                out.append((t, "V " + var))
            elif k == "xchg" and a == "0":
                out.append((t, "P " + var))
            continue
        if k in ("fwait", "fwake"):
            continue
        tag = var[:2] if var[:2] in ("S.", "I.") else None
        if tag and var.endswith("mwait"):
            continue
        if tag and var.endswith("mflag"):
            if k == "xchg" and a == "0" and b == "1":
                out.append((t, "xchg %s %s 0 1" % (var, o)))
                holder[tag] = t
            elif k == "xchg" and b == "0":
                out.append((t, "xchg %s %s %s 0" % (var, o, a)))
                holder[tag] = None
            continue
        if k == "load":
            j = nextof[i]
            if (j is not None and evs[j][1] == "store" and evs[j][2] == var) or (tag and var.endswith("count") and holder[tag] == t):
                dropped += 1
                continue
            out.append((t, "load %s %s %s" % (var, o, a)))
        elif k == "store":
            out.append((t, "store %s %s %s" % (var, o, a)))
        else:
            out.append((t, "%s %s %s %s %s" % (k, var, o, a, b)))
    return out, dropped


def replay_bq(scn, runs, stats):
    """Replays every run of one scenario on the Lean BQ model (one driver call).  Returns [(run, diff-or-None, clean)]."""
    L = scn.strip().split("\n")
    cap = [l.split()[1] for l in L if l.startswith("cap")][0]
    ths = [l for l in L if l.startswith("T")]
    lines, spans = [], []
    for r in runs:
        ab, dropped = bq_abstraction(r["ev"])
        stats["dropped_loads"] += dropped
        spans.append((len(lines), ab))
        lines += ["init %s" % cap] + ths + ["s %d" % t for t, _ in ab] + ["state", "left"]
    if not lines:
        return []
    out = drv("c02bq", "\n".join(lines) + "\n")
    res = []
    for r, (start, ab) in zip(runs, spans):
        n0 = start + 1 + len(ths)
        stronger = [0]
        diff = None
        for i, (t, c) in enumerate(ab):
            if not same_access(c, out[n0 + i], stronger):
                diff = "access %d of thread %d: implementation '%s', model '%s'" % (i, t, c, out[n0 + i])
                break
        st = out[n0 + len(ab)].split(" | ")
        clean = None
        if diff is None:
            stats["stronger_orders"] += stronger[0]
            h, tl, ac, cl = st[0].split()
            clean = cl == "1"
            fin = r["fin"]
            if fin and [h, tl, ac] != fin[:3]:
                diff = "final counters: implementation head/tail/abortc %s, model %s" % (fin, st[0])
            for i in range(len(ths)):
                rr = st[1 + i].split() if 1 + i < len(st) else []
                if diff is None and rr != r["res"].get(i, []):
                    diff = "results of thread %d: implementation %s, model %s" % (i, r["res"].get(i), rr)
            if diff is None and r["mon"] == "ok" and out[n0 + len(ab) + 1] != "0":
                diff = "complete implementation run, but the model has %s unfinished threads" % out[n0 + len(ab) + 1]
        res.append((r, diff, clean))
    return res


BQ_CORPUS = [
    "cap 1\nT push push\nT pop pop",
    "cap 1\nT pop pop\nT push push",
    "cap 1\nT push push push\nT pop\nT pop pop",
    "cap 2\nT push push push\nT pop pop pop",
    "cap 1\nT push\nT push\nT pop pop",
    "cap 2\nT push push tpush\nT pop tpop pop\nT push pop",
    "cap 3\nT tpush tpush tpush tpush\nT tpop tpop\nT push pop",
    "cap 1\nT pop\nT abort push",
    "cap 1\nT pop\nT pop\nT abort",
    "cap 1\nT push push\nT abort\nT pop",
    "cap 1\nT pop pop\nT pop\nT abort abort\nT push push tpush",
    "cap 1\nT push\nT push\nT push\nT abort\nT pop pop",
]
BQ_DFS = [0, 1, 7, 4]

# state-guided schedules: (scenario, guide template, offsets): thread A runs until its node is enqueued (s1 / i1) or it
# holds its ticket (h1 / t1 / a1), then k more scheduling points — k sweeps the window prepare_wait .. predicate loads ..
# commit_wait (epoch check) .. P() — then the other thread runs to completion, then A
BQ_GUIDED = [
    ("push-sleeps|pop-notifies", "cap 1\nT push push\nT pop", "0:s1+%d,1:*,0:*", range(0, 12)),
    ("pop-sleeps|push-notifies", "cap 1\nT pop\nT push", "0:i1+%d,1:*,0:*", range(0, 12)),
    ("pop-notifies-first|push-sleeps", "cap 1\nT push push\nT pop", "0:t1+0,1:h1+%d,0:*,1:*", range(0, 10)),
    ("push-notifies-first|pop-sleeps", "cap 1\nT pop\nT push", "1:t1+%d,0:*,1:*", range(0, 8)),
    ("pop-sleeps|abort", "cap 1\nT pop\nT abort", "0:i1+%d,1:*,0:*", range(0, 12)),
    ("abort-first|pop-sleeps", "cap 1\nT pop\nT abort", "0:h1+2,1:a1+%d,0:*,1:*", range(0, 10)),
    ("push-sleeps|abort", "cap 1\nT push push\nT abort", "0:s1+%d,1:*,0:*", range(0, 12)),
    ("two-poppers|one-push-leq", "cap 2\nT pop\nT pop\nT push push", "0:i1+3,1:i2+%d,2:*,0:*,1:*", range(0, 8)),
]


def bq_random_scenario(rng):
    """2-4 threads; producers / consumers balanced in the number of blocking operations (try_* and abort sprinkled in):
    whatever the schedule, a run ends complete or with every remaining thread legitimately blocked."""
    cap = rng.choice([1, 1, 2, 3])
    nth = rng.choice([2, 3, 3, 4])
    progs = [[] for _ in range(nth)]
    n = rng.choice([2, 3, 4])
    for _ in range(n):
        progs[rng.randrange(nth)].append("push")
        progs[rng.randrange(nth)].append("pop")
    for _ in range(rng.choice([0, 0, 1, 2])):
        progs[rng.randrange(nth)].insert(rng.randrange(3), rng.choice(["tpush", "tpop"]))
    if rng.randrange(4) == 0:
        progs[rng.randrange(nth)].insert(rng.randrange(3), "abort")
    progs = [p for p in progs if p] or [["push"], ["pop"]]
    return "cap %d\n" % cap + "\n".join("T " + " ".join(p) for p in progs)


def bq_verdict_is_violation(verdict, clean):
    """`clean` = the replayed model state satisfies the hypothesis of bq_blocked_ops_complete (None: no replay).
    BLOCKED = every parked thread's condition is false: not a violation of this property.  In an unclean history (C09
    findings: abort racing a new pop, invalidated ticket) only the abort wake-up is claimed."""
    v = verdict.split(" ")[0]
    if v in ("ok", "BLOCKED"):
        return False
    if v in ("LOST-WAKEUP-ABORT", "DOUBLE-V", "UNLOCKED-WAITSET-WRITE"):
        return True
    return clean is not False


def bq_classes(r):
    """which paths of wait() the run took (coverage of the guided family)"""
    cls = set()
    last = {}
    for e in r["ev"]:
        if e[1] == "note":
            continue
        t, k, var = e[0], e[1], e[2]
        prev = last.get(t)
        if k == "fwait" and e[6] == "1":
            cls.add("parked")
        if k == "load" and var.startswith("inl") and prev:
            if prev[1] == "load" and prev[2].endswith("epoch"):
                cls.add("cancel-after-epoch-changed")
            elif prev[1] == "load" and prev[2] in ("head", "tail"):
                cls.add("cancel-predicate-true")
            elif prev[1] == "load" and prev[2] == "abortc":
                cls.add("cancel-predicate-threw")
        if k == "cas" and var.startswith("sem") and e[6] == "1" and prev and prev[1] == "load" and prev[2].endswith("epoch"):
            cls.add("V-before-P")
        last[t] = e
    return cls


def run_bq(ck, exe):
    quick = ck.tier == "quick"
    stats = {"dropped_loads": 0, "stronger_orders": 0}
    bad_corr, bad_mon = [], []
    nruns = nunclean = nblocked = 0
    nrand = 12 if quick else 40
    scs = [(scn, nrand) for scn in BQ_CORPUS] + [(bq_random_scenario(ck.rng), nrand) for _ in range(30 if quick else 200)]

    def handle(scn, runs, tag):
        nonlocal nruns, nunclean, nblocked
        for r, diff, clean in replay_bq(scn, runs, stats):
            nruns += 1
            ck.traces_validated += 1
            verdict = r["mon"] or "?"
            kinds = tuple(sorted(set((e[1], re.sub(r"\d+$", "", e[2])) for e in r["ev"] if e[1] != "note" and not e[2].startswith("mq"))))
            ck.count(1, ("bq", tag, scn.count("\nT"), kinds, tuple(tuple(v) for v in r["res"].values()), verdict.split(" ")[0]))
            if clean is False:
                nunclean += 1
            if verdict.startswith("BLOCKED"):
                nblocked += 1
            if diff:
                bad_corr.append((scn, r, diff))
            if bq_verdict_is_violation(verdict, clean if not diff else None):
                bad_mon.append((scn, r))

    for si, (scn, nr) in enumerate(scs):
        rc, out, err = sh([exe, "rand", str(ck.seed * 1000 + si), str(nr)], input=scn + "\n", timeout=600)
        runs = parse_runs(out)
        if rc not in (0, 1) or len(runs) != nr:
            bad_mon.append((scn, {"mon": "harness rc=%d runs=%d %s" % (rc, len(runs), (out + err)[-300:]), "sched": [], "ev": []}))
            continue
        handle(scn, runs, "rand")
        if si < 2:
            ck.sample({"harness": "bq", "scenario": scn, "trace_head": [" ".join(e) for e in runs[0]["ev"][:14]], "results": runs[0]["res"]})
    # state-guided schedules through the windows of every ticket-tagged wait
    guided_classes, nguided = {}, 0
    for name, scn, tmpl, offs in BQ_GUIDED:
        rs = []
        for k in offs:
            rc, out, err = sh([exe, "guided", tmpl % k, str(ck.seed)], input=scn + "\n", timeout=120)
            r1 = parse_runs(out)
            if rc not in (0, 1, 3) or len(r1) != 1:
                bad_mon.append((scn, {"mon": "harness rc=%d %s" % (rc, (out + err)[-300:]), "sched": [], "ev": [], "guide": tmpl % k}))
                continue
            r1[0]["guide"] = tmpl % k
            rs.append(r1[0])
            guided_classes.setdefault(name, set()).update(bq_classes(r1[0]))
        nguided += len(rs)
        handle(scn, rs, "guided:" + name)
    # bounded-preemption DFS of the two-thread scenarios
    dfs_runs = 0
    for ci in (BQ_DFS[:3] if quick else BQ_DFS):
        scn = BQ_CORPUS[ci]
        rc, out, err = sh([exe, "dfs", "2" if quick else "3", "6000" if quick else "80000"], input=scn + "\n", timeout=1700)
        m = re.search(r"summary runs=(\d+) bad=(\d+)", out)
        if m:
            dfs_runs += int(m.group(1))
        if rc != 0 or not m or m.group(2) != "0":
            rs = parse_runs(out)
            if rs:
                rr = replay_bq(scn, rs[-1:], stats)
                if rr and bq_verdict_is_violation(rs[-1]["mon"], rr[0][2] if not rr[0][1] else None):
                    bad_mon.append((scn, rs[-1]))
            else:
                bad_mon.append((scn, {"mon": "harness rc=%d %s" % (rc, (out + err)[-300:]), "sched": [], "ev": []}))
    ck.evaluations += dfs_runs
    want = {"push-sleeps|pop-notifies": {"parked", "cancel-after-epoch-changed", "cancel-predicate-true"},
            "pop-sleeps|push-notifies": {"parked", "cancel-after-epoch-changed", "cancel-predicate-true"},
            "pop-sleeps|abort": {"parked", "cancel-predicate-threw"},
            "push-sleeps|abort": {"parked", "cancel-predicate-threw"}}
    missing = ["%s:%s" % (n, c) for n, cs in want.items() for c in sorted(cs - guided_classes.get(n, set()))]
    ck.extra.setdefault("schedules", {})["bounded_queue"] = {
        "random_runs": nruns - nguided, "guided_runs": nguided, "dfs_runs": dfs_runs, "runs_outside_the_clean_hypothesis": nunclean,
        "runs_ending_legitimately_blocked": nblocked, "tolerated_loads_under_lock": stats["dropped_loads"],
        "guided_paths_taken": {k: sorted(v) for k, v in guided_classes.items()}}
    ck.oblige("monitor:coverage — the state-guided schedules drive every ticket-tagged wait (push on slots_avail, pop on items_avail, both "
              "against notify and against abort) through: notifier finished before the predicate loads (cancel), between the predicate "
              "and commit_wait (epoch changed), and after the thread parked (futex wait + V)", "correspondence",
              not missing or bool(bad_mon), "paths never taken: %s" % missing)
    ck.oblige("corr:concurrent_bounded_queue blocking push/pop/try_*/abort access trace (tickets, both monitors, predicate loads, abort paths, "
              "results, final counters) replays on the Lean BQ model", "correspondence", not bad_corr,
              "" if not bad_corr else "%s | scenario %s | %s" % (bad_corr[0][2], bad_corr[0][0].replace("\n", " / "),
                                                                 ("guide " + bad_corr[0][1]["guide"]) if bad_corr[0][1].get("guide") else "sched " + " ".join(bad_corr[0][1]["sched"])[:500]))
    ck.oblige("monitor:concurrent_bounded_queue — no thread sleeps in push/pop while its slot is within capacity / its item's ticket is taken "
              "(clean histories), none after abort() changed the counter (all histories); no double V, wait sets written under their mutex "
              "(random + state-guided + bounded-preemption DFS)", "correspondence", not bad_mon,
              "" if not bad_mon else "%s | scenario %s" % (bad_mon[0][1]["mon"], bad_mon[0][0].replace("\n", " / ")))
    for scn, r in bad_mon[:1]:
        verdict = r["mon"] or "?"
        key = "bq:%s:%s" % (verdict.split(" ")[0], " / ".join(l for l in scn.split("\n")))
        ck.counterexample(key, "bounded queue: %s | scenario %s | schedule of %d steps" % (verdict, scn.replace("\n", " / "), len(r["sched"])),
                          {"engine": "E-SHIM", "harness": "bq", "scenario": scn, "schedule": r["sched"], "guide": r.get("guide"), "monitor": verdict,
                           "trace": [" ".join(e) for e in r.get("ev", [])][:300]})
    if not bad_mon:
        for scn, r, diff in bad_corr[:1]:
            ck.counterexample("bq:model-divergence:%s" % " / ".join(scn.split("\n")),
                              "bounded queue: the implementation's access trace leaves the Lean BQ model: %s | scenario %s" % (diff, scn.replace("\n", " / ")),
                              {"engine": "E-SHIM", "harness": "bq", "scenario": scn, "schedule": r["sched"], "guide": r.get("guide"),
                               "monitor": "MODEL-DIVERGENCE " + diff, "trace": [" ".join(e) for e in r.get("ev", [])][:300]})
    return bad_corr, bad_mon


# ----------------------------------------------------------------------------------------------------------------
# arena::enqueue_task demand bookkeeping (harness/c02/ae.cpp, Lean model AE)
# ----------------------------------------------------------------------------------------------------------------

def build_ae():
    objs = common.shim_runtime_objects()
    return cxx_build("C02", "ae", ["harness/c02/ae.cpp", common.SHIM_SRC],
                     flags=["-O1", "-g", "-fno-access-control", "-D__TBB_BUILD", "-I" + REPO + "/src"] + common.SHIM_FLAGS,
                     libs=objs + ["-ldl"])


def s32(x):
    v = int(x) & 0xffffffff
    return v - (1 << 32) if v & 0x80000000 else v


def ae_abstraction(evs):
    """phase-1 events of ae.cpp -> [(tid, canonical access)] at the granularity of the Lean `AE` model.  The `busy` value
    of a clear transaction (address of a local) is renamed 2 + tid of the clearing thread."""
    busy, out = {}, []
    st = {}          # per thread: op kind, pushed?, fenced?, locked market?, fadd seen?
    for e in evs:
        t, k, var = int(e[0]), e[1], e[2]
        if k == "note":
            if var == "op_begin":
                st[t] = {"op": e[3], "fenced": False, "pushed": False, "locked": False, "fadd": False}
                out.append((t, "begin"))
            elif var == "op_end":
                st.pop(t, None)
            continue
        if t not in st:
            continue
        q = st[t]
        o, a, b, ok = e[3], e[4], e[5], e[6]
        if k == "fence":
            if q["op"] == "0" and q["pushed"] and not q["fenced"]:
                q["fenced"] = True
                out.append((t, "fence"))
            continue
        if var == "fifo":
            if k in ("for", "fadd", "xchg", "store") and q["op"] == "0":
                q["pushed"] = True
                out.append((t, "push fifo"))
            elif k == "load" and q["op"] == "1":
                out.append((t, "pred %s %d" % (q.get("inflag", "?"), 0 if a == "0" else 1)))
            continue
        if var in ("mand", "pool"):
            def cv(x):
                return busy.get(x, x)
            if k == "load":
                out.append((t, "load %s %s - 1" % (var, cv(a))))
            elif k == "cas":
                if a == "1" and ok == "1" and b not in ("0", "1"):
                    busy[b] = str(2 + t)
                if ok == "1" and cv(b) == str(2 + t):
                    q["inflag"] = var
                out.append((t, "cas %s %s %s %s" % (var, cv(a), cv(b), ok)))
            else:
                out.append((t, "%s %s %s %s" % (k, var, a, b)))
            continue
        if var == "nummand":
            if k == "fadd":
                q["fadd"] = True
                out.append((t, "fadd nummand %d %d" % (s32(a), s32(b))))
            elif k == "load" and q["fadd"]:
                out.append((t, "wlock proxy"))
            elif k != "load":
                out.append((t, "%s nummand %s %s" % (k, a, b)))
            continue
        if var == "mkt":
            if k != "load" and ok == "1" and not q["locked"] and int(b) != 0 and int(a) != int(b):
                q["locked"] = True
                out.append((t, "lock market"))
            continue
        if var == "wtm":
            if k == "load" and q["locked"] and not q.get("notified"):
                q["notified"] = True
                out.append((t, "notify"))
            continue
    return out


def replay_ae(scn, runs):
    L = scn.strip().split("\n")
    P = int([l.split()[1] for l in L if l.startswith("P")][0])
    conc, res = [int(x) for x in [l.split()[1:] for l in L if l.startswith("A")][0]]
    ths = [l for l in L if l.startswith("T")]
    lines, spans = [], []
    for r in runs:
        ab = ae_abstraction(r["ev"])
        spans.append((len(lines), ab))
        lines += ["init %d %d" % (conc - res, P - 1)] + ths + ["s %d" % t for t, _ in ab] + ["state", "left"]
    if not lines:
        return []
    out = drv("c02ae", "\n".join(lines) + "\n")
    res_ = []
    for r, (start, ab) in zip(runs, spans):
        n0 = start + 1 + len(ths)
        diff = None
        for i, (t, c) in enumerate(ab):
            m = out[n0 + i]
            if c == "begin":
                if not m.startswith("begin"):
                    diff = "access %d of thread %d: implementation starts an operation, model '%s'" % (i, t, m)
                    break
            elif c != m:
                diff = "access %d of thread %d: implementation '%s', model '%s'" % (i, t, c, m)
                break
        if diff is None:
            st = out[n0 + len(ab)].split()
            # model: fm.flag fm.work fp.flag fp.work mandReq totalReq minW maxW numMand enabled soft wakeups
            mdl = [st[0], st[2], "0" if st[1] == "0" else "1", st[4], st[5], st[6], st[7], st[8], st[9], st[10]]
            if r["fin"] and mdl != r["fin"]:
                diff = ("quiescent state after phase 1 (mandatory flag, pool flag, stream non-empty, my_mandatory_requests, "
                        "my_total_num_workers_requested, min_workers, max_workers, num_mandatory, enabled, soft limit): implementation %s, model %s"
                        % (" ".join(r["fin"]), " ".join(mdl)))
            elif out[n0 + len(ab) + 1] != "0":
                diff = "phase 1 complete on the implementation, but the model has %s unfinished threads" % out[n0 + len(ab) + 1]
        res_.append((r, diff))
    return res_


AE_CORPUS = [
    "P 1\nA 2 1\nT enq\nT oow",
    "P 1\nA 2 1\nT enq enq\nT oow oow",
    "P 1\nA 1 1\nT enq\nT oow",                   # worker-less arena: workers_delta = 1
    "P 2\nA 2 1\nT enq\nT oow\nT enq",
    "P 1\nA 3 1\nT oow enq\nT enq oow\nT oow",
    "P 1\nA 2 1\nT enq\nT enq\nT oow oow",
    "P 4\nA 4 1\nT enq oow\nT oow enq",
]


def ae_random_scenario(rng):
    P = rng.choice([1, 1, 2, 4])
    conc, res = rng.choice([(2, 1), (2, 1), (1, 1), (3, 1), (4, 2), (2, 0)])
    nth = rng.choice([2, 3, 3])
    progs = [[rng.choice(["enq", "oow"]) for _ in range(rng.choice([1, 2, 2]))] for _ in range(nth)]
    if not any("enq" in p for p in progs):
        progs[0][0] = "enq"
    return "P %d\nA %d %d\n" % (P, conc, res) + "\n".join("T " + " ".join(p) for p in progs)


def ae_property(fin):
    """arena_enqueue_mandatory read on the REAL quiescent state after phase 1 (nobody inside any operation)"""
    fm, fp, ne, mr, tr, mn, mx, nm, en, soft = [int(x) for x in fin]
    if not ne:
        return None
    bad = []
    if fm != 1:
        bad.append("my_mandatory_concurrency not SET")
    if fp != 1:
        bad.append("my_pool_state not SET")
    if mr < 1:
        bad.append("my_mandatory_requests=%d" % mr)
    if tr < 1:
        bad.append("my_total_num_workers_requested=%d" % tr)
    if mn != 1 or mx < 1:
        bad.append("min/max workers %d/%d" % (mn, mx))
    if nm < 1:
        bad.append("my_num_mandatory_requests=%d" % nm)
    if soft < 1:
        bad.append("soft limit %d (mandatory concurrency enabled=%d)" % (soft, en))
    return "; ".join(bad) or None


def run_ae(ck, exe):
    quick = ck.tier == "quick"
    nr = 8 if quick else 40
    scs = AE_CORPUS + [ae_random_scenario(ck.rng) for _ in range(14 if quick else 120)]
    bad_corr, bad_mon = [], []
    nruns = nnonempty = 0
    for si, scn in enumerate(scs):
        rc, out, err = sh([exe, "rand", str(ck.seed * 1000 + si), str(nr)], input=scn + "\n", timeout=900)
        runs = parse_runs(out)
        if rc not in (0, 1) or len(runs) != nr:
            bad_mon.append((scn, {"mon": "harness rc=%d runs=%d %s" % (rc, len(runs), (out + err)[-300:]), "sched": []}))
            continue
        for r, diff in replay_ae(scn, runs):
            nruns += 1
            ck.traces_validated += 1
            ck.count(1, ("ae", scn.split("\n")[0], scn.split("\n")[1], scn.count("\nT"), tuple(r["fin"])))
            if diff:
                bad_corr.append((scn, r, diff))
            if r["mon"] != "ok":
                bad_mon.append((scn, r))
                continue
            if r["fin"] and r["fin"][2] == "1":
                nnonempty += 1
            v = ae_property(r["fin"]) if r["fin"] else None
            if v:
                r2 = dict(r)
                r2["mon"] = "DEMAND-LOST after phase 1 (every operation returned, tasks in the stream): " + v
                bad_mon.append((scn, r2))
        if si < 1 and runs:
            ck.sample({"harness": "ae", "scenario": scn, "trace": [" ".join(e) for e in runs[0]["ev"][:30]], "fin": runs[0]["fin"]})
    ck.extra.setdefault("schedules", {})["arena_enqueue"] = {"phase1_runs": nruns, "runs_ending_with_tasks_in_the_stream": nnonempty}
    ck.oblige("corr:arena::enqueue_task / out_of_work access trace (stream population, both flags incl. busy transactions, proxy counter, "
              "enable check, market critical section, notification) and the quiescent demand state replay on the Lean AE model",
              "correspondence", not bad_corr,
              "" if not bad_corr else "%s | scenario %s | sched %s" % (bad_corr[0][2], bad_corr[0][0].replace("\n", " / "), " ".join(bad_corr[0][1]["sched"])[:400]))
    ck.oblige("monitor:arena enqueue — after any interleaving of enqueues and out_of_work calls, with tasks left in the fifo stream: both flags "
              "SET, my_mandatory_requests >= 1, workers requested >= 1, min_workers = 1, soft limit >= 1; and the enqueued tasks do run afterwards",
              "correspondence", not bad_mon, "" if not bad_mon else "%s | scenario %s" % (bad_mon[0][1]["mon"], bad_mon[0][0].replace("\n", " / ")))
    for scn, r in bad_mon[:1]:
        verdict = r["mon"]
        ck.counterexample("ae:%s:%s" % (verdict.split(" ")[0], " / ".join(scn.split("\n"))),
                          "arena enqueue demand: %s | scenario %s | schedule of %d steps" % (verdict, scn.replace("\n", " / "), len(r["sched"])),
                          {"engine": "E-SHIM", "harness": "ae", "scenario": scn, "schedule": r["sched"], "monitor": verdict,
                           "trace": [" ".join(e) for e in r.get("ev", [])][:200]})
    if not bad_mon:
        for scn, r, diff in bad_corr[:1]:
            ck.counterexample("ae:model-divergence:%s" % " / ".join(scn.split("\n")),
                              "arena enqueue: the implementation's access trace / quiescent state leaves the Lean AE model: %s | scenario %s" % (diff, scn.replace("\n", " / ")),
                              {"engine": "E-SHIM", "harness": "ae", "scenario": scn, "schedule": r["sched"], "monitor": "MODEL-DIVERGENCE " + diff,
                               "trace": [" ".join(e) for e in r.get("ev", [])][:200]})
    return bad_corr, bad_mon


# ----------------------------------------------------------------------------------------------------------------
# task_arena::execute waiting for a slot (harness/c02/ex.cpp, Lean model EX)
# ----------------------------------------------------------------------------------------------------------------

EX_FINDING = "execute-wakeup-absorbed-by-entering-waiter"


def build_ex():
    objs = common.shim_runtime_objects()
    return cxx_build("C02", "ex", ["harness/c02/ex.cpp", common.SHIM_SRC],
                     flags=["-O1", "-g", "-fno-access-control", "-D__TBB_BUILD", "-I" + REPO + "/src"] + common.SHIM_FLAGS,
                     libs=objs + ["-ldl"])


def ex_abstraction(evs, N):
    """implementation trace -> [(driver command, expected model event)]"""
    out = []
    st = {t: {"phase": "idle", "got": False, "waited": False, "inner_done": False, "pend0": None} for t in range(N)}
    fin = {}            # physical thread -> [caller w, stage]   stage: pre / locked / post
    holder = None
    dropped = 0
    # next event index of the same thread (named events only)
    nxt, nextof = {}, [None] * len(evs)
    for i in range(len(evs) - 1, -1, -1):
        if evs[i][1] == "note":
            continue
        if evs[i][2] == "mwait":
            continue
        nextof[i] = nxt.get(evs[i][0])
        nxt[evs[i][0]] = i
    for i, e in enumerate(evs):
        t, k, var = int(e[0]), e[1], e[2]
        o, a, b, ok = (e[3:7] + ["", "", "", ""])[:4]
        if k == "note":
            if var == "call_begin":
                st[t] = {"phase": "scan1", "got": False, "waited": False, "inner_done": False, "pend0": None}
            elif var == "call_end":
                if st[t]["waited"]:
                    out.append(("s %d" % t, "ret"))
                st[t]["phase"] = "idle"
            continue
        if k in ("fwait", "fwake") or var == "mwait":
            continue
        # ---- whose role?
        tid = t
        if t in fin:
            w, stage = fin[t]
            if stage == "post" and not (var.startswith("sem") and k == "xchg" and b == "0"):
                del fin[t]
            else:
                tid = N + w
        S = st.get(t)
        if k == "fence":
            j = nextof[i]
            keep = j is not None and ((evs[j][1] == "load" and evs[j][2] == "count") or (evs[j][1] == "load" and evs[j][2] == "wo%d" % t))
            if keep:
                out.append(("s %d" % tid, "fence - %s" % o))
            else:
                dropped += 1
            continue
        if var == "fifo":
            if k == "for" and S and S["phase"] == "scan1":
                out.append(("s %d" % t, "enq"))
                S["phase"] = "wait"
                S["waited"] = True
            continue
        if var.startswith("slot"):
            kk = int(var[4:])
            if k == "load":
                if a != "0":
                    out.append(("s %d %d" % (t, kk), "tas %s 1" % var))
                else:
                    dropped += 1
            elif k == "xchg":
                out.append(("s %d %d" % (t, kk), "tas %s %s" % (var, a)))
                if a == "0" and S and S["phase"] == "wait":
                    S["got"] = True
            elif k == "store":
                out.append(("s %d" % t, "store %s %s %s" % (var, o, a)))
                if S:
                    S["got"] = False
            continue
        if var.startswith("wo"):
            w = int(var[2:])
            if k == "fadd":
                out.append(("s %d" % (N + w), "fadd %s %s %s %s" % (var, o, a, b)))
                fin[t] = [w, "pre"]
            elif k == "load":
                if S and S["got"] and w == t:
                    if a == "0" and not S["inner_done"]:
                        out.append(("s %d" % t, "load %s %s 0" % (var, o)))
                        S["inner_done"] = True
                    else:
                        dropped += 1
                else:
                    out.append(("s %d" % t, "load %s %s %s" % (var, o, a)))
            continue
        if var.startswith("sem"):
            if k == "store":
                out.append(("s %d" % tid, "store %s %s %s" % (var, o, a)))
            elif k == "cas" and ok == "1":
                out.append(("s %d" % tid, "P " + var))
            elif k == "xchg" and b == "0":
                out.append(("s %d" % tid, "V " + var))
            elif k == "xchg" and a == "0":
                out.append(("s %d" % tid, "P " + var))
            continue
        if var == "mflag":
            if k == "xchg" and a == "0" and b == "1":
                out.append(("s %d" % tid, "xchg mflag %s 0 1" % o))
                holder = t
                if t in fin:
                    fin[t][1] = "locked"
            elif k == "xchg" and b == "0":
                out.append(("s %d" % tid, "xchg mflag %s %s 0" % (o, a)))
                holder = None
                if t in fin:
                    fin[t][1] = "post"
            continue
        if k == "load":
            j = nextof[i]
            if (j is not None and evs[j][1] == "store" and evs[j][2] == var) or (var == "count" and holder == t):
                dropped += 1
                continue
            out.append(("s %d" % tid, "load %s %s %s" % (var, o, a)))
            if var == "count" and holder != t and a == "0" and t in fin:
                del fin[t]
        elif k == "store":
            out.append(("s %d" % tid, "store %s %s %s" % (var, o, a)))
        else:
            out.append(("s %d" % tid, "%s %s %s %s %s" % (k, var, o, a, b)))
    return out, dropped


def replay_ex(scn, runs):
    ths = [l.split()[1] for l in scn.strip().split("\n") if l.startswith("T")]
    N = len(ths)
    lines, spans = [], []
    for r in runs:
        S = r["fin"][0] if r["fin"] else "2"
        ab, dropped = ex_abstraction(r["ev"], N)
        spans.append((len(lines), ab))
        lines += ["init %s %s" % (S, " ".join(ths))] + [c for c, _ in ab] + ["state", "left"]
    if not lines:
        return []
    out = drv("c02ex", "\n".join(lines) + "\n")
    res = []
    for r, (start, ab) in zip(runs, spans):
        n0 = start + 1
        stronger = [0]
        diff = None
        for i, (c, exp) in enumerate(ab):
            if not same_access(exp, out[n0 + i], stronger):
                diff = "access %d (%s): implementation '%s', model '%s'" % (i, c, exp, out[n0 + i])
                break
        absorbed = None
        if diff is None:
            st = out[n0 + len(ab)].split(" | ")
            absorbed = st[1].split()[2] == "1"
            if r["mon"] == "ok" and out[n0 + len(ab) + 1] != "0":
                diff = "complete implementation run, but the model has %s unfinished threads (%s)" % (out[n0 + len(ab) + 1], out[n0 + len(ab)])
        res.append((r, diff, absorbed))
    return res


def ex_classes(r, w):
    """which way thread w left a round of the wait loop (coverage of the guided family)"""
    cls = set()
    ws = str(w)
    enq, ep = False, None
    for e in r["ev"]:
        if e[0] != ws or e[1] == "note":
            continue
        k, var = e[1], e[2]
        if k == "store" and var == "inl%s" % ws and e[4] == "1":
            enq, ep = False, None                      # a new prepare_wait
        if k == "load" and var == "epoch":
            if not enq:
                ep = e[4]
            elif ep is not None and e[4] != ep:
                cls.add("commit-failed-epoch-changed")
        if k == "store" and var == "count" and ep is not None:
            enq = True
        if enq and k == "xchg" and var.startswith("slot") and e[4] == "0":
            cls.add("took-slot-in-loop")
            enq = False
        if k == "fwait" and e[6] == "1":
            cls.add("parked")
            enq = False
        if k == "cas" and var.startswith("sem") and e[6] == "1" and enq:
            cls.add("V-before-P")
            enq = False
        if k == "load" and var.startswith("inl"):
            enq = False
    return cls


EX_CORPUS = ["A 2\nT 1\nT 1\nT 1", "A 2\nT 1\nT 1\nT 1\nT 1", "A 2\nT 2\nT 1\nT 2", "A 3\nT 1\nT 1\nT 1\nT 1\nT 1",
             "A 2\nT 2\nT 2\nT 2\nT 1"]
# state-guided schedules: threads 0 and 1 occupy the two slots; the waiter (thread 2) runs until its node is enqueued in the
# exit monitor and k more scheduling points (the fence, wo.continue_execution(), the two try_occupy, commit_wait's epoch
# load, the semaphore); then thread 1 leaves (release + notify_one): the release falls before / inside / after the
# waiter's re-check, before commit_wait, after it parked
EX_GUIDED = ("A 2\nT 1\nT 1\nT 1", "0:B,1:B,2:w1+%d,1:*,2:*", range(0, 14), 2)
# the demonstration of the known finding: X (thread 2) occupies slot 1 inside its wait loop and is still enqueued when W
# (thread 3) parks behind it; thread 0's notify_one dequeues X
EX_ABSORB = ("A 2\nT 1\nT 1\nT 1\nT 1", "0:B,1:B,2:q,1:*,2:o1,3:*,0:e1+40,2:B")


# arenas with worker slots (task_arena(S, R), R < S) entered by S+1 application threads while no worker can come (monitor-only: at most one
# waiter, so the known absorbed-wake-up pattern cannot occur): the thread in a reserved / in a worker slot leaves before, inside and after the
# waiter's re-check; the waiter must be woken by that very release
EXW_GUIDED = [("A 2 1\nT 1\nT 1\nT 1", "0:B,1:B,2:w1+%d,1:*,2:*"), ("A 2 1\nT 1\nT 1\nT 1", "0:B,1:B,2:w1+%d,0:*,2:*"),
              ("A 3 1\nT 1\nT 1\nT 1\nT 1", "0:B,1:B,2:B,3:w1+%d,2:*,3:*"), ("A 3 1\nT 1\nT 1\nT 1\nT 1", "0:B,1:B,2:B,3:w1+%d,1:*,3:*"),
              ("A 3 2\nT 1\nT 1\nT 1\nT 1", "0:B,1:B,2:B,3:w1+%d,2:*,3:*"), ("A 3 2\nT 1\nT 1\nT 1\nT 1", "0:B,1:B,2:B,3:w1+%d,1:*,3:*")]
EXW_OFFSETS = list(range(0, 14)) + [20, 40]


def run_exw(ck, exe):
    quick = ck.tier == "quick"
    bad, nruns, parked = [], 0, 0
    for scn, tmpl in EXW_GUIDED:
        jobs = [("guided", tmpl % k, str(ck.seed + 1)) for k in EXW_OFFSETS] + [("rand", str(ck.seed * 100 + 7), str(6 if quick else 60))]
        for mode, a2, a3 in jobs:
            rc, out, err = sh([exe, mode, a2, a3], input=scn + "\n", timeout=600)
            runs = parse_runs(out)
            if rc not in (0, 1) or not runs:
                bad.append((scn, {"mon": "harness rc=%d %s" % (rc, (out + err)[-300:]), "sched": [], "ev": [], "guide": a2 if mode == "guided" else None}))
                continue
            for r in runs:
                nruns += 1
                ck.traces_validated += 1
                verdict = r["mon"] or "?"
                w = scn.count("\nT") - 1
                cls = tuple(sorted(ex_classes(r, w)))
                parked += 1 if "parked" in cls else 0
                ck.count(1, ("exw", scn, mode, verdict.split(" ")[0], cls))
                if verdict != "ok":
                    if mode == "guided":
                        r["guide"], r["guide_seed"] = a2, int(a3)
                    bad.append((scn, r))
        if len(bad) >= 3:
            break
    ck.extra.setdefault("schedules", {})["task_arena_execute_worker_slots"] = {"runs": nruns, "runs_in_which_the_waiter_parked": parked}
    ck.oblige("monitor:task_arena::execute on arenas with worker slots entered by more application threads than slots while no worker can come — "
              "a thread waiting for a slot is woken by the release of a reserved slot and of a worker slot alike (no thread sleeps in the exit monitor "
              "while a slot is free and nobody is on the way to notify_one; no run ends with every thread parked)", "correspondence", not bad,
              "" if not bad else "%s | scenario %s" % (bad[0][1]["mon"], bad[0][0].replace("\n", " / ")))
    for scn, r in bad[:1]:
        verdict = r["mon"] or "?"
        ck.counterexample("exw:%s:%s" % (verdict.split(" ")[0], " / ".join(scn.split("\n"))),
                          "task_arena::execute (arena with worker slots, no worker available): %s | scenario %s" % (verdict, scn.replace("\n", " / ")),
                          {"engine": "E-SHIM", "harness": "ex", "scenario": scn, "schedule": r["sched"], "guide": r.get("guide"),
                           "guide_seed": r.get("guide_seed"), "monitor": verdict, "trace": [" ".join(e) for e in r.get("ev", [])][:300]})


def ex_random_scenario(rng):
    n = rng.choice([3, 4, 4, 5])
    return "A %d\n" % rng.choice([2, 2, 3]) + "\n".join("T %d" % rng.choice([1, 1, 2]) for _ in range(n))


def run_ex(ck, exe):
    quick = ck.tier == "quick"
    nr = 10 if quick else 40
    scs = EX_CORPUS + [ex_random_scenario(ck.rng) for _ in range(10 if quick else 100)]
    bad_corr, bad_mon, known = [], [], []
    nruns = nabs = 0

    def handle(scn, runs, tag):
        nonlocal nruns, nabs
        for r, diff, absorbed in replay_ex(scn, runs):
            nruns += 1
            ck.traces_validated += 1
            verdict = r["mon"] or "?"
            ck.count(1, ("ex", tag, scn, verdict.split(" ")[0], absorbed, tuple(sorted(ex_classes(r, scn.count("\nT") - 1)))))
            if absorbed:
                nabs += 1
            if diff:
                bad_corr.append((scn, r, diff))
            if verdict != "ok":
                if verdict.startswith("SLEEPS-WHILE-SLOT-FREE") and absorbed and not diff:
                    known.append((scn, r))          # outside the theorems' reach: the known finding
                else:
                    bad_mon.append((scn, r))

    for si, scn in enumerate(scs):
        rc, out, err = sh([exe, "rand", str(ck.seed * 1000 + si), str(nr)], input=scn + "\n", timeout=900)
        runs = parse_runs(out)
        if rc not in (0, 1) or len(runs) != nr:
            bad_mon.append((scn, {"mon": "harness rc=%d runs=%d %s" % (rc, len(runs), (out + err)[-300:]), "sched": [], "ev": []}))
            continue
        handle(scn, runs, "rand")
        if si < 1 and runs:
            ck.sample({"harness": "ex", "scenario": scn, "trace_head": [" ".join(e) for e in runs[0]["ev"][:24]]})
    # the window between the re-check and commit_wait
    gscn, tmpl, offs, w = EX_GUIDED
    classes = set()
    nguided = 0
    for k in offs:
        rc, out, err = sh([exe, "guided", tmpl % k, str(ck.seed)], input=gscn + "\n", timeout=300)
        r1 = parse_runs(out)
        if rc not in (0, 1) or len(r1) != 1:
            bad_mon.append((gscn, {"mon": "harness rc=%d %s" % (rc, (out + err)[-300:]), "sched": [], "ev": [], "guide": tmpl % k}))
            continue
        r1[0]["guide"] = tmpl % k
        classes |= ex_classes(r1[0], w)
        nguided += 1
        handle(gscn, r1, "guided")
    want = {"took-slot-in-loop", "commit-failed-epoch-changed", "parked"}
    # the known finding, demonstrated under a fixed state-guided schedule
    ascn, aguide = EX_ABSORB
    demo = None
    for sd in range(1, 9):
        rc, out, err = sh([exe, "guided", aguide, str(sd)], input=ascn + "\n", timeout=300)
        r1 = parse_runs(out)
        if rc not in (0, 1) or len(r1) != 1:
            bad_mon.append((ascn, {"mon": "harness rc=%d %s" % (rc, (out + err)[-300:]), "sched": [], "ev": [], "guide": aguide}))
            continue
        r1[0]["guide"], r1[0]["guide_seed"] = aguide, sd
        nb = len(known)
        handle(ascn, r1, "absorb")
        if len(known) > nb and demo is None:
            demo = known[-1]
    ck.extra.setdefault("schedules", {})["task_arena_execute"] = {
        "random_runs": nruns - nguided, "guided_runs": nguided, "runs_with_an_absorbed_wake_up": nabs,
        "guided_paths_taken": sorted(classes), "sleeps_while_slot_free_in_absorbed_runs": len(known)}
    ck.oblige("monitor:coverage — the state-guided schedules release a slot before, inside and after the waiter's re-check "
              "(occupy_free_slot between prepare_wait and commit_wait): the waiter takes the slot in the loop, fails commit_wait "
              "on the changed epoch, parks and is woken", "correspondence", want <= classes or bool(bad_mon),
              "paths never taken: %s" % sorted(want - classes))
    ck.oblige("corr:task_arena::execute access trace (try_occupy per slot, enqueue of the delegated task, prepare/commit/cancel_wait on the exit "
              "monitor, wait_context loads, finalize: release + notify(ctx), slot release + notify_one, baton, node destructor) replays on the "
              "Lean EX model", "correspondence", not bad_corr,
              "" if not bad_corr else "%s | scenario %s | %s" % (bad_corr[0][2], bad_corr[0][0].replace("\n", " / "),
                                                                 ("guide " + bad_corr[0][1]["guide"]) if bad_corr[0][1].get("guide") else "sched " + " ".join(bad_corr[0][1]["sched"])[:400]))
    ck.oblige("monitor:task_arena::execute — no run ends with every thread parked, no double V, wait set written under its mutex; and in runs "
              "in which no notify_one dequeued a waiter that had already occupied a slot: no thread sleeps in the exit monitor while a slot is "
              "free and nobody is on the way to notify_one", "correspondence", not bad_mon,
              "" if not bad_mon else "%s | scenario %s" % (bad_mon[0][1]["mon"], bad_mon[0][0].replace("\n", " / ")))
    ck.oblige("monitor:task_arena::execute — a thread waiting for a slot is woken once a slot is free (every history)", "correspondence",
              not known, "" if not known else "%s | scenario %s" % (known[0][1]["mon"], known[0][0].replace("\n", " / ")),
              cex_keys=[EX_FINDING] if known else None)
    if known:
        scn, r = demo or known[0]
        ck.counterexample(EX_FINDING, "task_arena::execute: %s | scenario %s | %s" % (
                              r["mon"], scn.replace("\n", " / "), ("guide " + r["guide"]) if r.get("guide") else "schedule of %d steps" % len(r["sched"])),
                          {"engine": "E-SHIM", "harness": "ex", "scenario": scn, "schedule": r["sched"], "guide": r.get("guide"),
                           "guide_seed": r.get("guide_seed"), "monitor": r["mon"]})
    for scn, r in bad_mon[:1]:
        verdict = r["mon"] or "?"
        ck.counterexample("ex:%s:%s" % (verdict.split(" ")[0], " / ".join(scn.split("\n"))),
                          "task_arena::execute: %s | scenario %s" % (verdict, scn.replace("\n", " / ")),
                          {"engine": "E-SHIM", "harness": "ex", "scenario": scn, "schedule": r["sched"], "guide": r.get("guide"),
                           "guide_seed": r.get("guide_seed"), "monitor": verdict, "trace": [" ".join(e) for e in r.get("ev", [])][:300]})
    if not bad_mon:
        for scn, r, diff in bad_corr[:1]:
            ck.counterexample("ex:model-divergence:%s" % " / ".join(scn.split("\n")),
                              "task_arena::execute: the implementation's access trace leaves the Lean EX model: %s | scenario %s" % (diff, scn.replace("\n", " / ")),
                              {"engine": "E-SHIM", "harness": "ex", "scenario": scn, "schedule": r["sched"], "guide": r.get("guide"),
                               "guide_seed": r.get("guide_seed"), "monitor": "MODEL-DIVERGENCE " + diff,
                               "trace": [" ".join(e) for e in r.get("ev", [])][:300]})
    return bad_corr, bad_mon



def tso_explore(flags):
    out = drv("c02tso", "explore " + " ".join("1" if f else "0" for f in flags) + "\n")
    return out[0] if out else "none"


def search_fences(ck, obs, site_dirty, dirty_detail, site_rmw=0):
    """A fence obligation broke (a removed fence cannot be exhibited on x86 by scheduling alone): run the executable
    TSO explorer of the Lean model with the observed Orders; the replay is the model-level schedule."""
    o = dict(obs)
    if site_dirty:
        # a notify call site tests the waitset after a plain store without a fence: that site is the model's notifier
        # with its fence removed
        o["notifyFence"], o["chgRmw"] = False, False
    elif site_rmw:
        # a notify call site relies on a preceding seq_cst RMW instead of a fence
        o["notifyFence"], o["chgRmw"] = False, True
    found = False
    for name, rf in (("x86-TSO (seq_cst RMWs drain the store buffer)", True),
                     ("portable reading (a seq_cst RMW is not a fence: C++ abstract machine / ARMv8)", False)):
        if fences_ok(o, rf):
            continue
        flags = [o["prepFence"], o["unlockRmw"], o["notifyFence"], o["chgRmw"], rf]
        res = tso_explore(flags)
        if res.startswith("lost"):
            sched = res.split("|")[0].split()[1:]
            which = "+".join(w for w, missing in (("sleeper-fence(prepare_wait)", not (o["prepFence"] or (o["unlockRmw"] and rf))),
                                                   ("notifier-fence(notify)", not (o["notifyFence"] or (o["chgRmw"] and rf)))) if missing)
            ck.counterexample("tso:%s:%s" % (which, "x86" if rf else "portable"),
                              "MODEL-LEVEL schedule (store-buffer semantics of the Lean model instantiated with the memory orders observed "
                              "in the current tree; not reproducible on the implementation by scheduling alone): lost wake-up under %s with "
                              "missing %s%s; actions 0=sleeper 1=notifier 2=flush sleeper 3=flush notifier: %s"
                              % (name, which, (" at call site " + dirty_detail) if (site_dirty or site_rmw) else "", " ".join(sched)),
                              {"engine": "TSO-model", "orders": flags, "schedule": sched, "site": dirty_detail, "broken": "fences_ok_observed"})
            found = True
            break
    return found


def run(ck):
    ck.rule = ("E-SHIM: hand-written + seeded random scenarios (1-3 sleepers x 1-2 notifiers x contexts/conditions, commit / cancel / abort / "
               "spurious notify paths, all 10 notify entry points incl. notify_one_relaxed(pred); 55 arrival-order shapes: >= 2 nodes of different "
               "contexts, gated arrival order, first match older / newer / oldest / middle / newest; "
               "publishers x cleaners x consumers for the arena flag; waiters x releasers for wait_context), each under "
               "seeded random schedules with access-by-access replay on the Lean models, plus bounded-preemption DFS of the small scenarios; "
               "whole instrumented runtime scenarios under seeded random schedules (incl. 22 bucket-collision shapes: mutex/rw_mutex types x arrival "
               "order x which waiter's mutex is unlocked first, and 36 two-arena shapes: creation order x priorities x owner waits/busy); "
               "concurrent_bounded_queue (12 hand-written + seeded random programs of push/pop/try_*/abort, capacities 1-3; random + DFS + 84 "
               "state-guided schedules), arena enqueue bookkeeping (enqueue / out_of_work programs x soft limit x arena shape, phase-1 "
               "schedules), task_arena::execute (2-3 slots x 3-5 threads x 1-2 calls; random + 14 state-guided window offsets + the "
               "fixed demonstration schedule of the known finding); "
               "distinct = (harness, #threads, access kinds seen, results) classes")
    ck.assumptions += [
        "proved on the models (all schedules): Monitor N x M at atomic-access granularity under sequential consistency; BinSem 1 owner x K "
        "posters; Flag P publishers x C cleaners x T consumers; Tso = the 1 sleeper x 1 notifier monitor instance with per-thread FIFO store "
        "buffers at lock-region granularity (stores of a region enter the buffer individually, lock acquisitions and semaphore operations drain)",
        "the monitor's own mutex (concurrent_monitor_mutex: exchange / futex) is an abstract lock in the model; its sleep path is exercised only by "
        "the implementation-side deadlock monitor",
        "tbb::mutex, tbb::rw_mutex, suspended tasks and worker acquisition from the OS: covered by the monitor theorem only in so far as they "
        "use concurrent_monitor::wait/notify with a matching predicate; otherwise by the sampled end-to-end deadlock monitor, not by theorems",
        "concurrent_bounded_queue (BQ): the micro-queue level below a ticket (pages, spin hand-over) is C09's: a ticket is published / consumed "
        "by one step; bq_blocked_ops_complete assumes `clean` (no head_counter-- after a later pop ticket was handed out, no invalidated "
        "ticket: exactly the C09 findings; throwing constructors are not in the alphabet); bq_abort_wakes_all has no hypothesis; capacity 0 and "
        "deadlock-freedom of whole programs are not claimed (safety form: parked + condition true => V owed or the notifier pending)",
        "arena enqueue (AE): one arena with my_num_slots > my_num_reserved_slots (an arena whose slots are all reserved never requests a "
        "worker for an enqueued task: observation, not claimed); the market's allotment, the serializer's pending-delta aggregation and "
        "set_active_num_workers racing the enable check are abstracted to one critical section; spawn-only demand is outside the model",
        "task_arena::execute (EX): S slots all usable by external threads, no workers in the arena (a delegated task is executed by an "
        "environment step); proved: the completed-delegated-task wake-up and that no release is missed between the re-check and commit_wait; "
        "NOT proved: the hand-over chain after a waiter has parked (notify_one baton) — it is false for S >= 2 in the code "
        "(KNOWN_FINDINGS execute-wakeup-absorbed-by-entering-waiter) and unproved for S = 1",
        "notify_one_relaxed(pred) (tbb::mutex::unlock -> notify_by_address_one): a no-lost-wake-up THEOREM only under uniqB (the thread waiting on "
        "the announced condition with the matching context is the only thread that ever waits with that context: one blocked thread per mutex, "
        "any number of mutexes per bucket: mutex_bucket_collision_no_lost_wakeup); several threads blocked on the SAME mutex (each wake-up hands "
        "the mutex on, the next unlock wakes the next) is covered by the scan/at-most-one step theorems and the sampled mtx2/mtx3/coll scenarios, "
        "not by a liveness theorem; which arena the market allots the mandatory worker to (two-arena family) is covered only by the sampled "
        "whole-runtime scenarios here (the allotment theorem is C16's)",
        "wait_context: WaitCtx = the Monitor model plus the reference counter (only the releaser that reaches zero runs notify_waiters); the "
        "real wait_context + monitor run in the component harness under the implementation-side monitors (no access-level replay of the counter); "
        "the 'arena non-empty' disjunct of the external waiter's predicate is the monitor instance wait_ctx_sleep_no_loss_mixed",
        "'enqueued work eventually runs' is covered up to: demand is registered while the flag is set (Flag theorem) and every parked arena thread "
        "is notified (Monitor theorem); end-to-end only by the sampled whole-runtime scenarios",
        "weak CAS never fails spuriously and futex waits never wake spuriously under the shim (a delayed futex wake-up acts as a spurious one and is "
        "modelled); the kernel futex, RML thread start/park and timing are not modelled",
    ]
    ck.trusted += ["harness/shim (atomic shim + baton scheduler + futex emulation)", "harness/c02/*.cpp (ghost monitors, notify-site rule, "
                   "state-guided schedules, naming of stack words by stack window)",
                   "trace abstraction + replay in checks/c02.py (sampled correspondence)", "g++ / x86-TSO mapping of C++ memory orders",
                   "rt2.cpp bucket calibration (two addresses share an address_waiter bucket iff notify_by_address_one tests the same counter)"]
    mon = build_comp("mon")
    rt = build_rt()
    obs = gen(ck, mon, rt)
    ck.lean_stage()
    okx, okp = fences_ok(obs, True), fences_ok(obs, False)
    ck.oblige("gen:fencesOK observed Orders (x86 mapping)", "generated", okx, str(ck.extra["observed_orders"]))
    ck.oblige("gen:fencesOK observed Orders (portable reading: seq_cst RMW is not a fence)", "generated", okp, str(ck.extra["observed_orders"]))
    ck.oblige("gen:advertise_new_work<work_enqueued> fences before testing the arena flag", "generated", obs["enqueueFence"], "")
    bad_corr_m, bad_mon_m = run_mon(ck, mon)
    flag = build_comp("flag")
    bad_corr_f, bad_mon_f = run_flag(ck, flag)
    wctx = build_comp("wctx")
    bad_w = run_wctx(ck, wctx)
    bad_rt, site_dirty, dirty_detail, site_rmw = run_rt(ck, rt)
    rt2 = build_rt2()
    bad_rt2 = run_rt2(ck, rt2)
    bq = build_bq()
    bad_corr_q, bad_mon_q = run_bq(ck, bq)
    ae = build_ae()
    bad_corr_a, bad_mon_a = run_ae(ck, ae)
    ex = build_ex()
    bad_corr_x, bad_mon_x = run_ex(ck, ex)
    run_exw(ck, ex)
    # ---- failing-input search ---------------------------------------------------------------------------------
    if ck.broken() and not ck.counterexamples:
        log("obligations broke without a counterexample: searching")
        if not (okx and okp and obs["enqueueFence"]) or site_dirty or site_rmw:
            o = dict(obs)
            if not obs["enqueueFence"]:
                o["notifyFence"], o["chgRmw"] = False, False     # the publisher is the notifier of the arena's sleepers
                dirty_detail = dirty_detail or "arena::advertise_new_work<work_enqueued>"
                site_dirty = site_dirty or 1
            search_fences(ck, o, site_dirty, dirty_detail, site_rmw)
        if not ck.counterexamples:
            # deeper implementation-side search with the monitors
            budget = "6000" if ck.tier == "quick" else "120000"
            order = [scn for name, scn in mon_order_scenarios() if name.split("-")[0] in ("c", "p")]
            for scn in (order[:12] + MON_CORPUS[:6] if ck.tier == "quick" else order + MON_CORPUS):
                rc, out, err = sh([mon, "dfs", "3", budget], input=scn + "\n", timeout=900)
                m = re.search(r"summary runs=(\d+) bad=(\d+)", out)
                if rc != 0 or not m or m.group(2) != "0":
                    rs = parse_runs(out)
                    if rs:
                        cex_monitor(ck, "mon", scn, rs[-1])
                        break
        if not ck.counterexamples:
            for (w, rl) in [(1, 2), (2, 2), (1, 3), (2, 3)][:2 if ck.tier == "quick" else 4]:
                rc, out, err = sh([wctx, "dfs", "3", "6000" if ck.tier == "quick" else "120000", str(w), str(rl)], timeout=900)
                m = re.search(r"summary runs=(\d+) bad=(\d+)", out)
                if rc != 0 or not m or m.group(2) != "0":
                    rs = parse_runs(out)
                    if rs:
                        cex_monitor(ck, "wctx", "", rs[-1], args=[str(w), str(rl)])
                        break
        if not ck.counterexamples:
            for scn in FLAG_CORPUS:
                rc, out, err = sh([flag, "dfs", "3", "6000" if ck.tier == "quick" else "120000"], input=scn + "\n", timeout=900)
                m = re.search(r"summary runs=(\d+) bad=(\d+)", out)
                if rc != 0 or not m or m.group(2) != "0":
                    rs = parse_runs(out)
                    if rs:
                        cex_monitor(ck, "flag", scn, rs[-1])
                        break
        if not ck.counterexamples:
            stats = {"dropped_loads": 0, "stronger_orders": 0}
            for scn in (BQ_CORPUS[:6] if ck.tier == "quick" else BQ_CORPUS):
                rc, out, err = sh([bq, "dfs", "3", "20000" if ck.tier == "quick" else "200000"], input=scn + "\n", timeout=1700)
                m = re.search(r"summary runs=(\d+) bad=(\d+)", out)
                if rc != 0 or not m or m.group(2) != "0":
                    rs = parse_runs(out)
                    rr = replay_bq(scn, rs[-1:], stats) if rs else []
                    if rr and (rr[0][1] or bq_verdict_is_violation(rs[-1]["mon"], rr[0][2] if not rr[0][1] else None)):
                        ck.counterexample("bq:%s:%s" % (rs[-1]["mon"].split(" ")[0], " / ".join(scn.split("\n"))),
                                          "bounded queue: %s | scenario %s" % (rs[-1]["mon"], scn.replace("\n", " / ")),
                                          {"engine": "E-SHIM", "harness": "bq", "scenario": scn, "schedule": rs[-1]["sched"], "monitor": rs[-1]["mon"]})
                        break
        if not ck.counterexamples:
            sub = common.Check("C02", ck.tier, ck.seed + 41)
            run_ae(sub, ae)
            ck.counterexamples += sub.counterexamples
        if not ck.counterexamples:
            sub = common.Check("C02", ck.tier, ck.seed + 17)
            b2, _, _, _ = run_rt(sub, rt, nruns=60 if ck.tier == "quick" else 600, seeds=2)
            ck.counterexamples += sub.counterexamples
        if not ck.counterexamples:
            sub = common.Check("C02", ck.tier, ck.seed + 29)
            run_rt2(sub, rt2, nruns=40 if ck.tier == "quick" else 400, seeds=2)
            ck.counterexamples += sub.counterexamples


def replay(ck, obj):
    r = obj["replay"]
    if r.get("engine") == "TSO-model":
        mon = build_comp("mon")
        rt = build_rt()
        obs = observe_orders(mon, rt)
        rf = r["orders"][4]
        if fences_ok(obs, bool(rf)) and obs["enqueueFence"] and not r.get("site"):
            print("the observed Orders of the current tree satisfy fencesOK again: %s" % {k: obs[k] for k in ("prepFence", "unlockRmw", "notifyFence", "chgRmw")})
            return 0
        flags = r["orders"]
        out = drv("c02tso", "run " + " ".join("1" if f else "0" for f in flags) + " " + " ".join(r["schedule"]) + "\n")
        print("model-level replay under the recorded Orders %s: %s" % (flags, out[0] if out else "?"))
        if r.get("site"):
            # a call-site finding: re-check the notify-site rule on the current tree
            ck2 = common.Check("C02", "quick", ck.seed)
            _, dirty, det, nrmw = run_rt(ck2, rt, nruns=20)
            print("notify-site rule on the current tree: %s" % ("violated: " + det if (dirty or nrmw) else "clean"))
            return 1 if (dirty or nrmw) else 0
        return 1 if out and out[0].startswith("lost") else 0
    h = r.get("harness")
    if h == "rt2":
        exe = build_rt2()
        rc, out, err = sh([exe, r["scenario"], "replay", "-"], input=" ".join(r["schedule"]) + "\n", timeout=900)
        print("\n".join(l for l in out.split("\n") if not l.startswith("sched"))[-2000:])
        return 0 if rc == 0 else 1
    if h == "rt":
        exe = build_rt()
        rc, out, err = sh([exe, r["scenario"], "replay", ",".join(r["schedule"])], timeout=600)
        print("\n".join(l for l in out.split("\n") if not l.startswith("sched"))[-2000:])
        return 0 if rc == 0 else 1
    if h == "bq":
        exe = build_bq()
        if r.get("guide"):
            rc, out, err = sh([exe, "guided", r["guide"], str(ck.seed)], input=r["scenario"] + "\n", timeout=300)
        else:
            rc, out, err = sh([exe, "replay", ",".join(r["schedule"])], input=r["scenario"] + "\n", timeout=300)
        runs = parse_runs(out)
        bad = 0
        for rr, diff, clean in replay_bq(r["scenario"], runs, {"dropped_loads": 0, "stronger_orders": 0}):
            print("implementation monitors: %s | history within the theorem's hypotheses (clean): %s | Lean BQ model replay: %s" %
                  (rr["mon"], clean, diff or "agrees"))
            if diff or bq_verdict_is_violation(rr["mon"] or "?", clean if not diff else None):
                bad = 1
        print("\n".join(l for l in out.split("\n") if not l.startswith("sched"))[-2500:])
        return bad if runs else 1
    if h == "ex":
        exe = build_ex()
        if r.get("guide"):
            rc, out, err = sh([exe, "guided", r["guide"], str(r.get("guide_seed") or ck.seed)], input=r["scenario"] + "\n", timeout=300)
        else:
            rc, out, err = sh([exe, "replay", ",".join(r["schedule"]), "1"], input=r["scenario"] + "\n", timeout=300)
        runs = parse_runs(out)
        bad = 0
        if len(r["scenario"].split("\n")[0].split()) > 2:          # arena with worker slots: monitor-only
            for rr in runs:
                print("implementation monitors: %s" % rr["mon"])
                bad = bad or (1 if rr["mon"] != "ok" else 0)
            print("\n".join(l for l in out.split("\n") if not l.startswith("sched"))[-2500:])
            return bad if runs else 1
        for rr, diff, absorbed in replay_ex(r["scenario"], runs):
            print("implementation monitors: %s | a notify_one dequeued a waiter that already held a slot: %s | Lean EX model replay: %s" %
                  (rr["mon"], absorbed, diff or "agrees"))
            if diff or rr["mon"] != "ok":
                bad = 1
        print("\n".join(l for l in out.split("\n") if not l.startswith("sched"))[-2500:])
        return bad if runs else 1
    if h == "ae":
        exe = build_ae()
        rc, out, err = sh([exe, "replay", ",".join(r["schedule"]), "1"], input=r["scenario"] + "\n", timeout=600)
        runs = parse_runs(out)
        bad = 0
        for rr, diff in replay_ae(r["scenario"], runs):
            v = ae_property(rr["fin"]) if rr["fin"] else "no quiescent state reached"
            print("implementation: %s | quiescent state %s: %s | Lean AE model replay: %s" % (rr["mon"], " ".join(rr["fin"] or []), v or "demand registered", diff or "agrees"))
            if diff or v or rr["mon"] != "ok":
                bad = 1
        print("\n".join(l for l in out.split("\n") if not l.startswith("sched"))[-2500:])
        return bad if runs else 1
    exe = build_comp(h)
    if h == "wctx":
        rc, out, err = sh([exe, "replay", ",".join(r["schedule"]), "1"] + list(r["args"]), timeout=300)
    else:
        rc, out, err = sh([exe, "replay", ",".join(r["schedule"])], input=r["scenario"] + "\n", timeout=300)
    print(out[-3000:])
    return 0 if rc == 0 else 1
