"""C11 — concurrent_vector growth: disjoint tiling ranges, stable addresses, index bijection,
grow_to_at_least constructs what it claims (DESIGN.md §3 C11, §4 F1)."""
import json
import os
import re

import cexpr
import common
from common import (BuildError, REPO, cxx_build, drv, first_diff, gen_write, log, sh)

HDR = os.path.join(REPO, "include/oneapi/tbb/concurrent_vector.h")
STUBS = "harness/common/r1_stubs.cpp"


# ---------------------------------------------------------------------------------------------
# E-GEN: constants + the grow_to_at_least guard, regenerated from the source on every run
# ---------------------------------------------------------------------------------------------
def translate_gtal_guard():
    src = open(HDR).read()
    m = re.search(r"iterator\s+internal_grow_to_at_least\s*\(\s*size_type\s+new_size[^)]*\)\s*\{", src)
    if not m:
        raise cexpr.CExprError("internal_grow_to_at_least not found")
    body = src[m.end():]
    end = body.find("size_type end_segment")
    if end < 0:
        raise cexpr.CExprError("end of guard region not found")
    body = re.sub(r"//[^\n]*", "", body[:end])
    w = re.search(r"while\s*\(\s*old_size\s*<\s*new_size\s*&&\s*!\s*this->my_size\.compare_exchange_weak\(\s*old_size\s*,\s*new_size\s*\)\s*\)\s*\{\s*\}", body)
    if not w:
        raise cexpr.CExprError("CAS-max loop of grow_to_at_least not recognised")
    rest = body[w.end():]
    env = {"old_size": ("old_size", "u64"), "new_size": ("new_size", "u64")}
    pos = 0
    while True:
        d = re.match(r"\s*(?:const\s+)?([\w:]+(?:\s+[\w:]+)?)\s+(\w+)\s*=\s*([^;]+);", rest[pos:])
        if not d or d.group(1) in ("return",):
            break
        ty = cexpr.TYPES.get(d.group(1))
        if ty is None:
            raise cexpr.CExprError("unknown local type " + d.group(1))
        env[d.group(2)] = cexpr.translate(d.group(3), env, want=ty)
        pos += d.end()
    g = re.match(r"\s*if\s*\((.*?)\)\s*\{?\s*return\s+internal_grow\(\s*old_size\s*,\s*new_size\s*,\s*args\.\.\.\s*\)\s*;", rest[pos:], re.S)
    if not g:
        raise cexpr.CExprError("guard `if (...) return internal_grow(old_size, new_size, args...)` not recognised")
    cond = cexpr.translate(g.group(1), env, want="bool")
    return cond[0], g.group(1).strip(), {k: v[0] for k, v in env.items() if k not in ("old_size", "new_size")}


def gen(ck):
    exe = cxx_build("C11", "consts", ["harness/c11/consts.cpp"], flags=["-O0", "-fno-access-control"])
    rc, out, err = sh([exe], timeout=60)
    c = json.loads(out)
    ck.extra["generated_constants"] = c
    body = "".join("def %s : Nat := %d\n" % (k, v) for k, v in c.items())
    try:
        lean, csrc, locs = translate_gtal_guard()
        ck.oblige("gen:gtalGuard-translated", "generated", True, "C++: if (%s) with locals %s" % (csrc, locs))
        ck.extra["gtal_guard_cxx"] = csrc
    except cexpr.CExprError as e:
        ck.oblige("gen:gtalGuard-translated", "generated", False, "translator cannot read internal_grow_to_at_least: %s" % e)
        # keep the library building: an opaque guard about which nothing can be proved
        lean = "(decide (old_size < new_size ∧ (old_size + new_size) % 2 = 0))"
    body += "def gtalGuard (old_size new_size : Nat) : Bool := %s\n" % lean
    gen_write("C11", body)
    ck.oblige("gen:sizeTypeBits=64", "generated", c.get("sizeTypeBits") == 64, c)


# ---------------------------------------------------------------------------------------------
# inputs
# ---------------------------------------------------------------------------------------------
def boundary_indices(rng, n_random):
    xs = set(range(0, 70))
    for k in range(1, 64):
        for d in (-2, -1, 0, 1, 2):
            v = (1 << k) + d
            if 0 <= v < (1 << 64):
                xs.add(v)
    xs.add((1 << 64) - 1)
    for _ in range(n_random):
        k = rng.randrange(1, 64)
        xs.add(rng.randrange(1 << (k - 1), 1 << k))
    return sorted(xs)


def pure_lines(ck):
    quick = ck.tier == "quick"
    lines = []
    for i in boundary_indices(ck.rng, 2000 if quick else 200000):
        lines.append("idx %d" % i)
    if not quick:
        lines += ["idx %d" % i for i in range(70, 1 << 20)]
    for k in range(0, 64):
        lines += ["base %d" % k, "size %d" % k]
    fbs = [1, 2, 3, 4, 5, 8, 11] if quick else list(range(1, 16))
    for fb in fbs:
        idxs = set(range(0, 40)) | {(1 << k) + d for k in range(1, 24) for d in (-1, 0, 1)} | {ck.rng.randrange(0, 1 << 24) for _ in range(200)}
        for i in sorted(x for x in idxs if 0 <= x < (1 << 24)):
            lines.append("addr %d %d" % (fb, i))
    return lines


def gtal_cases(ck):
    P31, P32 = 1 << 31, 1 << 32
    cases = [(0, 1), (0, 5), (3, 3), (7, 3), (0, 8), (8, 9), (5, 1000), (1000, 5), (0, 65537),
             (0, P31 - 1), (0, P31), (P31 - 8, P31 + 10), (10, P31 + 10), (P31 + 5, P31 + 5), (P31 + 9, P31 + 2)]
    if ck.tier == "thorough":
        cases += [(0, P31 + 1), (P31, P31 + 1), (1, P32), (0, P32 + 7), (P31, P32 + 3), (P32 - 1, P32 + 1), (P32 + 4, P32 + 4), (3, P32 - 1)]
        for _ in range(6):
            a = ck.rng.randrange(0, P31 + 1000)
            b = ck.rng.randrange(0, P32 + 1000)
            cases.append((a, b))
    else:
        for _ in range(4):
            cases.append((ck.rng.randrange(0, 100000), ck.rng.randrange(0, 100000)))
    return cases


def grow_scenarios(ck):
    n = 40 if ck.tier == "quick" else 600
    rng = ck.rng
    bnd = [0, 1, 2, 3, 4, 7, 8, 9, 15, 16, 17, 31, 32, 33, 63, 64, 65, 127, 128, 129, 255, 256, 257, 1000, 4095, 4096, 4097]
    scs = []
    for s in range(n):
        T = rng.choice([2, 2, 3, 4])
        per = []
        for t in range(T):
            ops = []
            for _ in range(rng.randrange(1, 6)):
                k = rng.random()
                if k < 0.3:
                    ops.append(("push", 0))
                elif k < 0.65:
                    ops.append(("by", rng.choice(bnd)))
                else:
                    ops.append(("to", rng.choice(bnd) + rng.choice([0, 0, 1, 5, 300])))
            per.append(ops)
        scs.append(per)
    return scs


# ---------------------------------------------------------------------------------------------
def run_pure(ck):
    exe = cxx_build("C11", "pure", ["harness/c11/pure.cpp", STUBS], flags=["-O1", "-g", "-fno-access-control", "-fsanitize=undefined", "-fno-sanitize-recover=all"])
    lines = pure_lines(ck)
    text = "\n".join(lines) + "\n"
    rc, out, err = sh([exe], input=text, timeout=1200)
    impl = out.split("\n")[:-1]
    if rc != 0:
        ck.oblige("corr:segment-arithmetic", "correspondence", False, "harness exited rc=%d: %s" % (rc, err[-500:]))
        return
    model = drv("c11", text)
    d = first_diff(impl, model)
    kinds = {}
    for l in lines:
        kinds[l.split()[0]] = kinds.get(l.split()[0], 0) + 1
    ck.extra["pure_input_distribution"] = kinds
    ck.count(len(lines))
    for l, o in zip(lines, impl):
        ck.distinct.add((l.split()[0], o))
    ck.sample({"input": lines[len(lines) // 3], "impl": impl[len(lines) // 3], "model": model[len(lines) // 3]})
    ok = d is None
    ck.oblige("corr:segment-arithmetic (segment_index_of/base/size, element address map)", "correspondence", ok,
              "" if ok else "input %r: implementation %r, model %r" % (lines[d] if d < len(lines) else None,
                                                                     impl[d] if d < len(impl) else None, model[d] if d < len(model) else None))
    # implementation-side monitor of the property itself (independent of the model):
    bad = None
    for l, o in zip(lines, impl):
        w = l.split()
        if w[0] == "idx":
            i, k = int(w[1]), int(o)
            base = 0 if k == 0 else 1 << k
            size = 2 if k == 0 else 1 << k
            if not (k < 64 and base <= i < base + size):
                bad = (l, o)
                break
    if bad is None:
        ibase, isize = {}, {}
        for l, o in zip(lines, impl):
            w = l.split()
            if w[0] == "base":
                ibase[int(w[1])] = int(o)
            elif w[0] == "size":
                isize[int(w[1])] = int(o)
        for l, o in zip(lines, impl):
            w = l.split()
            if w[0] == "idx":
                i, k = int(w[1]), int(o)
                if k in ibase and not (ibase[k] <= i < ibase[k] + isize[k]):
                    bad = (l, "segment %d = [%d, %d)" % (k, ibase[k], ibase[k] + isize[k]))
                    break
    ck.oblige("monitor:index-in-its-segment", "correspondence", bad is None, "" if bad is None else "index %s mapped to segment %s" % bad)
    if bad is not None:
        ck.counterexample("segment-arith:" + bad[0].replace(" ", "="), "segment_index_of puts index outside its segment: %s -> %s" % bad,
                          {"engine": "E-PURE", "harness": "harness/c11/pure.cpp", "stdin": bad[0]})
    if not ok and bad is None and d < len(lines) and lines[d].startswith("addr"):
        ck.counterexample("addr-map:" + lines[d].replace(" ", "="), "element address differs from the injective address map: %s impl=%s model=%s" % (lines[d], impl[d], model[d]),
                          {"engine": "E-PURE", "harness": "harness/c11/pure.cpp", "stdin": lines[d]})


def run_gtal(ck):
    exe = cxx_build("C11", "gtal", ["harness/c11/gtal.cpp", STUBS], flags=["-O1", "-fno-access-control"])
    cases = gtal_cases(ck)
    model = drv("c11", "".join("gtal %d %d\n" % c for c in cases))
    mism, viol = [], []
    hangs = 0
    for (o, n), m in zip(cases, model):
        if hangs >= 2:
            break          # a broken tree can hang on every large case: two hangs are evidence enough
        rc, out, err = sh([exe, str(o), str(n)], timeout=90)
        if rc == -9:
            hangs += 1
        r = dict(kv.split("=") for kv in out.split()) if rc == 0 and out else {"grew": "crash rc=%d" % rc}
        ck.count(1, ("gtal", o < n, o >= 1 << 31, n >= 1 << 31, n >= 1 << 32, r.get("grew")))
        expect = "1" if o < n else "0"
        if r.get("grew") != expect or r.get("old_intact") != "1" or r.get("size") != str(max(o, n)):
            viol.append(((o, n), r))
        if r.get("grew") != m:
            mism.append(((o, n), r.get("grew"), m))
        ck.sample({"gtal": [o, n], "impl": r, "model_grows": m}, cap=9)
    ck.oblige("corr:grow_to_at_least guard (real vector vs generated guard)", "correspondence", not mism, mism[:3])
    ck.oblige("monitor:grow_to_at_least constructs [old,new)", "correspondence", not viol, viol[:3])
    for (o, n), r in viol[:1]:
        key = "gtal-int-truncation" if max(o, n) >= 1 << 31 else "gtal:%d,%d" % (o, n)
        ck.counterexample(key, "v.reserve(%d); grow_by(%d); grow_to_at_least(%d,'x') returned with %s (expected the range [%d,%d) constructed with 'x')" % (max(o, n) + 16, o, n, r, o, n),
                          {"engine": "E-REAL", "harness": "harness/c11/gtal.cpp", "args": [str(o), str(n)], "expected": "grew=%s" % ("1" if o < n else "0"), "observed": r})


def run_grow(ck):
    exe = cxx_build("C11", "grow", ["harness/c11/grow.cpp", STUBS], flags=["-O1", "-g", "-pthread"])
    scs = grow_scenarios(ck)
    bad_mon, bad_corr = [], []
    for per in scs:
        text = "T %d\n" % len(per) + "".join("%d %s %d\n" % (t, k, a) for t, ops in enumerate(per) for (k, a) in ops) + "run\n"
        rc, out, err = sh([exe], input=text, timeout=120)
        if rc != 0:
            bad_mon.append((text, "rc=%d %s" % (rc, err[-300:])))
            continue
        calls, final = [], {}
        for l in out.split("\n"):
            w = l.split()
            if w and w[0] == "call":
                calls.append((int(w[1]), int(w[2]), w[3], int(w[4]), None if w[5] == "-" else int(w[5]), None if w[6] == "-" else int(w[6])))
            elif w and w[0] == "final":
                final = dict(kv.split("=") for kv in w[1:])
        claimed = sorted([c for c in calls if c[4] is not None], key=lambda c: c[4])
        # implementation-side monitors: tile, constructed once with the right value, addresses stable
        pos, tile = 0, True
        for c in claimed:
            if c[4] != pos or c[5] <= c[4]:
                tile = False
            pos = c[5]
        size = int(final.get("size", -1))
        mon_ok = tile and pos == size and final.get("copies") == str(size) and final.get("tags_ok") == "1" and final.get("addr_stable") == "1"
        if not mon_ok:
            bad_mon.append((text, out))
        # model replay: the calls in hand-out order (unclaimed calls last), each as its own model thread
        order = claimed + [c for c in calls if c[4] is None]
        ml = ["reset"]
        for c in order:
            ml.append("prog %s %d" % (c[2], c[3]))
        nsteps = []
        for i, c in enumerate(order):
            if False:
                pass
            else:
                k = 2 if (c[2] == "to" and c[3] != 0) else 1
                ml += ["s %d" % i] * k
                nsteps.append(k)
        ml.append("tiles")
        mo = drv("c11st", "\n".join(ml) + "\n")
        steps = mo[1 + len(order):-1]
        j = 0
        for i, c in enumerate(order):
            k = max(nsteps[i], 1)
            last = steps[j + k - 1]
            j += k
            if nsteps[i] == 0:
                continue
            left_claims = last.split(" | ")[1].split()
            exp = ["0"] if c[4] is None else ["0", "%d:%d" % (c[4], c[5])]
            if left_claims != exp:
                bad_corr.append((text, c, last))
                break
        if mo[-1].split()[0] != "1" or mo[-1].split()[1] != str(size):
            bad_corr.append((text, "model log does not tile / size differs", mo[-1]))
        ck.count(1, (len(per), tuple(sorted((c[2], c[4] is None) for c in calls))))
        ck.traces_validated += 1
        ck.sample({"scenario": [[list(o) for o in ops] for ops in per], "handed_out": [[c[0], c[2], c[3], c[4], c[5]] for c in claimed]}, cap=9)
    ck.oblige("monitor:ranges tile, constructed once with the requested value, addresses stable (real threads)", "correspondence", not bad_mon, bad_mon[:1])
    ck.oblige("corr:size-word model replays the observed hand-out order", "correspondence", not bad_corr, bad_corr[:1])
    for text, out in bad_mon[:1]:
        ck.counterexample("grow-history", "concurrent growth history violates tiling/construct-once/address stability",
                          {"engine": "E-REAL", "harness": "harness/c11/grow.cpp", "stdin": text, "observed": out})


def parse_shim_runs(out):
    runs, cur = [], None
    for l in out.split("\n"):
        w = l.split()
        if not w:
            continue
        if w[0] == "run":
            cur = {"ev": [], "calls": [], "mon": "", "sched": []}
        elif cur is None:
            continue
        elif w[0] == "e":
            cur["ev"].append((int(w[1]), w[2], w[3], w[4], w[5]))
        elif w[0] == "call":
            cur["calls"].append((int(w[1]), int(w[2]), w[3], int(w[4]), w[5], w[6]))
        elif w[0] == "mon":
            cur["mon"] = " ".join(w[1:])
        elif w[0] == "sched":
            cur["sched"] = w[1:]
        elif w[0] == "end":
            runs.append(cur)
            cur = None
    return runs


SHIM_CORPUS = [
    [[("to", 5), ("push", 0)], [("by", 3), ("to", 20)], [("push", 0), ("by", 9)]],
    [[("to", 9), ("to", 9)], [("to", 9), ("by", 1)], [("by", 8)]],           # embedded table limit (8) crossed by racing growers
    [[("by", 16)], [("push", 0), ("push", 0), ("push", 0)], [("to", 17)]],
    [[("push", 0)], [("push", 0)], [("push", 0)], [("by", 2)]],              # first-block election on an empty vector
]


def run_shim(ck):
    """E-SHIM: the real header under the controlled scheduler; every access to my_size is replayed on the Lean model."""
    exe = cxx_build("C11", "shim", ["harness/c11/shim.cpp", common.SHIM_SRC, STUBS], flags=["-O1", "-g", "-fno-access-control"] + common.SHIM_FLAGS)
    quick = ck.tier == "quick"
    rng = ck.rng
    scs = list(SHIM_CORPUS)
    bnd = [0, 1, 2, 3, 7, 8, 9, 15, 16, 17, 33, 64, 65]
    for _ in range(12 if quick else 120):
        T = rng.choice([2, 3, 3, 4])
        scs.append([[(rng.choice(["push", "by", "to"]), rng.choice(bnd)) for _ in range(rng.randrange(1, 4))] for _ in range(T)])
    bad_mon, bad_corr, nruns, dfs_runs = [], [], 0, 0
    for si, sc in enumerate(scs):
        text = "".join("prog " + " ".join("%s %d" % (k, a if k != "push" else 0) for k, a in p) + "\n" for p in sc)
        rc, out, err = sh([exe, "rand", str(ck.seed * 1000 + si), "25" if quick else "100"], input=text, timeout=600)
        for r in parse_shim_runs(out):
            nruns += 1
            if r["mon"] != "ok":
                bad_mon.append((sc, r))
            # access-level replay of the size word
            ml = ["reset"] + ["prog " + " ".join("%s %d" % (k, a if k != "push" else 0) for k, a in p) for p in sc]
            # the model must skip `by 0` calls explicitly (they do not touch the word): track per-thread op cursor
            cursor = [0] * len(sc)
            left = [list(p) for p in sc]

            def skips(t):
                out_ = []
                pass
                return out_
            lines, expect = [], []
            for (t, k, a, b, ok) in r["ev"]:
                for sk in skips(t):
                    lines.append(sk); expect.append(None)
                lines.append("s %d" % t)
                expect.append([k, a, b if k != "load" else "0", ok])
                # advance the cursor when the op finished: decided by the model output below
            mo = drv("c11st", "\n".join(ml + lines + ["tiles"]) + "\n")[1 + len(sc):]
            d = None
            for i, (ln, ex) in enumerate(zip(lines, expect)):
                if ex is None:
                    continue
                got = mo[i].split(" | ")[0].split()
                if got != ex:
                    d = "access %d (%s): implementation %s, model %s" % (i, ln, " ".join(ex), mo[i])
                    break
                t = int(ln.split()[1])
                opsleft = int(mo[i].split(" | ")[1].split()[0])
                while len(left[t]) > opsleft:
                    left[t].pop(0)
            if d is None:
                # final claims per thread must equal the ranges the real calls returned
                for t in range(len(sc)):
                    real = ["%s:%s" % (c[4], c[5]) for c in r["calls"] if c[0] == t and c[4] != "-"]
                    lastline = [mo[i] for i, ln in enumerate(lines) if ln == "s %d" % t]
                    modelc = lastline[-1].split(" | ")[1].split()[1:] if lastline else []
                    if real != modelc:
                        d = "thread %d ranges: implementation %s, model %s" % (t, real, modelc)
                        break
            ck.traces_validated += 1
            if d:
                bad_corr.append((sc, r, d))
            ck.count(1, ("shim", len(sc), tuple(sorted(set(e[1] + e[4] for e in r["ev"])))))
        if rc not in (0, 1, 3):
            bad_mon.append((sc, {"mon": "harness crashed rc=%d %s" % (rc, err[-200:]), "sched": []}))
    for sc in SHIM_CORPUS[: (2 if quick else 4)]:
        text = "".join("prog " + " ".join("%s %d" % (k, a if k != "push" else 0) for k, a in p) + "\n" for p in sc)
        rc, out, err = sh([exe, "dfs", "1" if quick else "2", "6000" if quick else "300000"], input=text, timeout=1500)
        m = re.search(r"summary runs=(\d+) bad=(\d+)", out)
        if m:
            dfs_runs += int(m.group(1))
        if rc != 0 or not m or m.group(2) != "0":
            rs = parse_shim_runs(out)
            bad_mon.append((sc, rs[-1] if rs else {"mon": "harness rc=%d" % rc, "sched": []}))
    ck.evaluations += dfs_runs
    ck.extra["shim_schedules"] = {"random_runs": nruns, "dfs_runs": dfs_runs}
    ck.oblige("corr:every access to my_size under E-SHIM replays on the Lean size-word model (kind, values, CAS outcome, ranges)", "correspondence",
              not bad_corr, "" if not bad_corr else "%s | scenario %s" % (bad_corr[0][2], bad_corr[0][0]))
    ck.oblige("monitor:E-SHIM growers (segment election, table switch, waits): tile / constructed once / stable addresses / no deadlock", "correspondence",
              not bad_mon, "" if not bad_mon else "%s | scenario %s" % (bad_mon[0][1]["mon"], bad_mon[0][0]))
    for sc, r in bad_mon[:1]:
        ck.counterexample("shim-growers:" + (r["mon"].split(" ")[0] if r["mon"] else "?"), "concurrent growers: %s under schedule %s" % (r["mon"], " ".join(r["sched"][:120])),
                          {"engine": "E-SHIM", "harness": "harness/c11/shim.cpp", "scenario": sc, "schedule": r["sched"], "monitor": r["mon"]})


FAULT_CORPUS = [
    [[("push", 0)] * 10 + [("by", 100)]],                                  # multi-segment grow_by after the first block
    [[("by", 40)], [("by", 40)]],
    [[("push", 0), ("push", 0), ("by", 17)], [("to", 30)], [("push", 0), ("by", 9)]],
    [[("by", 3), ("by", 200)], [("push", 0), ("push", 0), ("push", 0)]],
]


def run_faults(ck):
    """Fault schedules: the k-th element copy-construction throws, or the k-th segment allocation throws, under
    controlled interleavings.  Property clauses checked: the vector remains destructible, elements of completed calls
    keep their values, later accesses either work or throw, unallocated memory is never touched (a wild access is a
    crash, which verif::report_crashes turns into an observation with the schedule)."""
    exe = cxx_build("C11", "shim", ["harness/c11/shim.cpp", common.SHIM_SRC, STUBS], flags=["-O1", "-g", "-fno-access-control"] + common.SHIM_FLAGS)
    quick = ck.tier == "quick"
    bad, fired, runs = [], 0, 0
    for si, sc in enumerate(FAULT_CORPUS):
        text = "".join("prog " + " ".join("%s %d" % (k, a if k != "push" else 0) for k, a in p) + "\n" for p in sc)
        total = sum((1 if k == "push" else a) for p in sc for k, a in p)
        ks = sorted(set([1, 2, 3, 5, 8, 9, 11, 13, 16, 17, 18, 31, 33, 34, total - 1, total] + ([ck.rng.randrange(1, total + 1) for _ in range(6)] if quick else list(range(1, min(total, 260) + 1)))))
        plans = [("VERIF_FAULT_CTOR", k) for k in ks if 1 <= k <= total] + [("VERIF_FAULT_ALLOC", k) for k in range(1, 9)]
        for var, k in plans:
            env = dict(os.environ); env[var] = str(k)
            rc, out, err = sh([exe, "rand", str(ck.seed * 100 + si), "3" if quick else "12"], input=text, timeout=300, env=env)
            runs += 1
            fired += out.count("faults_fired 1")
            ck.count(1, ("fault", si, var, "fired" if "faults_fired 1" in out else "nofire", rc))
            crash = "CRASH" in out or rc not in (0, 1, 3)
            viol = [l for l in out.split("\n") if l.startswith("mon VIOLATION") or l.startswith("mon DEADLOCK")]
            if crash or viol:
                sched = [l for l in out.split("\n") if l.startswith("sched")]
                bad.append({"scenario": sc, "fault": [var, k], "what": ((out[out.find("CRASH"):][:40].replace("\n", " ") if "CRASH" in out else "CRASH rc=%d" % rc) if crash else viol[0]),
                            "schedule": sched[-1].split()[1:] if sched else []})
    probes = run_probes(ck, exe)
    bad = probes + bad
    ck.extra["fault_runs"] = {"plans_run": runs, "faults_fired": fired, "targeted_probes_reproduced": len(probes)}
    keyed, seen = [], set()
    for b in bad:
        kind = "crash" if b["what"].startswith("CRASH") else ("deadlock" if "DEADLOCK" in b["what"] else "monitor")
        if b["fault"][0] == "VERIF_FAULT_CTOR":
            key = "fault:ctor-throw:%s" % kind
        else:
            key = "fault:alloc-throw:%s:%s" % ("first-block" if b["fault"][1] == 1 else "segment", kind)
        if key not in seen:
            seen.add(key)
            keyed.append((key, b))
    ck.oblige("monitor:fault schedules (k-th element copy / k-th segment allocation throws): destructible, completed elements intact, "
              "later accesses work or throw (never hang), no wild access", "correspondence", not bad, "" if not bad else str(bad[0])[:300],
              cex_keys=[k for k, _ in keyed])
    for key, b in keyed:
        ck.counterexample(key, "scenario %s with %s=%d: %s" % (b["scenario"], b["fault"][0], b["fault"][1], b["what"][:80]),
                          {"engine": "E-SHIM", "harness": "harness/c11/shim.cpp", "scenario": b["scenario"], "schedule": b["schedule"], "env": {b["fault"][0]: str(b["fault"][1])}})


# Known findings in the failure clauses (KNOWN_FINDINGS.txt), probed on every run with targeted scenarios so that they are
# demonstrated deterministically rather than by luck of the random fault plans:
#  F8 fault:alloc-throw:first-block:deadlock — first-block allocation fails in a thread that still sees the embedded table while
#     my_first_block > 3: only embedded slots 1..2 get the failure tag; a grower in segments 3..first_block-1 waits forever.
#  F9 fault:ctor-throw:deadlock / fault:alloc-throw:segment:deadlock — a grower that leaves by exception never allocates (or tags)
#     the later segments whose first index lies in its claimed range; growers waiting for those segments wait forever.
PROBES = [
    ("VERIF_FAULT_ALLOC", 1, [[("push", 0), ("push", 0)], [("to", 30)], [("push", 0)]]),
    ("VERIF_FAULT_CTOR", 2, [[("by", 3), ("by", 200)], [("push", 0), ("push", 0), ("push", 0)]]),
    ("VERIF_FAULT_ALLOC", 2, [[("push", 0), ("push", 0), ("by", 17)], [("to", 30)], [("push", 0), ("by", 9)]]),
]


def run_probes(ck, exe):
    found = []
    for var, k, sc in PROBES:
        text = "".join("prog " + " ".join("%s %d" % (kk, a if kk != "push" else 0) for kk, a in p) + "\n" for p in sc)
        env = dict(os.environ); env[var] = str(k)
        for seed in range(0, 40):
            rc, out, err = sh([exe, "rand", str(seed), "5"], input=text, timeout=120, env=env)
            if "mon VIOLATION DEADLOCK" in out or "CRASH" in out or rc not in (0, 1, 3):
                sched = [l for l in out.split("\n") if l.startswith("sched")]
                what = "mon VIOLATION DEADLOCK (a grower waits forever for a segment nobody will allocate or tag)" if "DEADLOCK" in out else (out[out.find("CRASH"):][:40].replace("\n", " ") if "CRASH" in out else "CRASH rc=%d" % rc)
                found.append({"scenario": sc, "fault": [var, k], "what": what, "schedule": sched[-1].split()[1:] if sched else []})
                break
    return found


def run(ck):
    ck.rule = ("E-PURE: boundary-biased 64-bit indices (all 2^k, 2^k±1,±2; random per bit-length; thorough adds every index < 2^20), every k<64 for "
               "segment_base/size, element addresses of real vectors for several first-block sizes; E-REAL: random 2-4 thread grower scenarios and "
               "grow_to_at_least (old,new) pairs incl. >= 2^31 (thorough: >= 2^32). distinct = distinct (operation, outcome class) pairs")
    ck.assumptions += [
        "exception paths (throwing element constructor / allocator) are covered by fault schedules with implementation-side monitors, not by theorems",
        "model covers: index arithmetic, element address map, the my_size word (fetch_add / CAS-max) and the grow_to_at_least guard (generated from source)",
        "not modelled (checked only by the implementation monitors on explored runs): segment allocation election and waits in create_segment, "
        "embedded->long table switch, exception paths (failure tagging / zero-fill)",
        "grow_to_at_least(n) waits for *allocation* of segments claimed by concurrent calls, not for their construction (documented oneTBB behaviour); "
        "the theorem is about the range the call itself claimed",
        "size_t sums are assumed not to wrap (sizes <= max_size)"]
    ck.trusted += ["checks/cexpr.py + checks/c11.py:translate_gtal_guard (C++ guard -> Lean)", "harness/c11/*.cpp (observation of the real headers)",
                   "correspondence is sampled (differential), not proved"]
    gen(ck)
    ck.lean_stage()
    run_pure(ck)
    run_gtal(ck)
    run_grow(ck)
    run_shim(ck)
    run_faults(ck)


def replay(ck, obj):
    r = obj["replay"]
    if r.get("engine") == "E-SHIM":
        exe = cxx_build("C11", "shim", ["harness/c11/shim.cpp", common.SHIM_SRC, STUBS], flags=["-O1", "-g", "-fno-access-control"] + common.SHIM_FLAGS)
        text = "".join("prog " + " ".join("%s %d" % (k, a if k != "push" else 0) for k, a in p) + "\n" for p in r["scenario"])
        env = dict(os.environ); env.update(r.get("env", {}))
        rc, out, err = sh([exe, "replay", ",".join(r["schedule"])], input=text, timeout=300, env=env)
        print(out[-2000:])
        return 0 if rc == 0 else 1
    name = os.path.basename(r["harness"])[:-4]
    flags = {"gtal": ["-O1", "-fno-access-control"], "grow": ["-O1", "-g", "-pthread"], "pure": ["-O1", "-fno-access-control"]}[name]
    exe = cxx_build("C11", name, [r["harness"], STUBS], flags=flags)
    rc, out, err = sh([exe] + r.get("args", []), input=r.get("stdin"), timeout=300)
    print("replay of %s: rc=%d\n%s" % (obj.get("key"), rc, out))
    if "expected" in r:
        okk = r["expected"] in out
        print("expected %s -> %s" % (r["expected"], "property holds now" if okk else "STILL FAILS"))
        return 0 if okk else 1
    return 0
