"""C11 — concurrent_vector growth: disjoint tiling ranges, stable addresses, index bijection,
grow_to_at_least constructs what it claims (DESIGN.md §3 C11, §4 F1)."""
import json
import os
import re

import cexpr
import common
from common import (BuildError, REPO, cxx_build, drv, first_diff, gen_write, log, sh)

HDR = os.path.join(REPO, "include/oneapi/tbb/concurrent_vector.h")
STUBS = "harness/common/r1_stubs.cpp"


# ---------------------------------------------------------------------------------------------
# E-GEN: constants + the grow_to_at_least guard, regenerated from the source on every run
# ---------------------------------------------------------------------------------------------
def translate_gtal_guard():
    src = open(HDR).read()
    m = re.search(r"iterator\s+internal_grow_to_at_least\s*\(\s*size_type\s+new_size[^)]*\)\s*\{", src)
    if not m:
        raise cexpr.CExprError("internal_grow_to_at_least not found")
    body = src[m.end():]
    end = body.find("size_type end_segment")
    if end < 0:
        raise cexpr.CExprError("end of guard region not found")
    body = re.sub(r"//[^\n]*", "", body[:end])
    w = re.search(r"while\s*\(\s*old_size\s*<\s*new_size\s*&&\s*!\s*this->my_size\.compare_exchange_weak\(\s*old_size\s*,\s*new_size\s*\)\s*\)\s*\{\s*\}", body)
    if not w:
        raise cexpr.CExprError("CAS-max loop of grow_to_at_least not recognised")
    rest = body[w.end():]
    env = {"old_size": ("old_size", "u64"), "new_size": ("new_size", "u64")}
    pos = 0
    while True:
        d = re.match(r"\s*(?:const\s+)?([\w:]+(?:\s+[\w:]+)?)\s+(\w+)\s*=\s*([^;]+);", rest[pos:])
        if not d or d.group(1) in ("return",):
            break
        ty = cexpr.TYPES.get(d.group(1))
        if ty is None:
            raise cexpr.CExprError("unknown local type " + d.group(1))
        env[d.group(2)] = cexpr.translate(d.group(3), env, want=ty)
        pos += d.end()
    g = re.match(r"\s*if\s*\((.*?)\)\s*\{?\s*return\s+internal_grow\(\s*old_size\s*,\s*new_size\s*,\s*args\.\.\.\s*\)\s*;", rest[pos:], re.S)
    if not g:
        raise cexpr.CExprError("guard `if (...) return internal_grow(old_size, new_size, args...)` not recognised")
    cond = cexpr.translate(g.group(1), env, want="bool")
    return cond[0], g.group(1).strip(), {k: v[0] for k, v in env.items() if k not in ("old_size", "new_size")}



SEGHDR = os.path.join(REPO, "include/oneapi/tbb/detail/_segment_table.h")

# Decision guards of the segment-table protocol, regenerated from the source text on every run.  The Lean model
# (Model/C11Seg.lean) takes every branch of extend_table_if_necessary / create_segment / internal_grow /
# internal_grow_to_at_least through these definitions, and the theorems are proved over them.
# The extraction is by function: parameter names come from the signature and locals from their declarations, so renaming a
# parameter or a local does not break the translation (the expression is alpha-renamed to the canonical names before it is
# translated); a changed operator, constant or operand does change the generated definition.
def _func(src, name):
    """(parameter names, body text) of the first definition of member function `name`"""
    m = re.search(r"\b%s\s*\(([^)]*)\)\s*(?:const\s*)?(?:noexcept\s*)?\{" % re.escape(name), src)
    if not m:
        raise cexpr.CExprError("function %s not found" % name)
    params = [re.findall(r"(\w+)\s*$", p.strip())[0] for p in m.group(1).split(",") if p.strip() and "..." not in p]
    depth, k = 1, m.end()
    while depth and k < len(src):
        depth += {"{": 1, "}": -1}.get(src[k], 0)
        k += 1
    return params, src[m.end():k]


def _alpha(expr, ren):
    for a, b in ren.items():
        if a and a != b:
            expr = re.sub(r"\b%s\b" % re.escape(a), b, expr)
    return expr


def _seg_guards_extract():
    seg = re.sub(r"/\*.*?\*/", "", open(SEGHDR).read(), flags=re.S)
    seg = re.sub(r"//[^\n]*", "", seg)
    vec = re.sub(r"/\*.*?\*/", "", open(HDR).read(), flags=re.S)
    vec = re.sub(r"//[^\n]*", "", vec)
    out = {}

    def need(m, what):
        if not m:
            raise cexpr.CExprError("source pattern of guard %s not found" % what)
        return m

    # extend_table_if_necessary(table, start_index, end_index)
    try:
        (tb, st, en), body = _func(seg, "extend_table_if_necessary")
        m = need(re.search(r"if\s*\(\s*%s\s*==\s*my_embedded_table\s*&&\s*([^)]*?)\s*\)\s*\{" % tb, body), "xNeed")
        out["xNeed"] = _alpha(m.group(1), {en: "end_index", st: "start_index"})
        m = need(re.search(r"\{\s*if\s*\(\s*([^)]*?)\s*\)\s*\{", body[m.end() - 1:]), "xSelf")
        out["xSelf"] = _alpha(m.group(1), {en: "end_index", st: "start_index"})
    except cexpr.CExprError as e:
        out.setdefault("xNeed", e); out.setdefault("xSelf", e)
    # allocate_long_table(embedded_table, start_index)
    try:
        (et, st), body = _func(vec, "allocate_long_table")
        m = need(re.search(r"for\s*\(\s*segment_index_type\s+(\w+)\s*=\s*0\s*;\s*([^;]*?)\s*;\s*\+\+\1\s*\)", body), "altWait")
        out["altWait"] = _alpha(m.group(2).replace("this->segment_base(%s)" % m.group(1), "segment_base_i"), {st: "start_index"})
    except cexpr.CExprError as e:
        out["altWait"] = e
    # create_segment(table, seg_index, index)
    try:
        (tb, sg, ix), body = _func(vec, "create_segment")
        fbm = need(re.search(r"size_type\s+(\w+)\s*=\s*this->my_first_block\.load\(std::memory_order_relaxed\)\s*;", body), "csFirst")
        fb = fbm.group(1)
        ren = {tb: "table", sg: "seg_index", ix: "index", fb: "first_block"}
        m = need(re.search(r"if\s*\(\s*([^)]*?)\s*\)\s*\{", body[fbm.end():]), "csFirst")
        out["csFirst"] = _alpha(m.group(1), ren)
        m = need(re.search(r"size_type\s+(\w+)\s*=\s*this->segment_base\(%s\)\s*;\s*if\s*\(\s*([^)]*?)\s*\)\s*\{" % sg, body), "csOwner")
        out["csOwner"] = _alpha(m.group(2), dict(ren, **{m.group(1): "offset"}))
        m = need(re.search(r"size_type\s+(\w+)\s*=\s*(%s\s*==\s*this->my_embedded_table\s*\?[^;]+);" % tb, body), "csTagEnd")
        out["csTagEnd"] = _alpha(m.group(2), ren).replace("table == this->my_embedded_table", "table_is_embedded").replace("this->", "")
        ext = need(re.search(r"this->extend_table_if_necessary\(%s\s*,[^;]*;" % tb, body), "csFill")
        loops = re.findall(r"for\s*\(\s*size_type\s+(\w+)\s*=\s*1\s*;\s*([^;]*?)\s*;\s*\+\+\1\s*\)\s*\{\s*([^}]*)\}", body[ext.end():])
        if len(loops) < 2:
            raise cexpr.CExprError("source pattern of guards csFill / csMirror not found")
        (v1, c1, b1), (v2, c2, b2) = loops[0], loops[1]
        if not re.search(r"%s\s*\[\s*%s\s*\]\s*\.store" % (tb, v1), b1) or "my_embedded_table" not in b2:
            raise cexpr.CExprError("the two fill loops of the first-block winner are not `table[i].store` then `my_embedded_table[i].store`")
        out["csFill"] = _alpha(c1, dict(ren, **{v1: "i"})).replace("this->", "")
        out["csMirror"] = _alpha(c2, dict(ren, **{v2: "i"})).replace("this->", "")
    except cexpr.CExprError as e:
        for k in ("csFirst", "csOwner", "csTagEnd", "csFill", "csMirror"):
            out.setdefault(k, e)
    # internal_grow(start_idx, end_idx, args...)
    try:
        (sa, ea), body = _func(vec, "internal_grow")
        sgm = need(re.search(r"size_type\s+(\w+)\s*=\s*this->segment_index_of\(\s*%s\s*-\s*1\s*\)\s*;" % ea, body), "growEager")
        sg = sgm.group(1)
        ren = {sa: "start_idx", ea: "end_idx", sg: "seg_index"}
        m = need(re.search(r"if\s*\(\s*(%s\s*[<>=!]+\s*this->my_first_block\.load\(std::memory_order_relaxed\))\s*\)" % sg, body), "growEager")
        out["growEager"] = _alpha(m.group(1), ren).replace("this->my_first_block.load(std::memory_order_relaxed)", "first_block")
        m = need(re.search(r"size_type\s+(\w+)\s*=\s*this->segment_base\(%s\)\s*;\s*if\s*\(\s*([^{]*?)\s*\)\s*\{" % sg, body), "growOwns")
        out["growOwns"] = _alpha(m.group(2), dict(ren, **{m.group(1): "first_element"}))
    except cexpr.CExprError as e:
        out.setdefault("growEager", e); out.setdefault("growOwns", e)
    # internal_grow_to_at_least(new_size, args...)
    try:
        (ns,), body = _func(vec, "internal_grow_to_at_least")
        esm = need(re.search(r"size_type\s+(\w+)\s*=\s*this->segment_index_of\(\s*%s\s*-\s*1\s*\)\s*;" % ns, body), "gtalLong")
        es = esm.group(1)
        m = need(re.search(r"if\s*\(\s*(%s\s*[<>=!]+\s*this->pointers_per_embedded_table)\s*&&\s*this->get_table\(\)\s*==\s*this->my_embedded_table\s*\)" % es, body), "gtalLong")
        out["gtalLong"] = _alpha(m.group(1), {es: "end_segment"}).replace("this->", "")
    except cexpr.CExprError as e:
        out["gtalLong"] = e
    return out


def _seg_guard_specs():
    u = lambda *names: {n: (n, "u64") for n in names}
    return [
        ("xNeed", "(end_index : Nat) : Bool", u("end_index", "start_index"), "bool", "(decide (end_index > (8 : Nat)))"),
        ("xSelf", "(start_index : Nat) : Bool", u("start_index", "end_index"), "bool", "(decide (start_index ≤ (8 : Nat)))"),
        ("altWait", "(segment_base_i start_index : Nat) : Bool", u("segment_base_i", "start_index"), "bool", "(decide (segment_base_i < start_index))"),
        ("csFirst", "(seg_index first_block : Nat) : Bool", u("seg_index", "first_block"), "bool", "(decide (seg_index < first_block))"),
        ("csOwner", "(index offset : Nat) : Bool", u("index", "offset"), "bool", "(decide (index = offset))"),
        ("csTagEnd", "(table_is_embedded : Bool) (first_block : Nat) : Nat", dict(u("first_block"), table_is_embedded=("table_is_embedded", "bool")), "u64",
         "(if table_is_embedded then (3 : Nat) else first_block)"),
        ("csFill", "(i first_block : Nat) : Bool", u("i", "first_block"), "bool", "(decide (i < first_block))"),
        ("csMirror", "(i first_block : Nat) : Bool", u("i", "first_block"), "bool", "((decide (i < first_block)) && (decide (i < (3 : Nat))))"),
        ("growEager", "(seg_index first_block : Nat) : Bool", u("seg_index", "first_block"), "bool", "(decide (seg_index > first_block))"),
        ("growOwns", "(first_element start_idx end_idx : Nat) : Bool", u("first_element", "start_idx", "end_idx"), "bool",
         "((decide (first_element ≥ start_idx)) && (decide (first_element < end_idx)))"),
        ("gtalLong", "(end_segment : Nat) : Bool", u("end_segment"), "bool", "(decide (end_segment ≥ (3 : Nat)))"),
    ]


def translate_seg_guards(ck, consts):
    cc = {"embedded_table_size": consts["embeddedTableSize"], "pointers_per_embedded_table": consts["pointersPerEmbeddedTable"]}
    try:
        found = _seg_guards_extract()
    except (OSError, cexpr.CExprError) as e:
        found = {}
        ck.oblige("gen:segment-table-guards", "generated", False, "cannot read the sources: %s" % e)
    out = ""
    for name, params, env, want, default in _seg_guard_specs():
        try:
            cxx = found.get(name, cexpr.CExprError("guard not extracted"))
            if isinstance(cxx, Exception):
                raise cxx
            lean = cexpr.translate(cxx, env, consts=cc, want=want)[0]
            ck.oblige("gen:%s-translated" % name, "generated", True, "C++: %s" % " ".join(cxx.split()))
        except cexpr.CExprError as e:
            ck.oblige("gen:%s-translated" % name, "generated", False, "translator cannot read the guard: %s" % e)
            lean = default
        out += "def %s %s := %s\n" % (name, params, lean)
    return out


def gen(ck):
    exe = cxx_build("C11", "consts", ["harness/c11/consts.cpp"], flags=["-O0", "-fno-access-control"])
    rc, out, err = sh([exe], timeout=60)
    c = json.loads(out)
    ck.extra["generated_constants"] = c
    body = "".join("def %s : Nat := %d\n" % (k, v) for k, v in c.items())
    try:
        lean, csrc, locs = translate_gtal_guard()
        ck.oblige("gen:gtalGuard-translated", "generated", True, "C++: if (%s) with locals %s" % (csrc, locs))
        ck.extra["gtal_guard_cxx"] = csrc
    except cexpr.CExprError as e:
        ck.oblige("gen:gtalGuard-translated", "generated", False, "translator cannot read internal_grow_to_at_least: %s" % e)
        # keep the library building: an opaque guard about which nothing can be proved
        lean = "(decide (old_size < new_size ∧ (old_size + new_size) % 2 = 0))"
    body += "def gtalGuard (old_size new_size : Nat) : Bool := %s\n" % lean
    body += translate_seg_guards(ck, c)
    gen_write("C11", body)
    ck.oblige("gen:sizeTypeBits=64", "generated", c.get("sizeTypeBits") == 64, c)


# ---------------------------------------------------------------------------------------------
# inputs
# ---------------------------------------------------------------------------------------------
def boundary_indices(rng, n_random):
    xs = set(range(0, 70))
    for k in range(1, 64):
        for d in (-2, -1, 0, 1, 2):
            v = (1 << k) + d
            if 0 <= v < (1 << 64):
                xs.add(v)
    xs.add((1 << 64) - 1)
    for _ in range(n_random):
        k = rng.randrange(1, 64)
        xs.add(rng.randrange(1 << (k - 1), 1 << k))
    return sorted(xs)


def pure_lines(ck):
    quick = ck.tier == "quick"
    lines = []
    for i in boundary_indices(ck.rng, 2000 if quick else 200000):
        lines.append("idx %d" % i)
    if not quick:
        lines += ["idx %d" % i for i in range(70, 1 << 20)]
    for k in range(0, 64):
        lines += ["base %d" % k, "size %d" % k]
    fbs = [1, 2, 3, 4, 5, 8, 11] if quick else list(range(1, 16))
    for fb in fbs:
        idxs = set(range(0, 40)) | {(1 << k) + d for k in range(1, 24) for d in (-1, 0, 1)} | {ck.rng.randrange(0, 1 << 24) for _ in range(200)}
        for i in sorted(x for x in idxs if 0 <= x < (1 << 24)):
            lines.append("addr %d %d" % (fb, i))
    return lines


def gtal_cases(ck):
    P31, P32 = 1 << 31, 1 << 32
    cases = [(0, 1), (0, 5), (3, 3), (7, 3), (0, 8), (8, 9), (5, 1000), (1000, 5), (0, 65537),
             (0, P31 - 1), (0, P31), (P31 - 8, P31 + 10), (10, P31 + 10), (P31 + 5, P31 + 5), (P31 + 9, P31 + 2)]
    if ck.tier == "thorough":
        cases += [(0, P31 + 1), (P31, P31 + 1), (1, P32), (0, P32 + 7), (P31, P32 + 3), (P32 - 1, P32 + 1), (P32 + 4, P32 + 4), (3, P32 - 1)]
        for _ in range(6):
            a = ck.rng.randrange(0, P31 + 1000)
            b = ck.rng.randrange(0, P32 + 1000)
            cases.append((a, b))
    else:
        for _ in range(4):
            cases.append((ck.rng.randrange(0, 100000), ck.rng.randrange(0, 100000)))
    return cases


def grow_scenarios(ck):
    n = 40 if ck.tier == "quick" else 600
    rng = ck.rng
    bnd = [0, 1, 2, 3, 4, 7, 8, 9, 15, 16, 17, 31, 32, 33, 63, 64, 65, 127, 128, 129, 255, 256, 257, 1000, 4095, 4096, 4097]
    scs = []
    for s in range(n):
        T = rng.choice([2, 2, 3, 4])
        per = []
        for t in range(T):
            ops = []
            for _ in range(rng.randrange(1, 6)):
                k = rng.random()
                if k < 0.3:
                    ops.append(("push", 0))
                elif k < 0.65:
                    ops.append(("by", rng.choice(bnd)))
                else:
                    ops.append(("to", rng.choice(bnd) + rng.choice([0, 0, 1, 5, 300])))
            per.append(ops)
        scs.append(per)
    return scs


# ---------------------------------------------------------------------------------------------
def run_pure(ck):
    exe = cxx_build("C11", "pure", ["harness/c11/pure.cpp", STUBS], flags=["-O1", "-g", "-fno-access-control", "-fsanitize=undefined", "-fno-sanitize-recover=all"])
    lines = pure_lines(ck)
    text = "\n".join(lines) + "\n"
    rc, out, err = sh([exe], input=text, timeout=1200)
    impl = out.split("\n")[:-1]
    if rc != 0:
        ck.oblige("corr:segment-arithmetic", "correspondence", False, "harness exited rc=%d: %s" % (rc, err[-500:]))
        return
    model = drv("c11", text)
    d = first_diff(impl, model)
    kinds = {}
    for l in lines:
        kinds[l.split()[0]] = kinds.get(l.split()[0], 0) + 1
    ck.extra["pure_input_distribution"] = kinds
    ck.count(len(lines))
    for l, o in zip(lines, impl):
        ck.distinct.add((l.split()[0], o))
    ck.sample({"input": lines[len(lines) // 3], "impl": impl[len(lines) // 3], "model": model[len(lines) // 3]})
    ok = d is None
    ck.oblige("corr:segment-arithmetic (segment_index_of/base/size, element address map)", "correspondence", ok,
              "" if ok else "input %r: implementation %r, model %r" % (lines[d] if d < len(lines) else None,
                                                                     impl[d] if d < len(impl) else None, model[d] if d < len(model) else None))
    # implementation-side monitor of the property itself (independent of the model):
    bad = None
    for l, o in zip(lines, impl):
        w = l.split()
        if w[0] == "idx":
            i, k = int(w[1]), int(o)
            base = 0 if k == 0 else 1 << k
            size = 2 if k == 0 else 1 << k
            if not (k < 64 and base <= i < base + size):
                bad = (l, o)
                break
    if bad is None:
        ibase, isize = {}, {}
        for l, o in zip(lines, impl):
            w = l.split()
            if w[0] == "base":
                ibase[int(w[1])] = int(o)
            elif w[0] == "size":
                isize[int(w[1])] = int(o)
        for l, o in zip(lines, impl):
            w = l.split()
            if w[0] == "idx":
                i, k = int(w[1]), int(o)
                if k in ibase and not (ibase[k] <= i < ibase[k] + isize[k]):
                    bad = (l, "segment %d = [%d, %d)" % (k, ibase[k], ibase[k] + isize[k]))
                    break
    ck.oblige("monitor:index-in-its-segment", "correspondence", bad is None, "" if bad is None else "index %s mapped to segment %s" % bad)
    if bad is not None:
        ck.counterexample("segment-arith:" + bad[0].replace(" ", "="), "segment_index_of puts index outside its segment: %s -> %s" % bad,
                          {"engine": "E-PURE", "harness": "harness/c11/pure.cpp", "stdin": bad[0]})
    if not ok and bad is None and d < len(lines) and lines[d].startswith("addr"):
        ck.counterexample("addr-map:" + lines[d].replace(" ", "="), "element address differs from the injective address map: %s impl=%s model=%s" % (lines[d], impl[d], model[d]),
                          {"engine": "E-PURE", "harness": "harness/c11/pure.cpp", "stdin": lines[d]})


def run_gtal(ck):
    exe = cxx_build("C11", "gtal", ["harness/c11/gtal.cpp", STUBS], flags=["-O1", "-fno-access-control"])
    cases = gtal_cases(ck)
    model = drv("c11", "".join("gtal %d %d\n" % c for c in cases))
    mism, viol = [], []
    hangs = 0
    for (o, n), m in zip(cases, model):
        if hangs >= 2:
            break          # a broken tree can hang on every large case: two hangs are evidence enough
        rc, out, err = sh([exe, str(o), str(n)], timeout=90)
        if rc == -9:
            hangs += 1
        r = dict(kv.split("=") for kv in out.split()) if rc == 0 and out else {"grew": "crash rc=%d" % rc}
        ck.count(1, ("gtal", o < n, o >= 1 << 31, n >= 1 << 31, n >= 1 << 32, r.get("grew")))
        expect = "1" if o < n else "0"
        if r.get("grew") != expect or r.get("old_intact") != "1" or r.get("size") != str(max(o, n)):
            viol.append(((o, n), r))
        if r.get("grew") != m:
            mism.append(((o, n), r.get("grew"), m))
        ck.sample({"gtal": [o, n], "impl": r, "model_grows": m}, cap=9)
    ck.oblige("corr:grow_to_at_least guard (real vector vs generated guard)", "correspondence", not mism, mism[:3])
    ck.oblige("monitor:grow_to_at_least constructs [old,new)", "correspondence", not viol, viol[:3])
    for (o, n), r in viol[:1]:
        key = "gtal-int-truncation" if max(o, n) >= 1 << 31 else "gtal:%d,%d" % (o, n)
        ck.counterexample(key, "v.reserve(%d); grow_by(%d); grow_to_at_least(%d,'x') returned with %s (expected the range [%d,%d) constructed with 'x')" % (max(o, n) + 16, o, n, r, o, n),
                          {"engine": "E-REAL", "harness": "harness/c11/gtal.cpp", "args": [str(o), str(n)], "expected": "grew=%s" % ("1" if o < n else "0"), "observed": r})


def run_grow(ck):
    exe = cxx_build("C11", "grow", ["harness/c11/grow.cpp", STUBS], flags=["-O1", "-g", "-pthread"])
    scs = grow_scenarios(ck)
    bad_mon, bad_corr = [], []
    for per in scs:
        text = "T %d\n" % len(per) + "".join("%d %s %d\n" % (t, k, a) for t, ops in enumerate(per) for (k, a) in ops) + "run\n"
        rc, out, err = sh([exe], input=text, timeout=120)
        if rc != 0:
            bad_mon.append((text, "rc=%d %s" % (rc, err[-300:])))
            continue
        calls, final = [], {}
        for l in out.split("\n"):
            w = l.split()
            if w and w[0] == "call":
                calls.append((int(w[1]), int(w[2]), w[3], int(w[4]), None if w[5] == "-" else int(w[5]), None if w[6] == "-" else int(w[6])))
            elif w and w[0] == "final":
                final = dict(kv.split("=") for kv in w[1:])
        claimed = sorted([c for c in calls if c[4] is not None], key=lambda c: c[4])
        # implementation-side monitors: tile, constructed once with the right value, addresses stable
        pos, tile = 0, True
        for c in claimed:
            if c[4] != pos or c[5] <= c[4]:
                tile = False
            pos = c[5]
        size = int(final.get("size", -1))
        mon_ok = tile and pos == size and final.get("copies") == str(size) and final.get("tags_ok") == "1" and final.get("addr_stable") == "1"
        if not mon_ok:
            bad_mon.append((text, out))
        # model replay: the calls in hand-out order (unclaimed calls last), each as its own model thread
        order = claimed + [c for c in calls if c[4] is None]
        ml = ["reset"]
        for c in order:
            ml.append("prog %s %d" % (c[2], c[3]))
        nsteps = []
        for i, c in enumerate(order):
            if False:
                pass
            else:
                k = 2 if (c[2] == "to" and c[3] != 0) else 1
                ml += ["s %d" % i] * k
                nsteps.append(k)
        ml.append("tiles")
        mo = drv("c11st", "\n".join(ml) + "\n")
        steps = mo[1 + len(order):-1]
        j = 0
        for i, c in enumerate(order):
            k = max(nsteps[i], 1)
            last = steps[j + k - 1]
            j += k
            if nsteps[i] == 0:
                continue
            left_claims = last.split(" | ")[1].split()
            exp = ["0"] if c[4] is None else ["0", "%d:%d" % (c[4], c[5])]
            if left_claims != exp:
                bad_corr.append((text, c, last))
                break
        if mo[-1].split()[0] != "1" or mo[-1].split()[1] != str(size):
            bad_corr.append((text, "model log does not tile / size differs", mo[-1]))
        ck.count(1, (len(per), tuple(sorted((c[2], c[4] is None) for c in calls))))
        ck.traces_validated += 1
        ck.sample({"scenario": [[list(o) for o in ops] for ops in per], "handed_out": [[c[0], c[2], c[3], c[4], c[5]] for c in claimed]}, cap=9)
    ck.oblige("monitor:ranges tile, constructed once with the requested value, addresses stable (real threads)", "correspondence", not bad_mon, bad_mon[:1])
    ck.oblige("corr:size-word model replays the observed hand-out order", "correspondence", not bad_corr, bad_corr[:1])
    for text, out in bad_mon[:1]:
        ck.counterexample("grow-history", "concurrent growth history violates tiling/construct-once/address stability",
                          {"engine": "E-REAL", "harness": "harness/c11/grow.cpp", "stdin": text, "observed": out})


def parse_shim_runs(out):
    runs, cur = [], None
    for l in out.split("\n"):
        w = l.split()
        if not w:
            continue
        if w[0] == "run":
            cur = {"ev": [], "calls": [], "mon": "", "sched": []}
        elif cur is None:
            continue
        elif w[0] == "e":
            cur["ev"].append((int(w[1]), w[2], w[3], w[4], w[5]))
        elif w[0] == "call":
            cur["calls"].append((int(w[1]), int(w[2]), w[3], int(w[4]), w[5], w[6]))
        elif w[0] == "mon":
            cur["mon"] = " ".join(w[1:])
        elif w[0] == "sched":
            cur["sched"] = w[1:]
        elif w[0] == "end":
            runs.append(cur)
            cur = None
    return runs


SHIM_CORPUS = [
    [[("to", 5), ("push", 0)], [("by", 3), ("to", 20)], [("push", 0), ("by", 9)]],
    [[("to", 9), ("to", 9)], [("to", 9), ("by", 1)], [("by", 8)]],           # embedded table limit (8) crossed by racing growers
    [[("by", 16)], [("push", 0), ("push", 0), ("push", 0)], [("to", 17)]],
    [[("push", 0)], [("push", 0)], [("push", 0)], [("by", 2)]],              # first-block election on an empty vector
]


def run_shim(ck):
    """E-SHIM: the real header under the controlled scheduler; every access to my_size is replayed on the Lean model."""
    exe = cxx_build("C11", "shim", ["harness/c11/shim.cpp", common.SHIM_SRC, STUBS], flags=["-O1", "-g", "-fno-access-control"] + common.SHIM_FLAGS)
    quick = ck.tier == "quick"
    rng = ck.rng
    scs = list(SHIM_CORPUS)
    bnd = [0, 1, 2, 3, 7, 8, 9, 15, 16, 17, 33, 64, 65]
    for _ in range(12 if quick else 120):
        T = rng.choice([2, 3, 3, 4])
        scs.append([[(rng.choice(["push", "by", "to"]), rng.choice(bnd)) for _ in range(rng.randrange(1, 4))] for _ in range(T)])
    bad_mon, bad_corr, nruns, dfs_runs = [], [], 0, 0
    for si, sc in enumerate(scs):
        text = "".join("prog " + " ".join("%s %d" % (k, a if k != "push" else 0) for k, a in p) + "\n" for p in sc)
        rc, out, err = sh([exe, "rand", str(ck.seed * 1000 + si), "25" if quick else "100"], input=text, timeout=600)
        for r in parse_shim_runs(out):
            nruns += 1
            if r["mon"] != "ok":
                bad_mon.append((sc, r))
            # access-level replay of the size word
            ml = ["reset"] + ["prog " + " ".join("%s %d" % (k, a if k != "push" else 0) for k, a in p) for p in sc]
            # the model must skip `by 0` calls explicitly (they do not touch the word): track per-thread op cursor
            cursor = [0] * len(sc)
            left = [list(p) for p in sc]

            def skips(t):
                out_ = []
                pass
                return out_
            lines, expect = [], []
            for (t, k, a, b, ok) in r["ev"]:
                for sk in skips(t):
                    lines.append(sk); expect.append(None)
                lines.append("s %d" % t)
                expect.append([k, a, b if k != "load" else "0", ok])
                # advance the cursor when the op finished: decided by the model output below
            mo = drv("c11st", "\n".join(ml + lines + ["tiles"]) + "\n")[1 + len(sc):]
            d = None
            for i, (ln, ex) in enumerate(zip(lines, expect)):
                if ex is None:
                    continue
                got = mo[i].split(" | ")[0].split()
                if got != ex:
                    d = "access %d (%s): implementation %s, model %s" % (i, ln, " ".join(ex), mo[i])
                    break
                t = int(ln.split()[1])
                opsleft = int(mo[i].split(" | ")[1].split()[0])
                while len(left[t]) > opsleft:
                    left[t].pop(0)
            if d is None:
                # final claims per thread must equal the ranges the real calls returned
                for t in range(len(sc)):
                    real = ["%s:%s" % (c[4], c[5]) for c in r["calls"] if c[0] == t and c[4] != "-"]
                    lastline = [mo[i] for i, ln in enumerate(lines) if ln == "s %d" % t]
                    modelc = lastline[-1].split(" | ")[1].split()[1:] if lastline else []
                    if real != modelc:
                        d = "thread %d ranges: implementation %s, model %s" % (t, real, modelc)
                        break
            ck.traces_validated += 1
            if d:
                bad_corr.append((sc, r, d))
            ck.count(1, ("shim", len(sc), tuple(sorted(set(e[1] + e[4] for e in r["ev"])))))
        if rc not in (0, 1, 3):
            bad_mon.append((sc, {"mon": "harness crashed rc=%d %s" % (rc, err[-200:]), "sched": []}))
    for sc in SHIM_CORPUS[: (2 if quick else 4)]:
        text = "".join("prog " + " ".join("%s %d" % (k, a if k != "push" else 0) for k, a in p) + "\n" for p in sc)
        rc, out, err = sh([exe, "dfs", "1" if quick else "2", "6000" if quick else "300000"], input=text, timeout=1500)
        m = re.search(r"summary runs=(\d+) bad=(\d+)", out)
        if m:
            dfs_runs += int(m.group(1))
        if rc != 0 or not m or m.group(2) != "0":
            rs = parse_shim_runs(out)
            bad_mon.append((sc, rs[-1] if rs else {"mon": "harness rc=%d" % rc, "sched": []}))
    ck.evaluations += dfs_runs
    ck.extra["shim_schedules"] = {"random_runs": nruns, "dfs_runs": dfs_runs}
    ck.oblige("corr:every access to my_size under E-SHIM replays on the Lean size-word model (kind, values, CAS outcome, ranges)", "correspondence",
              not bad_corr, "" if not bad_corr else "%s | scenario %s" % (bad_corr[0][2], bad_corr[0][0]))
    ck.oblige("monitor:E-SHIM growers (segment election, table switch, waits): tile / constructed once / stable addresses / no deadlock", "correspondence",
              not bad_mon, "" if not bad_mon else "%s | scenario %s" % (bad_mon[0][1]["mon"], bad_mon[0][0]))
    for sc, r in bad_mon[:1]:
        ck.counterexample("shim-growers:" + (r["mon"].split(" ")[0] if r["mon"] else "?"), "concurrent growers: %s under schedule %s" % (r["mon"], " ".join(r["sched"][:120])),
                          {"engine": "E-SHIM", "harness": "harness/c11/shim.cpp", "scenario": sc, "schedule": r["sched"], "monitor": r["mon"]})



# ---------------------------------------------------------------------------------------------
# E-SHIM on the segment-table protocol: every access to the table words replays on the Lean model SegVec
# ---------------------------------------------------------------------------------------------
SEG_STEP_NOTES = {"alloc", "allocfail", "free", "talloc", "tallocfail", "tfree", "ctor", "ctorfail"}
SEG_FLAGS = ["-O1", "-g", "-fno-access-control"]


def seg_exe():
    return cxx_build("C11", "segshim", ["harness/c11/segshim.cpp", common.SHIM_SRC, STUBS], flags=SEG_FLAGS + common.SHIM_FLAGS)


def sc_text(sc):
    return "".join("prog " + " ".join("%s %d" % (k, a if k != "push" else 0) for k, a in p) + "\n" for p in sc)


def parse_seg_runs(out):
    runs, cur = [], None
    for l in out.split("\n"):
        w = l.split()
        if not w:
            continue
        if w[0] == "run":
            cur = {"ev": [], "res": {}, "mon": "", "sched": [], "final": "", "known": "", "crash": ""}
        elif w[0] == "CRASH":
            if cur is None:
                cur = {"ev": [], "res": {}, "mon": "", "sched": [], "final": "", "known": "", "crash": ""}
            cur["crash"] = l.strip()
        elif cur is None:
            continue
        elif w[0] == "e":
            cur["ev"].append((int(w[1]), " ".join(w[2:])))
        elif w[0] == "n":
            if w[2] in SEG_STEP_NOTES:
                cur["ev"].append((int(w[1]), "note " + " ".join(w[2:])))
            elif w[2] == "ret":
                cur["res"].setdefault(int(w[1]), []).append("n" if (w[3] == "0" and w[4] == "0") else "r:%s:%s" % (w[3], w[4]))
            elif w[2] == "exc":
                cur["res"].setdefault(int(w[1]), []).append("x:" + w[3])
        elif w[0] == "final":
            cur["final"] = l.strip()
        elif w[0] == "mon":
            cur["mon"] = " ".join(w[1:])
        elif w[0] == "known":
            cur["known"] = " ".join(w[1:])
        elif w[0] == "sched":
            cur["sched"] = w[1:]
        elif w[0] == "end":
            runs.append(cur)
            cur = None
    return runs


def seg_replay(sc, runs, faults=()):
    """Replay every run on the Lean model (driver c11seg).  Adds to each run: diff (None = every write/RMW/allocator call/
    construction/result/final state agrees), skipped (implementation-side plain loads the model does not have), stronger
    (accesses with a stronger memory order than the model's), and for deadlocked runs what the model says about every thread
    (stuck: F finished / S spinning / P can make progress; pcs)."""
    lines, marks = [], []
    for r in runs:
        lines.append("reset")
        for kind, k in faults:
            lines.append("fault %s %d" % (kind, k))
        for p in sc:
            lines.append("prog " + " ".join("%s %d" % (k, a if k != "push" else 0) for k, a in p))
        start = len(lines)
        for t, txt in r["ev"]:
            lines.append("x %d %s" % (t, txt))
        for t in range(len(sc)):
            lines.append("res %d" % t)
        lines += ["final", "flags", "pcs", "stuck"]
        marks.append((start, len(r["ev"])))
    mo = drv("c11seg", "\n".join(lines) + "\n")
    for r, (start, n) in zip(runs, marks):
        d = None
        r["skipped"] = r["stronger"] = 0
        for i in range(n):
            o = mo[start + i]
            if o.startswith("skip"):
                r["skipped"] += 1
            elif o.startswith("ok+"):
                r["stronger"] += 1
            elif o != "ok":
                d = "access %d (thread %d): implementation `%s`, model `%s`" % (i, r["ev"][i][0], r["ev"][i][1], o)
                break
        dead = "DEADLOCK" in r["mon"] or bool(r["crash"])
        base = start + n
        if d is None and not dead:
            for t in range(len(sc)):
                m = mo[base + t].split()
                if m[0] != "0":
                    d = "thread %d: the model has %s calls left when the implementation's trace ends" % (t, m[0]); break
                if m[1:] != r["res"].get(t, []):
                    d = "thread %d call results: implementation %s, model %s" % (t, r["res"].get(t, []), m[1:]); break
            if d is None and mo[base + len(sc)] != r["final"]:
                d = "final state: implementation `%s`, model `%s`" % (r["final"], mo[base + len(sc)])
        r["flags"] = mo[base + len(sc) + 1]
        r["pcs"] = mo[base + len(sc) + 2]
        r["stuck"] = mo[base + len(sc) + 3].split()
        if d is None and ("oob=1" in r["flags"] or "wild=1" in r["flags"] or "badTab=1" in r["flags"]):
            d = "model error flags after the replay: " + r["flags"]
        r["diff"] = d
    return runs


SEG_CORPUS = [
    [[("to", 5), ("push", 0)], [("by", 3), ("to", 20)], [("push", 0), ("by", 9)]],
    [[("to", 9), ("to", 9)], [("to", 9), ("by", 1)], [("by", 8)]],            # embedded->long switch raced by three growers
    [[("by", 16)], [("push", 0), ("push", 0), ("push", 0)], [("to", 17)]],
    [[("push", 0)], [("push", 0)], [("push", 0)], [("by", 2)]],               # first-block election, 4 threads
    [[("by", 20)], [("push", 0), ("push", 0)], [("push", 0), ("by", 3)]],     # first block of 32: the election winner extends the table
    [[("by", 5)], [("by", 20)], [("push", 0)], [("to", 12)]],                 # crosser waits for embedded slots 0..2
    [[("push", 0), ("push", 0), ("by", 17)], [("to", 30)], [("push", 0), ("by", 9)]],
    [[("by", 9)], [("by", 9)], [("to", 9)]],
    [[("push", 0)] * 9, [("push", 0)] * 9],                                    # the table switch is done by a push_back (index 8)
]


def seg_scenarios(ck, n):
    rng = ck.rng
    bnd = [0, 1, 2, 3, 4, 5, 7, 8, 9, 10, 15, 16, 17, 33]
    scs = list(SEG_CORPUS)
    for _ in range(n):
        T = rng.choice([2, 3, 3, 4])
        scs.append([[(rng.choice(["push", "by", "to"]), rng.choice(bnd)) for _ in range(rng.randrange(1, 4))] for _ in range(T)])
    return scs


def seg_cover(ck, r):
    txt = " ".join(e for _, e in r["ev"])
    ck.count(1, ("seg", "switch" if "cas tptr rel E L" in txt else "-", "loser-table" if "note tfree" in txt else "-",
                 "fb-loser" if "note free" in txt else "-", "waiter" if "load failed" in txt else "-",
                 "fill" if re.search(r"store [EL]\d*\.\d+ rel A\d+ ", txt) else "-"))


def run_seg(ck):
    """The real concurrent_vector under the controlled scheduler: every access to my_size / my_first_block / my_segment_table /
    embedded and long table slots / my_segment_table_allocation_failed, every allocator call and every element construction is
    replayed, in order, on the Lean model SegVec (kind, variable, memory order, values, CAS outcome), and the call results and the
    final table are compared.  Implementation-side monitors (independent of the model): address stability after every call,
    constructed exactly once at an address the table maps, one published allocation per segment / no leak, tiling,
    grow_to_at_least(n) (waiting path) returns with every segment below n present, destructor frees everything once."""
    exe = seg_exe()
    quick = ck.tier == "quick"
    scs = seg_scenarios(ck, 14 if quick else 150)
    bad_mon, bad_corr, known, nruns, skipped, stronger, dfs_runs = [], [], [], 0, 0, 0, 0
    size_corr = []
    for si, sc in enumerate(scs):
        rc, out, err = sh([exe, "rand", str(ck.seed * 1000 + si), "12" if quick else "60"], input=sc_text(sc), timeout=900)
        runs = seg_replay(sc, parse_seg_runs(out))
        for r in runs:
            nruns += 1
            ck.traces_validated += 1
            skipped += r["skipped"]; stronger += r["stronger"]
            seg_cover(ck, r)
            if r["mon"] != "ok" or r["crash"]:
                bad_mon.append((sc, r))
            if r["diff"]:
                bad_corr.append((sc, r))
            if r["known"]:
                known.append((sc, r))
        if rc not in (0, 1, 3) and not runs:
            bad_mon.append((sc, {"mon": "harness crashed rc=%d %s" % (rc, err[-200:]), "sched": [], "crash": "rc=%d" % rc, "diff": None}))
        if len(ck.samples) < 12 and runs:
            ck.sample({"segment-table scenario": [[list(o) for o in p] for p in sc], "events": len(runs[0]["ev"]), "first events": [e for _, e in runs[0]["ev"][:6]],
                       "final": runs[0]["final"]}, cap=12)
    # bounded-preemption DFS: monitors on every schedule, model replay on the printed prefix of the enumeration
    for sc in SEG_CORPUS[: (3 if quick else 9)]:
        rc, out, err = sh([exe, "dfsp", "1" if quick else "2", "150" if quick else "3000"], input=sc_text(sc), timeout=1500)
        runs = seg_replay(sc, parse_seg_runs(out))
        for r in runs:
            dfs_runs += 1
            ck.traces_validated += 1
            seg_cover(ck, r)
            if r["mon"] != "ok" or r["crash"]:
                bad_mon.append((sc, r))
            if r["diff"]:
                bad_corr.append((sc, r))
        rc, out, err = sh([exe, "dfs", "1" if quick else "2", "4000" if quick else "200000"], input=sc_text(sc), timeout=1500)
        m = re.search(r"summary runs=(\d+) bad=(\d+)", out)
        if m:
            dfs_runs += int(m.group(1))
        if rc != 0 or not m or m.group(2) != "0":
            rs = seg_replay(sc, parse_seg_runs(out))
            bad_mon.append((sc, rs[-1] if rs else {"mon": "harness rc=%d" % rc, "sched": [], "crash": "", "diff": None}))
    ck.evaluations += dfs_runs
    ck.extra["seg_schedules"] = {"random_runs": nruns, "dfs_runs": dfs_runs, "unmatched_plain_loads_tolerated": skipped, "stronger_orders_tolerated": stronger}
    ck.oblige("corr:every access to the segment-table words, allocator call and element construction under E-SHIM replays on the Lean model "
              "SegVec (kind, variable, memory order, values, CAS outcome, results, final table)", "correspondence", not bad_corr,
              "" if not bad_corr else "%s | scenario %s | schedule %s" % (bad_corr[0][1]["diff"], bad_corr[0][0], " ".join(bad_corr[0][1]["sched"][:200])))
    real_bad = [(sc, r) for sc, r in bad_mon]
    ck.oblige("monitor:segment table (address stable after every call, constructed once where the table maps, one published allocation per "
              "segment, no leak, tiling, grow_to_at_least waits, destructor frees once, no deadlock)", "correspondence", not real_bad,
              "" if not real_bad else "%s | scenario %s" % (real_bad[0][1]["mon"] or real_bad[0][1]["crash"], real_bad[0][0]))
    for sc, r in real_bad[:1]:
        what = r["mon"] or r["crash"]
        ck.counterexample("segtable:" + "-".join(what.split()[1:4]), "segment table: %s under schedule %s" % (what, " ".join(r["sched"][:160])),
                          {"engine": "E-SHIM-SEG", "harness": "harness/c11/segshim.cpp", "scenario": sc, "schedule": r["sched"], "monitor": what})
    ck.extra["seg_corr_broken_scenarios"] = [sc for sc, _ in bad_corr[:3]]
    if known:
        sc, r = known[0]
        ck.extra["gtal_grow_path_observed"] = len(known)
        ck.counterexample(r["known"].split()[0], "%s (scenario %s, schedule %s)" % (" ".join(r["known"].split()[1:]), sc, " ".join(r["sched"][:80])),
                          {"engine": "E-SHIM-SEG", "harness": "harness/c11/segshim.cpp", "scenario": sc, "schedule": r["sched"], "monitor": r["known"]})
    return exe


def seg_search(ck, exe, scs):
    """failing-input search used when a correspondence broke and neither the monitors nor the fault schedules produced a failing
    schedule yet: more seeds and a deeper DFS with the implementation monitors (bounded: about a minute)"""
    for sc in scs:
        for seed in range(8):
            rc, out, err = sh([exe, "rand", str(7000 + seed), "25"], input=sc_text(sc), timeout=600)
            for r in parse_seg_runs(out):
                if r["mon"] != "ok" or r["crash"]:
                    return sc, r
        rc, out, err = sh([exe, "dfs", "2", "8000"], input=sc_text(sc), timeout=900)
        for r in parse_seg_runs(out):
            if r["mon"] != "ok" or r["crash"]:
                return sc, r
    return None


SEG_FAULT_CORPUS = [
    [[("push", 0)] * 10 + [("by", 100)]],
    [[("by", 40)], [("by", 40)]],
    [[("push", 0), ("push", 0), ("by", 17)], [("to", 30)], [("push", 0), ("by", 9)]],
    [[("by", 3), ("by", 200)], [("push", 0), ("push", 0), ("push", 0)]],
    [[("push", 0)], [("push", 0)], [("push", 0)], [("by", 2)]],
    # the long-table allocation throws while other growers already wait for the table switch (extend_table_if_necessary's
    # waiting branch) -- they must be released by my_segment_table_allocation_failed
    [[("by", 20)], [("push", 0), ("push", 0)], [("push", 0)]],
    [[("push", 0)], [("by", 20)], [("push", 0), ("by", 3)], [("push", 0)]],
    [[("push", 0)] * 9, [("push", 0)] * 9, [("by", 2)]],
    [[("by", 20)], [("to", 12)]],
]


def seg_fault_key(kind, r):
    """finding key of a failing fault run"""
    txt = r["mon"] or r["crash"]
    ev = r["ev"]
    first_block = False
    for i, (t, e) in enumerate(ev):
        if e.startswith("note allocfail"):
            nxt = [e2 for (t2, e2) in ev[i + 1:] if t2 == t]
            first_block = bool(nxt) and nxt[0].startswith("cas ")
    if "DEADLOCK" in txt:
        if "P" in r["stuck"] and not r.get("diff"):
            return "deadlock-not-in-model"          # the replay agrees up to here and the model can still move: the implementation
                                                    # lost a wake-up / a release (if the replay already diverged, the model's state
                                                    # says nothing about this run and the run is attributed by its fault kind only)
        if kind == "table":
            return "fault:table-alloc-throw:gtal-waiter:deadlock" if "wSpinTab" in r["pcs"] else "fault:table-alloc-throw:deadlock"
        if kind == "ctor":
            return "fault:ctor-throw:deadlock"
        return "fault:alloc-throw:%s:deadlock" % ("first-block" if first_block else "segment")
    if r["crash"]:
        return "fault:%s-throw:crash" % kind
    if kind == "alloc" and first_block and ("address of element" in txt or "inaccessible" in txt or "lost its value" in txt) and "lost=0" not in r["flags"]:
        return "fault:alloc-throw:first-block:overwrites-published-segment"
    return "fault:%s-throw:monitor" % kind


def run_seg_faults(ck, exe):
    """Fault plans on the segment-table protocol: the k-th element-storage allocation, the k-th long-table allocation or the k-th
    element construction throws, under controlled interleavings; every run (the failure tagging, the allocation-failed flag, the
    waiters' re-checks) is replayed on the Lean model with the same fault plan.  An implementation-side deadlock is attributed
    with the model: if the model's threads can still move the implementation lost a release (violation); if the model is stuck
    too it is one of the listed known findings of the failure clauses."""
    quick = ck.tier == "quick"
    bad_corr, bad, fired, runs_n = [], [], 0, 0
    for si, sc in enumerate(SEG_FAULT_CORPUS):
        plans = [("alloc", "VERIF_FAULT_ALLOC", k) for k in ((1, 2, 3) if quick else range(1, 7))]
        plans += [("table", "VERIF_FAULT_TABLE", k) for k in ((1, 2) if quick else (1, 2, 3))]
        total = sum((1 if k == "push" else a) for p in sc for k, a in p)
        ks = sorted(set([1, 2, 3, 5, 9, total] + ([ck.rng.randrange(1, total + 1) for _ in range(2)] if quick else [ck.rng.randrange(1, total + 1) for _ in range(12)])))
        plans += [("ctor", "VERIF_FAULT_CTOR", k) for k in ks if 1 <= k <= total]
        for kind, var, k in plans:
            env = dict(os.environ); env[var] = str(k)
            rc, out, err = sh([exe, "rand", str(ck.seed * 100 + si), "4" if quick else "16"], input=sc_text(sc), timeout=600, env=env)
            rs = seg_replay(sc, parse_seg_runs(out), faults=((kind, k),))
            for r in rs:
                runs_n += 1
                ck.traces_validated += 1
                fired += 1 if any("fail" in e for _, e in r["ev"]) else 0
                ck.count(1, ("segfault", kind, "fired" if any("fail" in e for _, e in r["ev"]) else "nofire", r["mon"].split()[0] if r["mon"] else "crash",
                             "waiter-released" if any(x == "x:1" for v in r["res"].values() for x in v) and kind == "table" else "-"))
                if r["diff"]:
                    bad_corr.append((sc, kind, k, r))
                if r["mon"] != "ok" or r["crash"]:
                    bad.append((sc, kind, k, r, seg_fault_key(kind, r)))
            if rc not in (0, 1, 3) and not rs:
                bad.append((sc, kind, k, {"mon": "", "crash": "harness rc=%d %s" % (rc, err[-200:]), "sched": [], "ev": [], "stuck": [], "pcs": "", "flags": ""}, "fault:%s-throw:crash" % kind))
    # guided: every schedule (bounded preemption) of "the grower that must switch the table gets bad_alloc for the long table while
    # the others already wait for the switch": the waiters must be released by my_segment_table_allocation_failed
    guided = 0
    # (scenarios in which the unchanged code has no deadlock under any schedule: every call's range is larger than the embedded table,
    #  so the first grower is the only one that allocates anything and everybody else waits for the table switch)
    for sc in ([[("by", 40)], [("by", 40)]], [[("by", 40)], [("by", 12)], [("by", 40)]]):
        env = dict(os.environ); env["VERIF_FAULT_TABLE"] = "1"
        rc, out, err = sh([exe, "dfs", "2", "2500" if quick else "60000"], input=sc_text(sc), timeout=900, env=env)
        m = re.search(r"summary runs=(\d+) bad=(\d+)", out)
        guided += int(m.group(1)) if m else 0
        rs = seg_replay(sc, parse_seg_runs(out), faults=(("table", 1),))
        for r in rs:
            if r["mon"] != "ok" or r["crash"]:
                bad.append((sc, "table", 1, r, seg_fault_key("table", r)))
        if (rc not in (0, 1, 3)) and not rs:
            bad.append((sc, "table", 1, {"mon": "", "crash": "harness rc=%d %s" % (rc, err[-200:]), "sched": [], "ev": [], "stuck": [], "pcs": "", "flags": ""}, "fault:table-throw:crash"))
    ck.evaluations += guided
    ck.extra["seg_fault_runs"] = {"runs": runs_n, "faults_fired": fired, "guided_table_failure_schedules": guided}
    ck.oblige("corr:fault runs (failure tagging, my_segment_table_allocation_failed, waiters' re-checks) replay on the Lean model with the same fault plan",
              "correspondence", not bad_corr,
              "" if not bad_corr else "%s | scenario %s fault %s=%d | schedule %s" % (bad_corr[0][3]["diff"], bad_corr[0][0], bad_corr[0][1], bad_corr[0][2], " ".join(bad_corr[0][3]["sched"][:200])))
    keyed, seen = [], set()
    for sc, kind, k, r, key in bad:
        if key not in seen:
            seen.add(key)
            keyed.append((key, sc, kind, k, r))
    ck.oblige("monitor:segment-table fault schedules: every call returns or throws (a deadlock must be one the model has too), completed elements keep "
              "value and address, destructible", "correspondence", not bad,
              "" if not bad else "%s | %s" % (bad[0][4], (bad[0][3]["mon"] or bad[0][3]["crash"])[:200]), cex_keys=[k for k, *_ in keyed])
    for key, sc, kind, k, r in keyed:
        var = {"alloc": "VERIF_FAULT_ALLOC", "table": "VERIF_FAULT_TABLE", "ctor": "VERIF_FAULT_CTOR"}[kind]
        ck.counterexample(key, "scenario %s with %s=%d: %s; model says threads are %s at %s" % (sc, var, k, (r["mon"] or r["crash"])[:100], "".join(r["stuck"]), r["pcs"]),
                          {"engine": "E-SHIM-SEG", "harness": "harness/c11/segshim.cpp", "scenario": sc, "schedule": r["sched"], "env": {var: str(k)},
                           "monitor": r["mon"] or r["crash"]})

FAULT_CORPUS = [
    [[("push", 0)] * 10 + [("by", 100)]],                                  # multi-segment grow_by after the first block
    [[("by", 40)], [("by", 40)]],
    [[("push", 0), ("push", 0), ("by", 17)], [("to", 30)], [("push", 0), ("by", 9)]],
    [[("by", 3), ("by", 200)], [("push", 0), ("push", 0), ("push", 0)]],
]


def run_faults(ck):
    """Fault schedules: the k-th element copy-construction throws, or the k-th segment allocation throws, under
    controlled interleavings.  Property clauses checked: the vector remains destructible, elements of completed calls
    keep their values, later accesses either work or throw, unallocated memory is never touched (a wild access is a
    crash, which verif::report_crashes turns into an observation with the schedule)."""
    exe = cxx_build("C11", "shim", ["harness/c11/shim.cpp", common.SHIM_SRC, STUBS], flags=["-O1", "-g", "-fno-access-control"] + common.SHIM_FLAGS)
    quick = ck.tier == "quick"
    bad, fired, runs = [], 0, 0
    for si, sc in enumerate(FAULT_CORPUS):
        text = "".join("prog " + " ".join("%s %d" % (k, a if k != "push" else 0) for k, a in p) + "\n" for p in sc)
        total = sum((1 if k == "push" else a) for p in sc for k, a in p)
        ks = sorted(set([1, 2, 3, 5, 8, 9, 11, 13, 16, 17, 18, 31, 33, 34, total - 1, total] + ([ck.rng.randrange(1, total + 1) for _ in range(6)] if quick else list(range(1, min(total, 260) + 1)))))
        plans = [("VERIF_FAULT_CTOR", k) for k in ks if 1 <= k <= total] + [("VERIF_FAULT_ALLOC", k) for k in range(1, 9)]
        # no fault, one more thread that only observes while the growers run: [0, size()) and [begin(), end()) name allocated storage at every moment
        plans += [("VERIF_OBSERVER", 3), ("VERIF_OBSERVER", 6)]
        for var, k in plans:
            env = dict(os.environ); env[var] = str(k)
            if var != "VERIF_OBSERVER" and (k % 2 == 0):
                env["VERIF_OBSERVER"] = "2"                # ... and also while a fault strikes
            rc, out, err = sh([exe, "rand", str(ck.seed * 100 + si), "3" if quick else "12"], input=text, timeout=300, env=env)
            runs += 1
            fired += out.count("faults_fired 1")
            ck.count(1, ("fault", si, var, "fired" if "faults_fired 1" in out else "nofire", rc))
            crash = "CRASH" in out or rc not in (0, 1, 3)
            viol = [l for l in out.split("\n") if l.startswith("mon VIOLATION") or l.startswith("mon DEADLOCK")]
            if crash or viol:
                sched = [l for l in out.split("\n") if l.startswith("sched")]
                bad.append({"scenario": sc, "fault": [var, k], "what": ((out[out.find("CRASH"):][:40].replace("\n", " ") if "CRASH" in out else "CRASH rc=%d" % rc) if crash else viol[0]),
                            "schedule": sched[-1].split()[1:] if sched else []})
    probes = run_probes(ck, exe)
    bad = probes + bad
    ck.extra["fault_runs"] = {"plans_run": runs, "faults_fired": fired, "targeted_probes_reproduced": len(probes)}
    keyed, seen = [], set()
    for b in bad:
        kind = "crash" if b["what"].startswith("CRASH") else ("deadlock" if "DEADLOCK" in b["what"] else "monitor")
        if b["fault"][0] == "VERIF_OBSERVER":
            key = "observer:%s" % kind
        elif b["fault"][0] == "VERIF_FAULT_CTOR":
            key = "fault:ctor-throw:%s" % kind
        else:
            key = "fault:alloc-throw:%s:%s" % ("first-block" if b["fault"][1] == 1 else "segment", kind)
        if key not in seen:
            seen.add(key)
            keyed.append((key, b))
    ck.oblige("monitor:fault schedules (k-th element copy / k-th segment allocation throws): destructible, completed elements intact, "
              "later accesses work or throw (never hang), no wild access", "correspondence", not bad, "" if not bad else str(bad[0])[:300],
              cex_keys=[k for k, _ in keyed])
    for key, b in keyed:
        ck.counterexample(key, "scenario %s with %s=%d: %s" % (b["scenario"], b["fault"][0], b["fault"][1], b["what"][:80]),
                          {"engine": "E-SHIM", "harness": "harness/c11/shim.cpp", "scenario": b["scenario"], "schedule": b["schedule"], "env": {b["fault"][0]: str(b["fault"][1])}})


# Known findings in the failure clauses (KNOWN_FINDINGS.txt), probed on every run with targeted scenarios so that they are
# demonstrated deterministically rather than by luck of the random fault plans:
#  F8 fault:alloc-throw:first-block:deadlock — first-block allocation fails in a thread that still sees the embedded table while
#     my_first_block > 3: only embedded slots 1..2 get the failure tag; a grower in segments 3..first_block-1 waits forever.
#  F9 fault:ctor-throw:deadlock / fault:alloc-throw:segment:deadlock — a grower that leaves by exception never allocates (or tags)
#     the later segments whose first index lies in its claimed range; growers waiting for those segments wait forever.
PROBES = [
    ("VERIF_FAULT_ALLOC", 1, [[("push", 0), ("push", 0)], [("to", 30)], [("push", 0)]]),
    ("VERIF_FAULT_CTOR", 2, [[("by", 3), ("by", 200)], [("push", 0), ("push", 0), ("push", 0)]]),
    ("VERIF_FAULT_ALLOC", 2, [[("push", 0), ("push", 0), ("by", 17)], [("to", 30)], [("push", 0), ("by", 9)]]),
]


def run_probes(ck, exe):
    found = []
    for var, k, sc in PROBES:
        text = "".join("prog " + " ".join("%s %d" % (kk, a if kk != "push" else 0) for kk, a in p) + "\n" for p in sc)
        env = dict(os.environ); env[var] = str(k)
        for seed in range(0, 40):
            rc, out, err = sh([exe, "rand", str(seed), "5"], input=text, timeout=120, env=env)
            if "mon VIOLATION DEADLOCK" in out or "CRASH" in out or rc not in (0, 1, 3):
                sched = [l for l in out.split("\n") if l.startswith("sched")]
                what = "mon VIOLATION DEADLOCK (a grower waits forever for a segment nobody will allocate or tag)" if "DEADLOCK" in out else (out[out.find("CRASH"):][:40].replace("\n", " ") if "CRASH" in out else "CRASH rc=%d" % rc)
                found.append({"scenario": sc, "fault": [var, k], "what": what, "schedule": sched[-1].split()[1:] if sched else []})
                break
    return found


def run(ck):
    ck.rule = ("E-PURE: boundary-biased 64-bit indices (all 2^k, 2^k±1,±2; random per bit-length; thorough adds every index < 2^20), every k<64 for "
               "segment_base/size, element addresses of real vectors for several first-block sizes; E-REAL: random 2-4 thread grower scenarios and "
               "grow_to_at_least (old,new) pairs incl. >= 2^31 (thorough: >= 2^32); E-SHIM-SEG: corpus + random 2-4 thread scenarios (push/grow_by/grow_to_at_least with "
               "deltas around 2^k and the embedded-table limit 8), random and bounded-preemption DFS schedules, fault plans (k-th allocation / long-table "
               "allocation / construction throws). distinct = distinct (operation, outcome class) pairs / (switch, loser table, election loser, waiter, fill) classes")
    ck.assumptions += [
        "model SegVec (Model/C11Seg.lean) covers, at atomic-access granularity: my_size, my_first_block, my_segment_table (embedded vs long table, the CAS "
        "switch, losers destroying their table), the embedded and long table slots, my_segment_table_allocation_failed, first-block election "
        "(allocate, CAS table[0], loser deallocates), segment owners, waiters, failure tagging, internal_subscript's wait/failed check, the grow path, "
        "grow_to_at_least's CAS-max loop and its wait for segments, size()/capacity(); decision guards are regenerated from the source text",
        "theorems for the failure-free system (DInv, 30 invariants, any threads/programs/schedules): slot write-once, table switch preserves pointers, "
        "no stale-embedded publication lost, element address stable/injective/in bounds, constructed once, one allocation per segment, one published "
        "first block, no leak; for ANY fault plan: construct only through an observed real pointer, no null table, no embedded out-of-bounds, "
        "table-switch waiters released by the failure flag; the known findings of the failure clauses are exhibited on the model (witness theorems)",
        "grow_to_at_least(n): the property text asks for 'all elements below n constructed'; the code guarantees only 'segments below n allocated' and only "
        "on its waiting path (gtal_waits_for_all_partial + two negation witnesses; KNOWN_FINDINGS gtal-grow-path-no-wait)",
        "exception paths: failure tagging / allocation-failed flag are modelled and replayed access by access; the zero-fill of unconstructed elements "
        "after a throwing constructor (element memory, not table words) is not modelled: its table reads are tolerated as unmatched plain loads in fault runs",
        "memory model: the model is sequentially consistent; memory orders of every table access are compared with the model's (a weaker order breaks the "
        "correspondence, a stronger one is tolerated and counted)",
        "size_t sums are assumed not to wrap (sizes <= max_size); element_address_is_addrOf / element_storage_disjoint assume size < 2^64",
        "clear / shrink_to_fit / reserve / assignment are not concurrency-safe and not modelled"]
    ck.trusted += ["checks/cexpr.py + checks/c11.py:translate_gtal_guard / translate_seg_guards (C++ guards -> Lean)", "harness/c11/*.cpp (observation of the real headers; "
                   "segshim.cpp canonicalises addresses -> E.k / L<n>.k, pointer values -> A<id>[-shift])",
                   "correspondence is sampled (differential), not proved"]
    gen(ck)
    ck.lean_stage()
    run_pure(ck)
    run_gtal(ck)
    run_grow(ck)
    run_shim(ck)
    run_faults(ck)
    exe = run_seg(ck)
    run_seg_faults(ck, exe)
    known_keys = {k for (p_, k, _) in common.known_findings() if p_ == "C11"}
    if any(not o["ok"] and o["name"].startswith("corr:") and "segment-table" in o["name"] or (not o["ok"] and o["name"].startswith("corr:fault runs")) for o in ck.obligations) \
            and not any(c["key"] not in known_keys for c in ck.counterexamples):
        found = seg_search(ck, exe, [tuple(map(tuple, sc)) and sc for sc in ck.extra.get("seg_corr_broken_scenarios", [])] + SEG_CORPUS[:3])
        if found:
            sc2, r2 = found
            what = r2["mon"] or r2["crash"]
            ck.counterexample("segtable:" + "-".join(what.split()[1:4]), "segment table: %s under schedule %s" % (what, " ".join(r2["sched"][:160])),
                              {"engine": "E-SHIM-SEG", "harness": "harness/c11/segshim.cpp", "scenario": sc2, "schedule": r2["sched"], "monitor": what})


def replay(ck, obj):
    r = obj["replay"]
    if r.get("engine") == "E-SHIM-SEG":
        exe = seg_exe()
        env = dict(os.environ); env.update(r.get("env", {}))
        rc, out, err = sh([exe, "replay", ",".join(r["schedule"])], input=sc_text([[tuple(o) for o in p] for p in r["scenario"]]), timeout=300, env=env)
        print(out[-3000:])
        return 0 if rc == 0 else 1
    if r.get("engine") == "E-SHIM":
        exe = cxx_build("C11", "shim", ["harness/c11/shim.cpp", common.SHIM_SRC, STUBS], flags=["-O1", "-g", "-fno-access-control"] + common.SHIM_FLAGS)
        text = "".join("prog " + " ".join("%s %d" % (k, a if k != "push" else 0) for k, a in p) + "\n" for p in r["scenario"])
        env = dict(os.environ); env.update(r.get("env", {}))
        rc, out, err = sh([exe, "replay", ",".join(r["schedule"])], input=text, timeout=300, env=env)
        print(out[-2000:])
        return 0 if rc == 0 else 1
    name = os.path.basename(r["harness"])[:-4]
    flags = {"gtal": ["-O1", "-fno-access-control"], "grow": ["-O1", "-g", "-pthread"], "pure": ["-O1", "-fno-access-control"]}[name]
    exe = cxx_build("C11", name, [r["harness"], STUBS], flags=flags)
    rc, out, err = sh([exe] + r.get("args", []), input=r.get("stdin"), timeout=300)
    print("replay of %s: rc=%d\n%s" % (obj.get("key"), rc, out))
    if "expected" in r:
        okk = r["expected"] in out
        print("expected %s -> %s" % (r["expected"], "property holds now" if okk else "STILL FAILS"))
        return 0 if okk else 1
    return 0
